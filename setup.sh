#!/bin/bash
# Builds the whole Coq development (full .vo) from files on disk, offline.
set -e
cd "$(dirname "$0")"
/venv/bin/python - <<'PY'
import sys
sys.path.insert(0, "harness")
import core
errs = core.regenerate()
for e in errs:
    print("translator:", e)
core.ensure_makefile()
PY
cd coq
timeout 3000 make -j16 -k 2>&1 | tail -40
