#!/venv/bin/python
"""Runs /repo's pinned test suite with the verification guard OFF and compares the set of
passing tests with /root/.vp/BASELINE.json's stable_pass list.  exit 0 iff none is lost."""
import json, os, subprocess, sys, tempfile, xml.etree.ElementTree as ET

env = {k: v for k, v in os.environ.items() if k != "TERM_IMAGE_VERIF"}
with tempfile.TemporaryDirectory() as d:
    x = os.path.join(d, "r.xml")
    subprocess.run(["/venv/bin/python", "-m", "pytest", "-ra", "-q", "-p", "no:cacheprovider", "--timeout=900",
                    "--continue-on-collection-errors", f"--junitxml={x}"], cwd="/repo", env=env,
                   stdout=subprocess.DEVNULL, stderr=subprocess.DEVNULL)
    passed = set()
    for tc in ET.parse(x).getroot().iter("testcase"):
        if tc.find("failure") is None and tc.find("error") is None and tc.find("skipped") is None:
            passed.add((tc.get("classname") or "") + "::" + (tc.get("name") or ""))
try:
    base = set(json.load(open("/root/.vp/BASELINE.json"))["stable_pass"])
except Exception:
    base = set()
missing = sorted(base - passed)
print(f"passed={len(passed)} baseline={len(base)} missing={len(missing)}")
for m in missing[:20]:
    print("  MISSING", m)
sys.exit(1 if missing or not passed else 0)
