#!/bin/bash
# usage: goals.sh file.v LINE  -> prints goals after running file up to LINE (inclusive)
f=$1; n=$2
head -n $n $f > /tmp/_g_$$.v
echo 'Show. ' >> /tmp/_g_$$.v
cd /verif/coq && timeout 120 coqtop -Q . TI -quiet < /tmp/_g_$$.v 2>&1 | tail -${3:-60}
