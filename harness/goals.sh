#!/bin/bash
# usage: goals.sh file.v LINE [TAIL] -> goals after running file (relative to /verif/coq, or absolute) up to LINE
cd /verif/coq
f=$1; n=$2
head -n $n $f > /tmp/_g_$$.v
echo 'Show. ' >> /tmp/_g_$$.v
timeout 120 coqtop -Q . TI -quiet < /tmp/_g_$$.v 2>&1 | tail -${3:-60}
rm -f /tmp/_g_$$.v
