"""Fail-closed lexer for C18: what a urwid raw-display screen writes -> tokens of the
placement-level terminal of coq/model/Screen.v ([stok]).

Only what matters for graphics placements is kept: cursor addressing and movement, the
width of text, kitty graphics commands (transmit-and-display, delete), iTerm2 inline
images, the synchronized-update markers.  SGR, erasure, modes, charset designations are
KOther.  A chunked kitty transmission is one KPlace (placed when complete; the cursor
does not move in between).  Anything unknown raises LexError.  Separate from
harness/lexer.py (the render lexer of C01-C06), which knows no absolute addressing."""
from __future__ import annotations

import re
import unicodedata

ESC = "\x1b"


class LexError(Exception):
    pass


def _width(ch: str) -> int:
    o = ord(ch)
    if o < 0x20 or o == 0x7F or 0x80 <= o < 0xA0:
        raise LexError(f"unexpected control character {o:#x}")
    if unicodedata.combining(ch):
        return 0
    return 2 if unicodedata.east_asian_width(ch) in ("W", "F") else 1


_CSI = re.compile(r"\x1b\[([0-9;?<=>!]*)([\x20-\x2f]*)([\x40-\x7e])")


def _kitty(content: str, state: dict):
    keys, _, payload = content.partition(";")
    kv = {}
    for item in keys.split(","):
        if not item:
            continue
        k, eq, v = item.partition("=")
        if not eq or k in kv:
            raise LexError(f"malformed kitty control data {keys!r}")
        kv[k] = v
    if kv.get("a") == "d":
        d = kv.get("d", "a")
        if set(kv) - {"a", "d", "z"} or payload:
            raise LexError(f"unknown kitty delete {keys!r}")
        if state["pending"]:
            raise LexError("kitty delete inside a chunked transmission")
        if d in "aA" and "z" not in kv:
            return [("del", "all")]
        if d in "cC" and "z" not in kv:
            return [("del", "cursor")]
        if d in "zZ" and "z" in kv:
            return [("del", "z", int(kv["z"]))]
        raise LexError(f"unknown kitty delete {keys!r}")
    if set(kv) == {"m"}:
        if not state["pending"]:
            raise LexError("kitty continuation chunk without a transmission")
        if kv["m"] == "0":
            tok = state["pending"]
            state["pending"] = None
            return [tok]
        return []
    if set(kv) == {"q", "m"} and kv["q"] == "1" and kv["m"] == "0" and not payload:
        state["pending"] = None
        return []
    if kv.get("a") == "T":
        known = {"a", "f", "t", "s", "v", "z", "o", "C", "c", "r", "m"}
        if set(kv) - known:
            raise LexError(f"unknown kitty keys {sorted(set(kv) - known)}")
        if "c" not in kv or "r" not in kv:
            raise LexError("kitty transmission without c/r")
        if state["pending"]:
            raise LexError("kitty transmission inside a chunked transmission")
        tok = ("place", int(kv["c"]), int(kv["r"]), int(kv.get("z", "0")), kv.get("C", "0") == "1")
        if kv.get("m", "0") == "1":
            state["pending"] = tok
            return []
        return [tok]
    raise LexError(f"unknown kitty command {keys!r}")


def _iterm(content: str):
    if not content.startswith("1337;File="):
        raise LexError(f"unknown OSC {content[:20]!r}")
    args, sep, _payload = content[len("1337;File="):].partition(":")
    if not sep:
        raise LexError("iterm2 command without payload")
    kv = {}
    for item in args.split(";"):
        if not item:
            continue
        k, eq, v = item.partition("=")
        if not eq or k in kv:
            raise LexError(f"malformed iterm2 arguments {args!r}")
        kv[k] = v
    if kv.get("inline") != "1" or "width" not in kv or "height" not in kv:
        raise LexError(f"unexpected iterm2 arguments {args!r}")
    if not kv["width"].isdigit() or not kv["height"].isdigit():
        raise LexError(f"iterm2 size not in cells: {args!r}")
    return ("iterm", int(kv["width"]), int(kv["height"]), kv.get("doNotMoveCursor") == "1")


def lex(s: str):
    toks = []
    state = {"pending": None}
    i, n = 0, len(s)
    run = 0

    def flush():
        nonlocal run
        if run:
            toks.append(("right", run))
            run = 0

    while i < n:
        ch = s[i]
        if ch == ESC:
            flush()
            if i + 1 >= n:
                raise LexError("text ends inside an escape sequence")
            k = s[i + 1]
            if k == "[":
                m = _CSI.match(s, i)
                if not m:
                    # a control sequence broken by what follows (urwid's last-row insertion
                    # splits the final byte off the last sequence of a text line): as a
                    # VT500-style parser does, C0 controls inside a control sequence are
                    # executed, ESC aborts it and starts the next sequence
                    j = i + 2
                    inside = []
                    while j < n and s[j] != ESC and not ("\x40" <= s[j] <= "\x7e"):
                        if s[j] == "\b":
                            inside.append(("left", 1))
                        elif s[j] in "\0\x0e\x0f" or "\x20" <= s[j] <= "\x3f":
                            pass
                        elif s[j] == "\r":
                            inside.append(("cr",))
                        elif s[j] == "\n":
                            inside.append(("lf",))
                        elif s[j] > "\x7f":
                            break       # a non-ASCII glyph aborts the sequence and is printed
                        else:
                            raise LexError(f"malformed CSI sequence {s[i:i + 12]!r}")
                        j += 1
                    if j >= n:
                        raise LexError("text ends inside a control sequence")
                    toks.append(("other",))
                    toks += inside
                    i = j if (s[j] == ESC or s[j] > "\x7f") else j + 1
                    continue
                params, inter, final = m.group(1), m.group(2), m.group(3)
                i = m.end()
                if inter:
                    toks.append(("other",))
                    continue
                if final in "Hf" and re.fullmatch(r"\d*(;\d*)?", params):
                    a, _, b = params.partition(";")
                    toks.append(("cup", max(int(a or 1), 1) - 1, max(int(b or 1), 1) - 1))
                elif final in "ABCD" and re.fullmatch(r"\d*", params):
                    v = max(int(params or 1), 1)
                    toks.append(({"A": "up", "B": "down", "C": "right", "D": "left"}[final], v))
                elif final == "G" and re.fullmatch(r"\d*", params):
                    toks.append(("cr",))
                    if max(int(params or 1), 1) > 1:
                        toks.append(("right", max(int(params or 1), 1) - 1))
                elif params == "?2026" and final in "hl":
                    toks.append(("syncb",) if final == "h" else ("synce",))
                elif params == "?1049" and final in "hl":
                    # the alternate screen buffer: placements belong to the buffer they were made on
                    toks.append(("alton",) if final == "h" else ("altoff",))
                elif params.startswith("?") and final in "hl" and set(params[1:].split(";")) & {"47", "1047", "1048", "1049"}:
                    raise LexError(f"screen-buffer switch CSI {params}{final} is not modelled (only ?1049 alone)")
                elif final in "mKXJhlrtn@PLMST" or (params.startswith("?") and final in "hl"):
                    # SGR, erase in line / chars / display, modes, scroll region, window ops,
                    # insert / delete characters and lines: no effect on placements here
                    if final in "LMST":
                        raise LexError(f"scrolling / line insertion CSI {params}{final} is not modelled")
                    toks.append(("other",))
                else:
                    raise LexError(f"unknown CSI sequence {params!r}{final!r}")
            elif k in "_]":
                # a string ends at ST (ESC \\), at BEL for an OSC, or -- as in a VT500-style
                # parser -- at any other ESC, which dispatches the string and starts the next
                # sequence (urwid's last-row insertion can split an ST)
                j = s.find(ESC, i + 2)
                jb = s.find("\x07", i + 2) if k == "]" else -1
                if jb >= 0 and (j < 0 or jb < j):
                    end, nxt = jb, jb + 1
                elif j >= 0 and s[j + 1:j + 2] == "\\":
                    end, nxt = j, j + 2
                else:
                    end, nxt = j, j
                if end < 0:
                    raise LexError("unterminated string sequence")
                content = s[i + 2:end]
                if k == "_":
                    if not content.startswith("G"):
                        raise LexError(f"unknown APC {content[:10]!r}")
                    toks += _kitty(content[1:], state)
                else:
                    toks.append(_iterm(content))
                i = nxt
            elif k in "()":
                i += 3          # charset designation: ESC ( B, ESC ) 0
                toks.append(("other",))
            elif k in "78=>\\":
                i += 2          # save / restore cursor, keypad modes, stray ST
                toks.append(("other",))
            elif "\x20" <= k <= "\x2f":
                # ESC + intermediates + final byte; cut short by a control character or a
                # non-ASCII glyph (which is then processed normally)
                j = i + 1
                while j < n and "\x20" <= s[j] <= "\x2f":
                    j += 1
                if j < n and "\x30" <= s[j] <= "\x7e":
                    j += 1
                i = j
                toks.append(("other",))
            elif k == ESC or k > "\x7f":
                i += 1          # ESC aborted by the next ESC / by a non-ASCII glyph (which is printed)
                toks.append(("other",))
            elif "\x30" <= k <= "\x7e" and k not in "PX^":
                i += 2          # any other two-byte escape sequence (ESC Fp / Fe / Fs)
                toks.append(("other",))
            else:
                raise LexError(f"unknown escape ESC {k!r}")
        elif ch == "\n":
            flush()
            toks.append(("lf",))
            i += 1
        elif ch == "\r":
            flush()
            toks.append(("cr",))
            i += 1
        elif ch == "\b":
            flush()
            toks.append(("left", 1))
            i += 1
        elif ch in "\0\x0e\x0f":
            flush()
            toks.append(("other",))
            i += 1
        else:
            run += _width(ch)
            i += 1
    flush()
    if state["pending"]:
        raise LexError("text ends inside a chunked kitty transmission")
    # collapse runs of KOther
    out = []
    for t in toks:
        if t == ("other",) and out and out[-1] == ("other",):
            continue
        out.append(t)
    return out


def _z(n: int) -> str:
    return f"({n})" if n < 0 else str(n)


def coq_tok(t) -> str:
    k = t[0]
    if k == "cup":
        return f"KCup {t[1]} {t[2]}"
    if k in ("right", "left", "up", "down"):
        return f"K{k.capitalize()} {t[1]}"
    if k == "cr":
        return "KCr"
    if k == "lf":
        return "KLf"
    if k == "place":
        return f"KPlace {t[1]} {t[2]} {_z(t[3])} {'true' if t[4] else 'false'}"
    if k == "iterm":
        return f"KIterm {t[1]} {t[2]} {'true' if t[3] else 'false'}"
    if k == "del":
        return "KDel " + {"all": "DelAll", "cursor": "DelCursor"}.get(t[1]) if t[1] != "z" else f"KDel (DelZ {_z(t[2])})"
    if k == "syncb":
        return "KSyncB"
    if k == "synce":
        return "KSyncE"
    if k == "other":
        return "KOther"
    raise ValueError(t)


def coq_toks(toks) -> str:
    """a list of [stok] (no screen-buffer switch: e.g. the rows of a canvas)"""
    for t in toks:
        if t[0] in ("alton", "altoff"):
            raise LexError("screen-buffer switch where only placement-level tokens are expected")
    return "[" + "; ".join(coq_tok(t) for t in toks) + "]"


def coq_btoks(toks) -> str:
    """a list of [btok] (model/ScreenSession.v): runs of [stok] (`bts [...]`, model/ScreenTie.v)
    separated by the screen-buffer switches"""
    parts, run = [], []
    for t in toks:
        if t[0] in ("alton", "altoff"):
            if run:
                parts.append("bts [" + "; ".join(coq_tok(x) for x in run) + "]")
                run = []
            parts.append("[BAltOn]" if t[0] == "alton" else "[BAltOff]")
        else:
            run.append(t)
    if run or not parts:
        parts.append("bts [" + "; ".join(coq_tok(x) for x in run) + "]")
    return "(" + " ++ ".join(parts) + ")"
