"""C01, round 9 — coverage judged on the terminal the render is made for.

(a) kitty does not paint a cell background equal to the terminal's DEFAULT background colour:
    block renders of small images whose pixels are drawn from {default bg, default bg +-1 on a
    channel, other} per upper / lower position, opaque or transparent, on kitty / not kitty, default
    background known / unknown; the implementation's tokens are run through
    [quirk_cover_checkb kitty bgcol] (model/KittyQuirk.v) inside Coq.
(b) a kitty transmission places an image only if ACCEPTED on its own control data (decoded payload
    = s*v*f/8 bytes): RGBA / RGB renders whose LINES differ in opacity (opaque lines followed by
    lines with transparency and vice versa), LINES and WHOLE, compression on / off; the render is
    judged AS DISPLAYED ([gfx_shown_checkb]: contract + image coverage on [accept_view])."""
from __future__ import annotations

import base64
import zlib

import core
import lexer
import renderlib as R

HEADER = ("From Coq Require Import List ZArith.\nImport ListNotations.\n"
          "From TI Require Import lib.Term lib.RectCheck model.Block model.RenderTie model.KittyQuirk model.KittyQuirkTie.\n"
          "Open Scope Z_scope.\n")

BGS = [[0, 0, 0], [255, 255, 255], [18, 52, 86], [255, 20, 30], [0, 7, 9], [254, 1, 255]]


def _near(rng, d):
    c = list(d)
    k = rng.randrange(3)
    c[k] = c[k] + 1 if (c[k] < 255 and (c[k] == 0 or rng.random() < 0.5)) else c[k] - 1
    return c


def _pixel(rng, d, alphas):
    u = rng.random()
    col = list(d) if u < 0.4 else _near(rng, d) if u < 0.65 else [rng.randrange(256) for _ in range(3)]
    return col + [rng.choice(alphas)]


def gen_bg_case(rng):
    w, h = rng.choice([1, 1, 2, 3, 4]), rng.choice([1, 1, 2, 3])
    d = rng.choice(BGS)
    mode = rng.choice(["RGB", "RGBA"])
    alphas = [255] if mode == "RGB" else [255, 255, 255, 0, 128]
    rows = [[_pixel(rng, d, alphas) for _ in range(w)] for _ in range(2 * h)]
    hexd = "#%02x%02x%02x" % tuple(d)
    return {"quirk": "bg", "style": "block", "cells": [w, h], "default_bg": d,
            "img": {"mode": mode, "size": [w, 2 * h], "pixels": rows, "kind": "pixels"},
            "alpha": rng.choice([None, None, 0.5, 0.5, "#", "#102030", hexd]),
            "args": {"split_cells": rng.random() < 0.2},
            "on_kitty": rng.random() < 0.65, "term_bg": d if rng.random() < 0.8 else None}


def _band(rng, kind, wpx, hpx):
    rows = []
    for y in range(hpx):
        if kind == "o":
            rows.append([[rng.randrange(256) for _ in range(3)] + [255] for _ in range(wpx)])
        elif kind == "z":
            rows.append([[0, 0, 0, 0] for _ in range(wpx)])
        else:
            rows.append([[rng.randrange(256) for _ in range(3)] + [rng.choice([0, 128, 255, 254])] for _ in range(wpx)])
    if kind == "t":
        rows[rng.randrange(hpx)][rng.randrange(wpx)][3] = rng.choice([0, 128, 254])
    return rows


def gen_tx_case(rng, bands=None, **over):
    w = rng.choice([1, 2, 3, 4])
    cw, ch = rng.choice([[1, 1], [2, 2], [3, 2], [2, 3], [1, 4]])
    if bands is None:
        h = rng.choice([1, 2, 2, 3, 4])
        u = rng.random()
        if u < 0.3:    # opaque lines first, then lines with transparency
            k = rng.randint(1, h)
            bands = ["o"] * k + [rng.choice("tz") for _ in range(h - k)]
        elif u < 0.5:  # the other way round
            k = rng.randint(0, h)
            bands = [rng.choice("tz") for _ in range(k)] + ["o"] * (h - k)
        else:
            bands = [rng.choice("otz") for _ in range(h)]
    h = len(bands)
    rows = [r for b in bands for r in _band(rng, b, w * cw, ch)]
    mode = "RGBA" if rng.random() < 0.85 else "RGB"
    a = {"method": rng.choice(["lines", "lines", "whole"]), "compress": rng.choice([0, 0, 4, 9])}
    if rng.random() < 0.5:
        a["mix"] = rng.random() < 0.5
    if rng.random() < 0.3:
        a["blend"] = rng.random() < 0.5
    if rng.random() < 0.3:
        a["z_index"] = rng.choice([1, -1, 5])
    c = {"quirk": "tx", "style": "kitty", "cells": [w, h], "cell_size": [cw, ch], "bands": "".join(bands),
         "img": {"mode": mode, "size": [w * cw, h * ch], "pixels": rows, "kind": "pixels"},
         "alpha": rng.choice([0.5, 0.5, 0.5, 0.0, None, "#", "#102030"]), "args": a, "term": "",
         "want_render_image": True}
    c["args"].update(over)
    return c


def corpus():
    import random
    rng = random.Random(17)
    cs = []
    # (a) one cell: lower / upper / both pixels exactly the default background, one step away, another colour
    for d in ([18, 52, 86], [255, 20, 30], [0, 0, 0]):
        near, other = [d[0] - 1 if d[0] else 1, d[1], d[2]], [10, 200, 90]
        for up, lo in ((d, d), (other, d), (d, other), (near, d), (d, near), (other, near), (near, near)):
            for kitty, known in ((True, True), (True, False), (False, True)):
                cs.append({"quirk": "bg", "style": "block", "cells": [2, 1], "default_bg": d,
                           "img": {"mode": "RGB", "size": [2, 2], "kind": "pixels",
                                   "pixels": [[up + [255], other + [255]], [lo + [255], lo + [255]]]},
                           "alpha": None, "args": {}, "on_kitty": kitty, "term_bg": d if known else None})
    # (b) lines of different opacity, both orders, LINES / WHOLE, compression off / on
    for bands in ("ot", "to", "oto", "zo", "oz", "oo", "tt", "otot"):
        for method in ("lines", "whole"):
            for compress in (0, 4):
                c = gen_tx_case(rng, list(bands), method=method, compress=compress)
                c["img"]["mode"], c["alpha"] = "RGBA", 0.5
                cs.append(c)
    return cs


def decode_txs(full):
    """(s, v, f, decoded byte count or -1, raw bytes or None) of every transmission of a lexed kitty render"""
    out, i = [], 0
    while i < len(full):
        t = full[i]
        if t[0] != "kfirst":
            i += 1
            continue
        keys, more, data = t[1], t[2], t[4]
        i += 1
        while more and i < len(full) and full[i][0] == "kcont":
            more, data = full[i][1], data + full[i][3]
            i += 1
        try:
            raw = base64.b64decode(data, validate=True)
            if keys.get("o") == "z":
                raw = zlib.decompress(raw)
            elif keys.get("o") is not None:
                raw = None
        except Exception:  # noqa: BLE001
            raw = None
        out.append((keys.get("s") or 0, keys.get("v") or 0, keys.get("f"), -1 if raw is None else len(raw), raw))
    return out


def case_term(c, r, full):
    w, h = r["rendered_size"]
    toks = R.strip_payload(full)
    if c["quirk"] == "bg":
        bg = c.get("term_bg")
        bgt = f"(Some {R.rgb_t(bg)})" if bg else "None"
        rc = (f"QBlock {R.b(r['alpha_mode'])} {R.b(c.get('on_kitty', False))} {bgt} "
              f"{R.b(c['args'].get('split_cells', False))} {R.rows_term(R.block_rows(r))}")
    else:
        a = c["args"]
        lines = a.get("method", "lines").lower() == "lines"
        ri = r["render_image"]
        txs = decode_txs(full)
        r["txs"] = [t[:4] for t in txs]
        ls = []
        if lines:
            for (s, v, f, n, raw) in txs:
                ls.append(bool(raw is not None and (f == 24 or (n == s * v * 4 and min(raw[3::4], default=255) == 255))))
        r["line_opaque"] = ls
        s, v = ri["size"][0], (ri["size"][1] // max(1, h) if lines else ri["size"][1])
        txt = core.coq_list(txs, lambda t: f"{{| tx_s := {t[0]}; tx_v := {t[1]}; tx_f := {t[2]}; tx_bytes := {core.z(t[3])} |}}")
        rc = (f"QKitty {R.b(lines)} {R.b(ri['mode'] == 'RGBA')} {s} {v} ({core.z(a.get('z_index', 0))}) "
              f"{R.b(a.get('mix', False))} {R.b(a.get('blend', True))} {core.coq_list(ls, R.b)} {txt}")
    return f"{{| q_w := {w}; q_h := {h}; q_render := {rc}; q_obs := {lexer.coq_toks(toks)} |}}"


def judge(cases, tag):
    """-> (verdicts [{code, lexerr}], impl results, infrastructure errors)"""
    impl = core.run_impl_parallel("impl_render.py", cases)
    verdicts = [{"code": 0, "lexerr": None} for _ in cases]
    terms, owner = [], []
    for i, (c, r) in enumerate(zip(cases, impl)):
        if "error" in r:
            verdicts[i]["lexerr"] = "render raised " + r["error"]
            continue
        try:
            full = lexer.lex(r["out"])
        except lexer.LexError as e:
            verdicts[i]["lexerr"] = f"unlexable output: {e}"
            continue
        r["term"] = case_term(c, r, full)
        terms.append(r["term"])
        owner.append(i)
    errors = []
    if terms:
        bad, errors = core.coq_shards(tag, HEADER, terms, "qcase", "qbad cases", shard=60)
        for idx, code in bad:
            verdicts[owner[idx]]["code"] = code
    return verdicts, impl, errors


def failing(v):
    return bool(v["lexerr"]) or bool(v["code"] & 2)


def explain(r, tag):
    text = HEADER + f"Set Printing Width 100000.\nEval vm_compute in (qexplain ({r['term']})).\n"
    rc, out = core.coq_eval_file(f"{tag}_explain_{id(r)}", text)
    vals = core.parse_evals(out)
    return vals[0] if vals else out[-400:]


def shrink(c, v, r, tag):
    """smaller failing inputs: one column of one line (bg); two adjacent lines / fewer columns (tx)"""
    cands = []
    px = c["img"]["pixels"]
    if c["quirk"] == "bg":
        w, h = c["cells"]
        for y in range(h):
            for x in range(w):
                c2 = {**c, "cells": [1, 1], "args": {},
                      "img": {**c["img"], "size": [1, 2], "pixels": [[px[2 * y][x]], [px[2 * y + 1][x]]]}}
                cands.append(c2)
    else:
        w, h = c["cells"]
        cw, ch = c["cell_size"]
        for n in (1, 2):
            for y in range(h - n + 1):
                for w2 in sorted({1, w}):
                    rows = [row[:w2 * cw] for row in px[y * ch:(y + n) * ch]]
                    cands.append({**c, "cells": [w2, n], "bands": c["bands"][y:y + n],
                                  "args": {k: c["args"][k] for k in ("method", "compress") if k in c["args"]},
                                  "img": {**c["img"], "size": [w2 * cw, n * ch], "pixels": rows}})
    if not cands:
        return c, v, r
    vs, rs, _ = judge(cands, tag + "_shrink")
    best = None
    for c2, v2, r2 in zip(cands, vs, rs):
        if failing(v2):
            size = c2["cells"][0] * c2["cells"][1]
            if best is None or size < best[0]:
                best = (size, c2, v2, r2)
    return best[1:] if best else (c, v, r)


def describe(c, r=None):
    if c["quirk"] == "bg":
        return (f"block cells={c['cells']} pixels(rows of [r,g,b,a])={c['img']['pixels']} mode={c['img']['mode']} "
                f"alpha={c['alpha']!r} args={c['args']} active terminal kitty={c['on_kitty']} "
                f"terminal default background={c['term_bg']} (pixels drawn around {c['default_bg']})")
    extra = f" transmissions(s,v,f,decoded bytes)={r.get('txs')}" if r and r.get("txs") else ""
    return (f"kitty cells={c['cells']} cell_size={c['cell_size']} lines(o=opaque,t=some transparency,z=transparent)="
            f"{c['bands']} mode={c['img']['mode']} alpha={c['alpha']!r} args={c['args']}{extra}")
