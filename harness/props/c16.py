"""C16 — render-argument sets obey their precedence, compatibility and immutability laws.

Correspondence: generated PROGRAMS (a class forest created with type(Renderable)(...),
Args namespaces associated before subclassing, 1-30 operations whose operands are earlier
results) run on the real classes (impl/impl_c16.py, which dumps every live object after
every operation) and judged inside Coq (model/RArgsTie.v) against the heap model
([step_op]: __new__/__init__ interning shortcuts, identities, interning tables) AND against
the value-level rule ([spec_op], no heap).  Namespace operands may be instances of SUBCLASSES
of the associated namespace class (a namespace is written [c, fields] or [c, fields, tag],
tag 0 = the class itself): values ignore the tag, the flow of instances does not (tagged
encoding, see RArgsTie.v).  Every namespace instance and every set is observed with its hash
and `==` against all the others.  Plus a stream of namespace class statements, namespace
constructor calls and render class statements against the metaclass tables.

Namespace programs over a universe of field VALUES (type "nsprog"; model/RArgsVal.v, judged by
model/RArgsValTie.v): the rejection rules of the namespace classes are statements about field
NAMES and must hold for every value - None, Ellipsis, 0, False, 0.0, "", (), NaN-like objects,
values equal to the current / default value - and for every split between positional and keyword
arguments; constructor, update(**fields), RenderArgs.update(cls, **fields), attribute reads,
as_dict, ==, hash."""
from __future__ import annotations

import copy
import os

import core

LEVEL = "proof"
EXTRA_TARGETS = ["model/RArgsTie.vo", "model/RArgsValTie.vo", "model/RArgsSubTie.vo", "model/RArgsInternTie.vo",
                 "model/RArgsRelTie.vo", "model/RArgsShapeTie.vo"]

HEADER = ("From Coq Require Import List ZArith.\nImport ListNotations.\n"
          "From TI Require Import model.RArgs model.RArgsTie.\nOpen Scope nat_scope.\n")
NHEADER = ("From Coq Require Import List ZArith.\nImport ListNotations.\n"
           "From TI Require Import model.RArgsVal model.RArgsValTie.\nOpen Scope nat_scope.\n")

# ------------------------------------------------------------------ generator


def gen_forest(rng):
    nc = rng.choice([2, 3, 3, 4, 4, 5, 5, 6, 7, 8])
    shape = rng.random()
    par, depth, kids = [0], [0], [0]
    for c in range(1, nc):
        cands = [p for p in range(c) if depth[p] < 4 and kids[p] < 3]
        if shape < 0.3:
            p = max(cands)            # chain-like
        elif shape < 0.4:
            p = min(cands)            # bushy
        else:
            p = rng.choice(cands)
        par.append(p)
        depth.append(depth[p] + 1)
        kids[p] += 1
        kids.append(0)
    nsd = [None]
    pns = rng.choice([0.45, 0.6, 0.7, 0.7, 0.85])
    for c in range(1, nc):
        if rng.random() < pns:
            nsd.append([rng.choice([0, 1, 2, 5]) for _ in range(rng.choice([1, 1, 2, 3]))])
        else:
            nsd.append(None)
    # GAP classes (no Args of their own, inheriting some): A(args) <- B(none) [<- C(args)]
    inner = [b for b in range(2, nc) if par[b] >= 1]
    if inner and rng.random() < 0.6:
        b = rng.choice(inner)
        if nsd[par[b]] is None:
            nsd[par[b]] = [rng.choice([0, 1, 2, 5]) for _ in range(rng.choice([1, 2]))]
        nsd[b] = None
        for c in range(b + 1, nc):
            if par[c] == b and nsd[c] is None and rng.random() < 0.7:
                nsd[c] = [rng.choice([0, 1, 2, 5])]
    return par, nsd


def chain(par, c):
    out = [c]
    while c:
        c = par[c]
        out.append(c)
    return out


def anc(par, a, c):
    return a in chain(par, c)


def gap_classes(par, nsd):
    """classes without Args of their own that inherit some"""
    return [c for c in range(1, len(par))
            if nsd[c] is None and any(nsd[a] is not None for a in chain(par, c))]


def ns_tag(n):
    return n[2] if len(n) > 2 else 0


def gen_tag(rng, maxtag):
    """which class the instance is made from: 0 = the associated namespace class, > 0 = one
    of its subclasses"""
    if not maxtag or rng.random() < 0.55:
        return 0
    return rng.randint(1, maxtag)


def with_tag(n, tag):
    return [n[0], n[1], tag] if tag else [n[0], n[1]]


def gen_ns(rng, nsd, c, maxtag=0):
    """a namespace value for class c (which has Args), biased to the default"""
    d = nsd[c]
    r = rng.random()
    tag = gen_tag(rng, maxtag)
    if r < 0.4:
        return with_tag([c, list(d)], tag)
    if r < 0.6:
        f = list(d)
        f[rng.randrange(len(f))] = rng.choice([0, 1, 7, -3])
        return with_tag([c, f], tag)
    return with_tag([c, [rng.choice([0, 1, 2, 5, 7, -3]) for _ in d]], tag)


def gen_nd(rng, nsd, c, maxtag=0):
    """a NON-default namespace value for class c"""
    f = list(nsd[c])
    j = rng.randrange(len(f))
    f[j] = rng.choice([v for v in (0, 1, 7, -3, 9) if v != f[j]])
    return with_tag([c, f], gen_tag(rng, maxtag))


def predict(par, nsd, vals, o):
    """Generator-side guess of the class of the result (None = error); only used to
    bias the choice of operands, never to judge."""
    def compat(t, n):
        return anc(par, n[0], t) and nsd[n[0]] is not None

    def val(v):
        return vals[v] if v is not None and v < len(vals) else None
    k = o["op"]
    if k == "new":
        if o["init"] is not None:
            ic = val(o["init"])
            if ic is None or not anc(par, ic, o["cls"]):
                return None
        return o["cls"] if all(compat(o["cls"], n) for n in o["nss"]) else None
    if k == "upd":
        xc = val(o["x"])
        if xc is None or not o["nss"]:
            return None
        return xc if all(compat(xc, n) for n in o["nss"]) else None
    if k == "updf":
        xc = val(o["x"])
        if xc is None or not anc(par, o["rc"], xc) or nsd[o["rc"]] is None:
            return None
        return xc if all(j < len(nsd[o["rc"]]) for j, _ in o["fields"]) else None
    if k == "conv":
        xc = val(o["x"])
        if xc is None:
            return None
        return o["rc"] if anc(par, xc, o["rc"]) or anc(par, o["rc"], xc) else None
    if k in ("or", "ror"):
        ca = o["a"][0]
        cb = o["b"]["ns"][0] if "ns" in o["b"] else val(o["b"]["ra"])
        if cb is None:
            return None
        if anc(par, cb, ca):
            return ca
        return cb if anc(par, ca, cb) else None
    if k == "pos":
        return o["a"][0]
    if k == "to":
        return o["rc"] if compat(o["rc"], o["a"]) else None


def gen_prog(rng, size):
    par, nsd = gen_forest(rng)
    nc = len(par)
    nk = rng.choice([1, 1, 2, 3])
    maxtag = rng.choice([0, 1, 2, 3, 3])     # namespace-class subclasses in use
    with_ns = [c for c in range(nc) if nsd[c] is not None]
    gaps = gap_classes(par, nsd)
    nops = rng.choice([rng.randint(1, 5), rng.randint(4, 14), rng.randint(4, 14), rng.randint(12, size)]) if size > 12 else rng.randint(1, size)
    ops, probes, vals = [], [], []

    def gns(c):
        return gen_ns(rng, nsd, c, maxtag)

    def related_cls(c, up=True):
        pool = chain(par, c) if up else [d for d in range(nc) if anc(par, c, d)]
        # gap classes are interesting targets
        gp = [g for g in pool if g in gaps]
        if gp and rng.random() < 0.3:
            return rng.choice(gp)
        return rng.choice(pool)

    def pick_var(target=None):
        okv = [v for v, x in enumerate(vals) if x is not None]
        if not okv:
            return None
        if target is not None and rng.random() < 0.8:
            good = [v for v in okv if anc(par, vals[v], target)]
            if good:
                return rng.choice(good)
        return rng.choice(okv)

    def ns_for(target):
        """a namespace mostly compatible with target"""
        if not with_ns:
            return None
        good = [c for c in with_ns if anc(par, c, target)]
        if good and rng.random() < 0.88:
            return gns(rng.choice(good))
        if not good and rng.random() < 0.7:
            return None
        return gns(rng.choice(with_ns))

    def emit(o):
        o["pres"] = rng.randrange(6)
        ops.append(o)
        vals.append(predict(par, nsd, vals, o))
        # probes: the namespaces of the operation, the defaults of a few classes (as
        # instances of the class itself or of a subclass), one random
        pr = []
        for n in o.get("nss", []):
            pr.append(n)
        if "a" in o:
            pr.append(o["a"])
        if "b" in o and "ns" in o["b"]:
            pr.append(o["b"]["ns"])
        for c in with_ns[:2]:
            pr.append(with_tag([c, list(nsd[c])], gen_tag(rng, maxtag)))
        if with_ns:
            pr.append(gns(rng.choice(with_ns)))
        probes.append(pr[:5])
        return len(ops) - 1

    def new(cls, init, nss, k=None):
        return {"op": "new", "k": (rng.randrange(nk) if rng.random() < 0.3 else 0) if k is None else k,
                "cls": cls, "init": init, "nss": nss}

    def gap_scenario():
        """a set for a GAP class whose inherited namespaces are non-default, made along one
        of the routes, then used"""
        g = rng.choice(gaps)
        owners = [a for a in chain(par, g) if nsd[a] is not None]
        desc = [d for d in range(nc) if d != g and anc(par, g, d)]
        nd = [gen_nd(rng, nsd, a, maxtag) for a in owners if rng.random() < 0.8] or [gen_nd(rng, nsd, owners[0], maxtag)]
        route = rng.choice(["new", "up", "up", "down", "init", "or", "to"])
        if route == "up" and not desc:
            route = "new"
        if route == "new":
            G = emit(new(g, None, nd))
        elif route == "up":           # from a descendant, up to the gap
            d = rng.choice(desc)
            extra = [gns(c) for c in chain(par, d) if nsd[c] is not None and c not in owners and rng.random() < 0.5]
            x = emit(new(d, None, nd + extra))
            G = emit({"op": "conv", "x": x, "rc": g})
        elif route in ("down", "init"):  # from an ancestor that owns a namespace
            a = rng.choice(owners)
            nda = [n for n in nd if anc(par, n[0], a)] or [gen_nd(rng, nsd, a, maxtag)]
            x = emit(new(a, None, nda))
            G = emit({"op": "conv", "x": x, "rc": g} if route == "down" else new(g, x, []))
        elif route == "or":
            x = emit(new(g, None, nd[1:]))
            G = emit({"op": rng.choice(["or", "ror"]), "a": nd[0], "b": {"ra": x}})
        else:
            G = emit({"op": "to", "a": nd[0], "rc": g})
        for _ in range(rng.choice([1, 1, 2, 3])):
            q = rng.random()
            if q < 0.2:
                emit({"op": "conv", "x": G, "rc": rng.choice(chain(par, g))})
            elif q < 0.35 and desc:
                d = rng.choice(desc)
                x = emit({"op": "conv", "x": G, "rc": d} if rng.random() < 0.5 else new(d, G, [n for n in [ns_for(d)] if n and rng.random() < 0.5]))
                if rng.random() < 0.6:
                    emit({"op": "conv", "x": x, "rc": g})     # and back up to the gap
            elif q < 0.5:
                emit({"op": "upd", "x": G, "nss": [gns(rng.choice(owners)) for _ in range(rng.choice([1, 1, 2]))]})
            elif q < 0.62:
                rc = rng.choice(owners)
                j = rng.randrange(len(nsd[rc]))
                emit({"op": "updf", "x": G, "rc": rc, "fields": [[j, rng.choice([nsd[rc][j], 7, -3])]]})
            elif q < 0.8:
                pool = owners + [d for d in desc if nsd[d] is not None]
                emit({"op": rng.choice(["or", "ror"]), "a": gns(rng.choice(pool)), "b": {"ra": G}})
            elif q < 0.9:
                emit(new(g, G, []))                            # the set itself
            else:
                emit(new(g, G, [gns(rng.choice(owners))]))

    while len(ops) < nops:
        if gaps and rng.random() < (0.5 if not ops else 0.12):
            gap_scenario()
            continue
        r = rng.random()
        o = None
        if r < 0.38 or not any(x is not None for x in vals):
            cls = rng.randrange(nc) if rng.random() < 0.9 else 0
            if gaps and rng.random() < 0.2:
                cls = rng.choice(gaps)
            init = None
            if rng.random() < 0.6:
                init = pick_var()
                if init is not None and rng.random() < 0.85:
                    # a target the init set is compatible with, often its own class
                    cls = vals[init] if rng.random() < 0.4 else related_cls(vals[init], up=False)
            # biased to "no namespaces": that is where the interning shortcuts are
            nn = rng.choice([0, 0, 0, 0, 1, 1, 2, 3])
            nss = [n for n in (ns_for(cls) for _ in range(nn)) if n]
            o = {"op": "new", "k": rng.randrange(nk) if rng.random() < 0.5 else 0, "cls": cls,
                 "init": init, "nss": nss}
        elif r < 0.52:
            x = pick_var()
            nn = rng.choice([0, 1, 1, 1, 2, 3]) if rng.random() < 0.9 else 0
            nss = [n for n in (ns_for(vals[x]) for _ in range(nn)) if n]
            o = {"op": "upd", "x": x, "nss": nss}
            if not nss and rng.random() < 0.85:   # keep update() without arguments rare
                o = {"op": "conv", "x": x, "rc": related_cls(vals[x], up=rng.random() < 0.5)}
        elif r < 0.65:
            x = pick_var()
            rc = related_cls(vals[x]) if rng.random() < 0.85 else rng.randrange(nc)
            owners = [c for c in chain(par, vals[x]) if nsd[c] is not None]
            if owners and rng.random() < 0.75:
                rc = rng.choice(owners)
            nf = len(nsd[rc]) if nsd[rc] is not None else 2
            js = rng.sample(range(nf + 1), rng.choice([0, 1, 1, min(2, nf + 1)]))
            if rng.random() < 0.8:
                js = [j for j in js if j < nf]
            # default values make the result equal to (but distinct from) shared sets
            fields = [[j, (nsd[rc][j] if nsd[rc] is not None and j < nf and rng.random() < 0.5
                           else rng.choice([0, 1, 7, -3]))] for j in js]
            o = {"op": "updf", "x": x, "rc": rc, "fields": fields}
        elif r < 0.78:
            x = pick_var()
            q = rng.random()
            rc = (related_cls(vals[x]) if q < 0.4 else related_cls(vals[x], up=False) if q < 0.8
                  else rng.randrange(nc))
            o = {"op": "conv", "x": x, "rc": rc}
        elif with_ns:
            a = gns(rng.choice(with_ns))
            q = rng.random()
            if q < 0.55:
                if rng.random() < 0.5:
                    x = pick_var(a[0])
                    b = {"ra": x}
                else:
                    b = {"ns": ns_for(a[0]) if rng.random() < 0.7 else gns(a[0])}
                o = {"op": rng.choice(["or", "ror"]), "a": a, "b": b}
            elif q < 0.8:
                o = {"op": "pos", "a": a}
            else:
                rc = related_cls(a[0], up=False) if rng.random() < 0.8 else rng.randrange(nc)
                o = {"op": "to", "a": a, "rc": rc}
        if o is None:
            o = {"op": "new", "k": 0, "cls": rng.randrange(nc), "init": None, "nss": []}
        emit(o)
    return {"type": "prog", "par": par, "nsd": nsd, "nk": nk, "ops": ops, "probes": probes}


def N(c, f, tag=0):
    return [c, f, tag] if tag else [c, f]


CORPUS = [
    # the example of proofs/RArgsLaws.v (exP): both shortcuts, all operation kinds, 3 errors
    {"type": "prog", "par": [0, 0, 1, 1, 0], "nsd": [None, [1, 2], [3], None, [7]], "nk": 2,
     "ops": [{"op": "new", "k": 0, "cls": 2, "init": None, "nss": []},
             {"op": "new", "k": 0, "cls": 2, "init": 0, "nss": []},
             {"op": "new", "k": 0, "cls": 2, "init": None, "nss": [N(1, [5, 6])]},
             {"op": "updf", "x": 2, "rc": 2, "fields": [[0, 9]]},
             {"op": "conv", "x": 3, "rc": 1},
             {"op": "conv", "x": 3, "rc": 4},
             {"op": "or", "a": N(2, [4]), "b": {"ra": 4}},
             {"op": "ror", "a": N(1, [0, 0]), "b": {"ns": N(1, [8, 8])}},
             {"op": "pos", "a": N(4, [7])},
             {"op": "new", "k": 1, "cls": 2, "init": 0, "nss": []},
             {"op": "new", "k": 0, "cls": 1, "init": 2, "nss": []},
             {"op": "new", "k": 0, "cls": 3, "init": 4, "nss": [N(4, [1])]},
             {"op": "new", "k": 0, "cls": 0, "init": None, "nss": []}]},
    # every way of reaching the shared default set / BASE_RENDER_ARGS, then operations on them
    {"type": "prog", "par": [0, 0, 1, 2], "nsd": [None, [0], None, [1, 1]], "nk": 2,
     "ops": [{"op": "new", "k": 0, "cls": 0, "init": None, "nss": []},           # BASE
             {"op": "new", "k": 0, "cls": 3, "init": 0, "nss": []},              # via BASE
             {"op": "new", "k": 0, "cls": 1, "init": None, "nss": []},
             {"op": "new", "k": 0, "cls": 3, "init": 2, "nss": []},              # via interned(1)
             {"op": "new", "k": 0, "cls": 3, "init": 1, "nss": []},              # init itself
             {"op": "new", "k": 0, "cls": 3, "init": None, "nss": [N(3, [1, 1]), N(1, [0])]},
             {"op": "new", "k": 0, "cls": 3, "init": 5, "nss": []},              # equal, not interned
             {"op": "conv", "x": 1, "rc": 0},                                    # -> BASE
             {"op": "conv", "x": 5, "rc": 1},
             {"op": "conv", "x": 2, "rc": 3},
             {"op": "updf", "x": 1, "rc": 3, "fields": []},
             {"op": "updf", "x": 1, "rc": 2, "fields": []},                      # NoArgsNamespace
             {"op": "updf", "x": 2, "rc": 3, "fields": [[0, 4]]},                # ValueError
             {"op": "updf", "x": 1, "rc": 3, "fields": [[2, 4]]},                # unknown field
             {"op": "upd", "x": 1, "nss": []},                                   # TypeError
             {"op": "upd", "x": 2, "nss": [N(3, [2, 2])]},                       # incompatible
             {"op": "new", "k": 1, "cls": 3, "init": 1, "nss": []},              # subclass kinds
             {"op": "new", "k": 1, "cls": 3, "init": None, "nss": []},
             {"op": "new", "k": 1, "cls": 3, "init": 17, "nss": []},
             {"op": "new", "k": 0, "cls": 3, "init": 17, "nss": []},
             {"op": "or", "a": N(1, [0]), "b": {"ra": 0}},
             {"op": "ror", "a": N(3, [1, 1]), "b": {"ra": 2}},
             {"op": "or", "a": N(3, [9, 9]), "b": {"ns": N(3, [1, 1])}},
             {"op": "ror", "a": N(3, [9, 9]), "b": {"ns": N(3, [1, 1])}},
             {"op": "to", "a": N(1, [0]), "rc": 3},
             {"op": "to", "a": N(3, [1, 1]), "rc": 1}]},
    # siblings: incompatibility in every operation
    {"type": "prog", "par": [0, 0, 0], "nsd": [None, [1], [2]], "nk": 1,
     "ops": [{"op": "new", "k": 0, "cls": 1, "init": None, "nss": []},
             {"op": "new", "k": 0, "cls": 2, "init": 0, "nss": []},
             {"op": "new", "k": 0, "cls": 2, "init": None, "nss": [N(1, [1])]},
             {"op": "or", "a": N(1, [1]), "b": {"ns": N(2, [2])}},
             {"op": "or", "a": N(2, [2]), "b": {"ra": 0}},
             {"op": "ror", "a": N(2, [2]), "b": {"ra": 0}},
             {"op": "conv", "x": 0, "rc": 2},
             {"op": "conv", "x": 1, "rc": 0}]},
    # GAP classes: A(args) <- B(no Args of its own) <- C(args) <- D(none); sets for B / D with
    # NON-default inherited namespaces along every route (convert both ways, |, update,
    # init_render_args, to_render_args)
    {"type": "prog", "par": [0, 0, 1, 2, 3], "nsd": [None, [1], None, [3], None], "nk": 1,
     "ops": [{"op": "new", "k": 0, "cls": 3, "init": None, "nss": [N(1, [10]), N(3, [30])]},
             {"op": "new", "k": 0, "cls": 4, "init": None, "nss": [N(1, [10]), N(3, [30])]},
             {"op": "conv", "x": 0, "rc": 1},
             {"op": "conv", "x": 1, "rc": 3},
             {"op": "conv", "x": 0, "rc": 4},
             {"op": "conv", "x": 0, "rc": 2},                                    # C -> gap B
             {"op": "conv", "x": 1, "rc": 2},                                    # D -> gap B
             {"op": "new", "k": 0, "cls": 2, "init": None, "nss": [N(1, [10])]},   # equal to both
             {"op": "conv", "x": 5, "rc": 3},                                    # and down again
             {"op": "new", "k": 0, "cls": 3, "init": None, "nss": []},
             {"op": "conv", "x": 9, "rc": 2},                                    # default -> default
             {"op": "new", "k": 0, "cls": 2, "init": None, "nss": []},
             {"op": "conv", "x": 1, "rc": 0},                                    # BASE
             {"op": "or", "a": N(1, [9]), "b": {"ra": 5}},
             {"op": "ror", "a": N(3, [8]), "b": {"ra": 5}},                      # RenderArgs(B) | C.Args
             {"op": "upd", "x": 5, "nss": [N(1, [1])]},                          # default values, not interned
             {"op": "updf", "x": 5, "rc": 1, "fields": [[0, 7]]},
             {"op": "updf", "x": 5, "rc": 2, "fields": []},                      # B has no namespace
             {"op": "new", "k": 0, "cls": 2, "init": 5, "nss": []},              # init itself
             {"op": "new", "k": 0, "cls": 4, "init": 5, "nss": []},              # gap -> gap
             {"op": "new", "k": 0, "cls": 2, "init": 0, "nss": []},              # incompatible init
             {"op": "to", "a": N(1, [10]), "rc": 2},
             {"op": "to", "a": N(3, [30]), "rc": 2},                             # incompatible namespace
             {"op": "conv", "x": 19, "rc": 2},
             {"op": "conv", "x": 7, "rc": 4},
             {"op": "or", "a": N(1, [10]), "b": {"ra": 11}}]},                   # A.Args | default set of B
    # a gap directly under Renderable's child and a gap leaf, two RenderArgs types
    {"type": "prog", "par": [0, 0, 1, 2, 2], "nsd": [None, [0, 5], None, None, [2]], "nk": 2,
     "ops": [{"op": "new", "k": 0, "cls": 4, "init": None, "nss": [N(1, [7, 5])]},
             {"op": "conv", "x": 0, "rc": 2},
             {"op": "conv", "x": 0, "rc": 3},                                    # sibling: ValueError
             {"op": "conv", "x": 1, "rc": 3},                                    # gap -> gap leaf
             {"op": "new", "k": 1, "cls": 2, "init": 1, "nss": []},              # other type: new object
             {"op": "conv", "x": 4, "rc": 3},                                    # convert() builds a plain RenderArgs
             {"op": "conv", "x": 4, "rc": 1},
             {"op": "new", "k": 1, "cls": 3, "init": None, "nss": [N(1, [7, 5], 1)]},
             {"op": "conv", "x": 7, "rc": 2},
             {"op": "upd", "x": 1, "nss": [N(1, [0, 5])]},
             {"op": "new", "k": 0, "cls": 2, "init": None, "nss": []}]},
    # namespace-class SUBCLASSES (tags): equal values through instances of different classes on
    # every route; a field update keeps the class of the instance
    {"type": "prog", "par": [0, 0, 1], "nsd": [None, [1], [2]], "nk": 1,
     "probe": [N(1, [5]), N(1, [5], 1), N(1, [1], 2), N(2, [2], 3), N(1, [9], 3)],
     "ops": [{"op": "new", "k": 0, "cls": 1, "init": None, "nss": [N(1, [5])]},
             {"op": "new", "k": 0, "cls": 1, "init": None, "nss": [N(1, [5], 1)]},
             {"op": "new", "k": 0, "cls": 2, "init": None, "nss": [N(1, [5])]},
             {"op": "new", "k": 0, "cls": 2, "init": None, "nss": [N(1, [5], 2)]},
             {"op": "pos", "a": N(1, [5])},
             {"op": "pos", "a": N(1, [5], 1)},
             {"op": "or", "a": N(1, [5]), "b": {"ns": N(2, [7])}},
             {"op": "or", "a": N(1, [5], 1), "b": {"ns": N(2, [7], 3)}},
             {"op": "new", "k": 0, "cls": 2, "init": None, "nss": []},
             {"op": "upd", "x": 8, "nss": [N(1, [5], 1)]},
             {"op": "upd", "x": 8, "nss": [N(1, [5])]},
             {"op": "updf", "x": 3, "rc": 1, "fields": [[0, 9]]},
             {"op": "updf", "x": 2, "rc": 1, "fields": [[0, 9]]},
             {"op": "conv", "x": 1, "rc": 2},
             {"op": "conv", "x": 0, "rc": 2},
             {"op": "conv", "x": 3, "rc": 1},
             {"op": "conv", "x": 2, "rc": 1},
             {"op": "new", "k": 0, "cls": 2, "init": None, "nss": [N(1, [1], 1)]},   # == the shared default
             {"op": "new", "k": 0, "cls": 2, "init": None, "nss": [N(1, [1], 1), N(2, [2], 2)]},
             {"op": "ror", "a": N(1, [5], 1), "b": {"ns": N(1, [6], 2)}},
             {"op": "or", "a": N(1, [5], 1), "b": {"ns": N(1, [6], 2)}},
             {"op": "new", "k": 0, "cls": 2, "init": 17, "nss": []},
             {"op": "updf", "x": 17, "rc": 1, "fields": []},
             {"op": "or", "a": N(2, [2], 3), "b": {"ra": 1}},
             {"op": "to", "a": N(1, [1], 3), "rc": 2}]},
]
for _c in CORPUS:
    for _o in _c["ops"]:
        _o.setdefault("pres", 0)
    _pr = _c.pop("probe", None) or [N(c, list(f)) for c, f in enumerate(_c["nsd"]) if f is not None][:3]
    _c["probes"] = [list(_pr) for _ in _c["ops"]]


def gen_stmt(rng):
    kind = rng.choice(["args", "data"])
    r = rng.random()
    base = rng.choice(["root", "root", "plain", "assoc"])
    nf = rng.choice([0, 0, 1, 2, 3])
    if kind == "args":
        fields = [rng.random() < 0.85 for _ in range(nf)]
    else:
        fields = [rng.random() < 0.5 for _ in range(nf)]
    rc = rng.choice([None, "none", "bad", "free", "free", "free", "taken"])
    c = {"type": "stmt", "kind": kind, "base": base,
         "extra_bases": rng.choice([0, 0, 0, 0, 1, 2]), "extra_kind": rng.randrange(2),
         "extra_first": rng.random() < 0.3, "fields": fields, "rc": rc,
         "required": rng.random() < 0.2, "required_in_new": rng.random() < 0.5,
         "bad_kind": rng.randrange(3)}
    if r < 0.35:  # mostly-valid statements
        c.update(extra_bases=0, required=False)
        if base == "assoc":
            c.update(fields=[], rc=rng.choice([None, "none"]))
        elif rng.random() < 0.7:
            c.update(fields=[True] * max(1, nf), rc="free")
        else:
            c.update(fields=[], rc=None)
    return c


STMT_CORPUS = [
    {"type": "stmt", "kind": "args", "base": "root", "extra_bases": 0, "fields": [True, False], "rc": "free", "required": False},
    {"type": "stmt", "kind": "args", "base": "root", "extra_bases": 1, "fields": [False], "rc": "free", "required": False},
    {"type": "stmt", "kind": "data", "base": "root", "extra_bases": 1, "fields": [False], "rc": "free", "required": False},
    {"type": "stmt", "kind": "args", "base": "assoc", "extra_bases": 0, "fields": [], "rc": "free", "required": False},
    {"type": "stmt", "kind": "args", "base": "assoc", "extra_bases": 0, "fields": [True], "rc": None, "required": False},
    {"type": "stmt", "kind": "args", "base": "assoc", "extra_bases": 0, "fields": [], "rc": None, "required": True},
    {"type": "stmt", "kind": "args", "base": "root", "extra_bases": 0, "fields": [], "rc": "free", "required": False},
    {"type": "stmt", "kind": "args", "base": "root", "extra_bases": 0, "fields": [True], "rc": "bad", "required": False},
    {"type": "stmt", "kind": "args", "base": "root", "extra_bases": 0, "fields": [True], "rc": None, "required": False},
    {"type": "stmt", "kind": "args", "base": "root", "extra_bases": 0, "fields": [True], "rc": "taken", "required": False},
    {"type": "stmt", "kind": "data", "base": "root", "extra_bases": 0, "fields": [False], "rc": "taken", "required": False},
    {"type": "stmt", "kind": "args", "base": "root", "extra_bases": 0, "fields": [True], "rc": "free", "required": True},
    {"type": "stmt", "kind": "args", "base": "plain", "extra_bases": 0, "fields": [True, True], "rc": "free", "required": False},
    {"type": "stmt", "kind": "data", "base": "plain", "extra_bases": 0, "fields": [], "rc": "none", "required": True},
]


def gen_ctor(rng):
    nf = rng.randint(1, 4)
    dfl = [rng.choice([0, 1, 2, 5]) for _ in range(nf)]
    nv = rng.choice([0, 0, 1, 2, nf, nf, nf + 1]) if rng.random() < 0.9 else nf + 2
    nv = max(0, nv)
    vals = [rng.choice([3, 4, -1]) for _ in range(nv)]
    lo = nv if rng.random() < 0.75 else 0
    hi = nf if rng.random() < 0.75 else nf + 2
    pool = list(range(lo, hi)) if lo < hi else []
    js = rng.sample(pool, min(len(pool), rng.choice([0, 1, 1, 2])))
    return {"type": "ctor", "dfl": dfl, "vals": vals, "kw": [[j, rng.choice([8, 9, -2])] for j in js]}


def gen_rend(rng):
    return {"type": "rend", "bases": [rng.random() < 0.5 for _ in range(rng.randint(0, 3))]}


# ------------------------------------------------------------------ namespace programs over VALUES

# the value universe (see model/RArgsVal.v): ["i", n] int, ["b", 0/1] bool, ["f", n] integral
# float, ["n"] None, ["e"] Ellipsis, ["s", k] k-th string of impl_c16.STRS ("" first), ["t"] (),
# ["nan", k] k-th NaN-like object (even k: a float nan, odd k: an object whose __eq__ is False)
V_NONE, V_ELL, V_TUP = ["n"], ["e"], ["t"]
UNIVERSE = [V_NONE, V_ELL, ["i", 0], ["i", 1], ["i", 7], ["i", -3], ["b", 0], ["b", 1], ["f", 0], ["f", 1],
            ["s", 0], ["s", 1], V_TUP, ["nan", 0], ["nan", 1]]
N_UNKNOWN_NAMES = 7          # unknown names are the positions nf .. nf + 6 (impl_c16.field_name)
UNKNOWN_ATTR_METHOD = 5      # ... of which this one names a method: not used for attribute reads


def gen_val(rng, near=()):
    """a field value: often one of `near` (the current / default value of the field), often None"""
    r = rng.random()
    near = [v for v in near if v is not None]
    if near and r < 0.3:
        return list(rng.choice(near))
    if r < 0.45:
        return list(V_NONE)
    if r < 0.55:
        return ["nan", rng.randrange(4)]
    return list(rng.choice(UNIVERSE))


def ns_sim(cl, env, o):
    """generator-side guess of the result of an operation ((class, fields) or None): only used to
    bias operands and values, never to judge"""
    def known(c, kw):
        return all(j < len(cl[c]) for j, _ in kw)
    k = o["op"]
    if k == "ctor":
        c = o["c"]
        if c >= len(cl) or len(o["pos"]) > len(cl[c]) or not known(c, o["kw"]) or any(j < len(o["pos"]) for j, _ in o["kw"]):
            return None
        f = list(o["pos"]) + list(cl[c][len(o["pos"]):])
        for j, v in o["kw"]:
            f[j] = v
        return (c, f)
    x = env[o["x"]] if o["x"] < len(env) else None
    if x is None or k == "get":
        return None
    c, f = x
    if k == "raupd" and not c <= o["m"] < len(cl):
        return None
    if not known(c, o["kw"]):
        return None
    f = list(f)
    for j, v in o["kw"]:
        f[j] = v
    return (c, f)


def gen_kw(rng, nf, lo, cur, dfl, p_unknown):
    """keyword fields: distinct names; known ones from positions lo..nf-1; with probability
    p_unknown one or two unknown names, each with any value of the universe"""
    pool = list(range(lo, nf))
    js = rng.sample(pool, min(len(pool), rng.choice([0, 1, 1, 2, 3])))
    kw = [[j, gen_val(rng, (cur[j] if cur else None, dfl[j]))] for j in js]
    if rng.random() < p_unknown:
        for u in rng.sample(range(N_UNKNOWN_NAMES), rng.choice([1, 1, 2])):
            kw.insert(rng.randint(0, len(kw)), [nf + u, gen_val(rng, (cur[0] if cur else None, dfl[0]))])
    return kw


def gen_nsprog(rng, size=12):
    ncls = rng.choice([1, 1, 2, 2, 3])
    cl = []
    for _ in range(ncls):
        nf = rng.choice([1, 2, 2, 3, 4])
        cl.append([gen_val(rng) for _ in range(nf)])
    env = [(c, list(cl[c])) for c in range(ncls)]
    ops = []
    nops = rng.randint(1, size)
    while len(ops) < nops:
        r = rng.random()
        live = [v for v, x in enumerate(env) if x is not None]
        x = rng.choice(live) if rng.random() < 0.95 else rng.randrange(len(env) + 1)
        xc, xf = env[x] if x < len(env) and env[x] is not None else (0, None)
        if r < 0.3:
            c = rng.randrange(ncls)
            nf = len(cl[c])
            nv = rng.choice(list(range(nf + 1)) + [nf, nf + 1])       # every arity, the full list often
            pos = [gen_val(rng, (cl[c][j] if j < nf else None,)) for j in range(nv)]
            kw = gen_kw(rng, nf, min(nv, nf), None, cl[c], 0.4)
            if nv and rng.random() < 0.12:                             # a field given twice
                kw.append([rng.randrange(min(nv, nf)), gen_val(rng)])
            o = {"op": "ctor", "c": c, "pos": pos, "kw": kw}
        elif r < 0.62:
            o = {"op": "upd", "x": x, "kw": gen_kw(rng, len(cl[xc]), 0, xf, cl[xc], 0.4) if rng.random() < 0.93 else []}
        elif r < 0.9:
            m = rng.randint(xc, ncls - 1) if rng.random() < 0.9 else rng.randrange(ncls + 1)
            o = {"op": "raupd", "x": x, "m": m,
                 "kw": gen_kw(rng, len(cl[xc]), 0, xf, cl[xc], 0.4) if rng.random() < 0.93 else []}
        else:
            nf = len(cl[xc])
            j = rng.randrange(nf) if rng.random() < 0.6 else nf + rng.choice([u for u in range(N_UNKNOWN_NAMES) if u != UNKNOWN_ATTR_METHOD])
            o = {"op": "get", "x": x, "j": j}
        ops.append(o)
        env.append(ns_sim(cl, env, o))
    return {"type": "nsprog", "cl": cl, "ops": ops}


def ns_boundary_corpus():
    """every value of the universe paired with an unknown name, on every route: constructor with
    0..nf+1 positional values (all positional/keyword splits), update / RenderArgs.update with the
    unknown field alone, next to a known field that changes, next to a known field that does not,
    before and after it; and as the value of a KNOWN field (by position, by keyword, by update)"""
    out = []
    values = [V_NONE, V_ELL, ["i", 0], ["i", 1], ["b", 0], ["b", 1], ["f", 0], ["s", 0], ["s", 1], V_TUP,
              ["nan", 0], ["nan", 1]]
    for nf, dfl in ((1, [V_NONE]), (3, [["s", 1], V_NONE, ["i", 0]])):
        for vi, v in enumerate(values):
            cl = [dfl, [["b", 0]]]
            u = nf + vi % N_UNKNOWN_NAMES                       # the unknown name cycles
            other = ["i", 9]
            ops = []
            for k in range(nf + 2):                             # Args(v1..vk, unknown=v)
                ops.append({"op": "ctor", "c": 0, "pos": [other] * k, "kw": [[u, v]]})
            ops.append({"op": "ctor", "c": 0, "pos": [], "kw": [[j, other] for j in range(nf)] + [[u, v]]})
            nd = 2 + len(ops)                                   # env index of the next result
            ops.append({"op": "ctor", "c": 0, "pos": [v] + [other] * (nf - 1), "kw": []})   # v by position
            ops.append({"op": "ctor", "c": 0, "pos": [], "kw": [[nf - 1, v]]})               # v by keyword
            for x in (0, nd):                                   # the shared default, a non-default instance
                cur = dfl[0] if x == 0 else v
                for route in ("upd", "raupd"):
                    for kw in ([[u, v]], [[0, other], [u, v]], [[u, v], [0, other]], [[0, cur], [u, v]],
                               [[0, v]], [[0, cur]]):
                        o = {"op": route, "x": x, "kw": kw}
                        if route == "raupd":
                            o["m"] = (vi + len(ops)) % 2
                        ops.append(o)
            ops.append({"op": "upd", "x": 0, "kw": []})
            ops.append({"op": "get", "x": nd, "j": 0})
            ops.append({"op": "get", "x": nd, "j": u if u - nf != UNKNOWN_ATTR_METHOD else nf})
            # the second class: its default False against 0 / 0.0 / None / NaN given as values
            ops.append({"op": "ctor", "c": 1, "pos": [v], "kw": []})
            ops.append({"op": "ctor", "c": 1, "pos": [], "kw": [[0, ["i", 0]]]})
            ops.append({"op": "raupd", "x": 1, "m": 0, "kw": [[0, v]]})                     # incompatible set
            ops.append({"op": "raupd", "x": 1, "m": 1, "kw": [[0, v], [1 + vi % N_UNKNOWN_NAMES, V_NONE]]})
            out.append({"type": "nsprog", "cl": cl, "ops": ops})
    return out


NS_CORPUS = ns_boundary_corpus()


# ------------------------------------------------------------------ namespace SUBCLASSES with their own constructor
# (type "nssub"; model/RArgsSub.v, judged by RArgsSubTie.scheck).  Class table: the associated
# classes (index c < len(cl)), then the subclasses [base, desc]; desc = ["plain"] | ["preset", kw] |
# ["renamed", perm] (own parameters p0.. feeding the fields perm[0]..) | ["force", kw].  Env: the
# shared default instances, then one entry per operation.  Operations: new (through the class's own
# constructor), upd, raupd, hold (a route that puts the instance into a set and reads it back).

SHEADER = ("From Coq Require Import List ZArith.\nImport ListNotations.\n"
           "From TI Require Import model.RArgsVal model.RArgsValTie model.RArgsSub model.RArgsSubTie.\n")
HOLD_ROUTES = ["pos", "or", "ror", "tora", "conv"]


def sub_tables(case):
    ncl = len(case["cl"])
    base = list(range(ncl)) + [b for b, _ in case["subs"]]
    descs = [["plain"]] * ncl + [d for _, d in case["subs"]]
    return base, descs


def sub_sim(case_cl, base, descs, env, o):
    """generator-side guess of the result of an operation ((class index, fields) or None): only
    used to bias operands and values, never to judge"""
    k = o["op"]
    if k == "new":
        s = o["s"]
        if s >= len(base):
            return None
        c, d = base[s], descs[s]
        nf = len(case_cl[c])
        pos, kw = o["pos"], o["kw"]
        if d[0] == "preset":
            if pos or kw:
                return None
            pos, kw = [], d[1]
        elif d[0] == "force":
            if pos:
                return None
            kw = list(kw) + list(d[1])
        elif d[0] == "renamed":
            perm = d[1]
            if len(pos) > len(perm) or any(j >= len(perm) or j < len(pos) for j, _ in kw):
                return None
            kw = [[perm[j], v] for j, v in list(enumerate(pos)) + [tuple(p) for p in kw]]
            pos = []
        if len(pos) > nf or any(j >= nf or j < len(pos) for j, _ in kw):
            return None
        f = list(pos) + list(case_cl[c][len(pos):])
        for j, v in kw:
            f[j] = v
        return (s, f)
    x = env[o["x"]] if o["x"] < len(env) else None
    if x is None:
        return None
    s, f = x
    c = base[s]
    if k == "hold":
        r = o["r"]
        if any(m >= len(case_cl) for m in r[1:]):
            return None
        if (r[0] in ("tora", "conv") and r[1] < c) or (r[0] == "conv" and r[2] < c):
            return None
        return x
    if k == "raupd" and not c <= o["m"] < len(case_cl):
        return None
    if any(j >= len(case_cl[c]) for j, _ in o["kw"]):
        return None
    f = list(f)
    for j, v in o["kw"]:
        f[j] = v
    return (s, f)


def gen_desc(rng, dfl):
    nf = len(dfl)
    r = rng.random()
    if r < 0.15:
        return ["plain"]
    if r < 0.45:
        js = rng.sample(range(nf), rng.randint(0, nf))
        kw = [[j, gen_val(rng, (dfl[j],))] for j in js]
        if rng.random() < 0.05:
            kw.append([nf + rng.randrange(N_UNKNOWN_NAMES), gen_val(rng)])
        return ["preset", kw]
    if r < 0.8:
        perm = list(range(nf))
        rng.shuffle(perm)
        q = rng.random()
        if q < 0.2 and perm:
            perm.pop()                                   # a field the constructor cannot set
        elif q < 0.27:
            perm.append(rng.randrange(nf))               # two parameters feeding one field
        elif q < 0.32:
            perm.append(nf)                              # a parameter feeding no field
        return ["renamed", perm]
    js = rng.sample(range(nf), rng.randint(1, nf))
    return ["force", [[j, gen_val(rng, (dfl[j],))] for j in js]]


def gen_nssub(rng, size=10):
    ncls = rng.choice([1, 1, 2, 2, 3])
    cl = [[gen_val(rng) for _ in range(rng.choice([1, 2, 2, 3, 4]))] for _ in range(ncls)]
    subs = []
    for _ in range(rng.choice([1, 2, 2, 3, 4])):
        b = rng.randrange(ncls)
        subs.append([b, gen_desc(rng, cl[b])])
    case = {"type": "nssub", "cl": cl, "subs": subs, "ops": []}
    base, descs = sub_tables(case)
    env = [(c, list(cl[c])) for c in range(ncls)]
    ops = case["ops"]
    nops = rng.randint(2, size)
    while len(ops) < nops:
        live = [v for v, x in enumerate(env) if x is not None]
        subl = [v for v in live if env[v][0] >= ncls]
        r = rng.random()
        if r < 0.3 or (not subl and r < 0.6):
            s = rng.randrange(ncls, len(base)) if rng.random() < 0.85 else rng.randrange(len(base) + 1)
            if s >= len(base):
                o = {"op": "new", "s": s, "pos": [], "kw": []}
            else:
                c, d = base[s], descs[s]
                dfl = cl[c]
                nf = len(dfl)
                if d[0] == "preset":
                    o = {"op": "new", "s": s, "pos": [gen_val(rng)] if rng.random() < 0.07 else [],
                         "kw": gen_kw(rng, nf, 0, None, dfl, 0.0)[:1] if rng.random() < 0.08 else []}
                elif d[0] == "renamed":
                    perm = d[1]
                    nv = rng.choice(list(range(len(perm) + 1)) + [0, len(perm) + 1])
                    pos = [gen_val(rng) for _ in range(nv)]
                    pool = list(range(min(nv, len(perm)), len(perm)))
                    kw = [[j, gen_val(rng)] for j in rng.sample(pool, rng.randint(0, len(pool)))]
                    if rng.random() < 0.1:
                        kw.append([rng.randrange(len(perm) + 2), gen_val(rng)])      # given twice / unexpected
                    o = {"op": "new", "s": s, "pos": pos, "kw": kw}
                else:
                    nv = 0 if d[0] == "force" and rng.random() < 0.9 else rng.choice(list(range(nf + 1)) + [nf + 1])
                    pos = [gen_val(rng, (dfl[j] if j < nf else None,)) for j in range(nv)]
                    o = {"op": "new", "s": s, "pos": pos, "kw": gen_kw(rng, nf, min(nv, nf), None, dfl, 0.15)}
        else:
            x = rng.choice(subl) if subl and rng.random() < 0.8 else rng.choice(live) if rng.random() < 0.96 else rng.randrange(len(env) + 1)
            xs, xf = env[x] if x < len(env) and env[x] is not None else (0, None)
            xc = base[xs]
            nf = len(cl[xc])
            if r < 0.58:
                o = {"op": "upd", "x": x, "kw": gen_kw(rng, nf, 0, xf, cl[xc], 0.15) if rng.random() < 0.95 else []}
            elif r < 0.78:
                m = rng.randint(xc, ncls - 1) if rng.random() < 0.9 else rng.randrange(ncls + 1)
                o = {"op": "raupd", "x": x, "m": m,
                     "kw": gen_kw(rng, nf, 0, xf, cl[xc], 0.15) if rng.random() < 0.95 else []}
            else:
                def pick():
                    return rng.randint(xc, ncls - 1) if rng.random() < 0.85 else rng.randrange(ncls + 1)
                route = rng.choice(HOLD_ROUTES)
                rr = [route] if route == "pos" else [route, rng.randrange(ncls) if route in ("or", "ror") and rng.random() < 0.9 else pick()]
                if route == "conv":
                    rr.append(pick())
                o = {"op": "hold", "x": x, "r": rr}
        ops.append(o)
        env.append(sub_sim(cl, base, descs, env, o))
    return case


def nssub_corpus():
    """every constructor kind x every copying / holding route, on two field layouts; the instances
    are made through the subclass's own constructor and then: updated (one field, all fields, no
    field, an unknown field), updated through a set, updated twice in a row, put into sets"""
    out = []
    for dfl in ([["i", 50], ["b", 1]], [V_NONE, ["s", 1], ["i", 0]]):
        nf = len(dfl)
        cl = [dfl, [["b", 0]]]
        kinds = [["plain"], ["preset", [[0, ["i", 95]]]], ["preset", [[j, ["i", 9]] for j in range(nf)]],
                 ["preset", []], ["renamed", list(reversed(range(nf)))], ["renamed", [nf - 1]],
                 ["force", [[0, ["i", 7]]]], ["force", [[nf - 1, V_NONE]]]]
        subs = [[0, d] for d in kinds] + [[1, ["preset", [[0, ["b", 1]]]]]]
        ops = []
        for k, d in enumerate(kinds):
            s = 2 + k
            x = 2 + len(ops)
            if d[0] == "renamed":
                ops.append({"op": "new", "s": s, "pos": [["i", 3]], "kw": []})
            elif d[0] == "plain":
                ops.append({"op": "new", "s": s, "pos": [], "kw": [[1, ["i", 3]]]})
            else:
                ops.append({"op": "new", "s": s, "pos": [], "kw": []})
            ops.append({"op": "upd", "x": x, "kw": [[nf - 1, ["i", 4]]]})
            ops.append({"op": "upd", "x": x + 1, "kw": [[0, ["i", 5]]]})                 # a copy of the copy
            ops.append({"op": "upd", "x": x, "kw": [[j, ["s", 0]] for j in range(nf)]})
            ops.append({"op": "upd", "x": x, "kw": []})
            ops.append({"op": "upd", "x": x, "kw": [[0, ["i", 1]], [nf, V_NONE]]})
            ops.append({"op": "raupd", "x": x, "m": k % 2, "kw": [[0, V_NONE]]})
            for r in (["pos"], ["or", 1], ["ror", 0], ["tora", 1], ["conv", 1, 0], ["conv", 0, 1]):
                ops.append({"op": "hold", "x": x, "r": r})
        x = 2 + len(ops)
        ops.append({"op": "new", "s": 2 + len(kinds), "pos": [], "kw": []})              # a preset of the second class
        ops.append({"op": "raupd", "x": x, "m": 0, "kw": [[0, V_NONE]]})                 # incompatible set
        ops.append({"op": "raupd", "x": x, "m": 1, "kw": [[0, V_NONE]]})
        ops.append({"op": "hold", "x": x, "r": ["tora", 0]})
        ops.append({"op": "hold", "x": x, "r": ["or", 0]})
        out.append({"type": "nssub", "cl": cl, "subs": subs, "ops": ops})
    return out


SUB_CORPUS = nssub_corpus()


# ------------------------------------------------------------------ Coq encoding


def zl(l):
    return core.coq_list(l, core.z)


def ns_term(n):
    """the tagged encoding: (render class, tag :: fields)"""
    return f"({n[0]}, {zl([ns_tag(n)] + list(n[1]))})"


def onso_term(e):
    return f"{{| on_cls := {e[0]}; on_f := {zl([e[2]] + list(e[1]))}; on_hash := {core.z(e[3])} |}}"


def bmat(rows):
    return core.coq_list(rows, lambda r: core.coq_list(r, b_))


def op_term(o):
    k = o["op"]
    if k == "new":
        init = "None" if o["init"] is None else f"(Some {o['init']})"
        return f"OConstruct {o['k']} {o['cls']} {init} {core.coq_list(o['nss'], ns_term)}"
    if k == "upd":
        return f"OUpdateNs {o['x']} {core.coq_list(o['nss'], ns_term)}"
    if k == "updf":
        fl = core.coq_list(o["fields"], lambda p: f"({p[0] + 1}, {core.z(p[1])})")   # field j is S j
        return f"OUpdateFields {o['x']} {o['rc']} {fl}"
    if k == "conv":
        return f"OConvert {o['x']} {o['rc']}"
    if k in ("or", "ror"):
        b = f"(inl {ns_term(o['b']['ns'])})" if "ns" in o["b"] else f"(inr {o['b']['ra']})"
        return f"{'OOr' if k == 'or' else 'ORor'} {ns_term(o['a'])} {b}"
    if k == "pos":
        return f"OPos {ns_term(o['a'])}"
    return f"OTo {ns_term(o['a'])} {o['rc']}"


def b_(x):
    return "true" if x else "false"


def obs_term(b):
    dump = core.coq_list(
        b["dump"],
        lambda d: f"{{| ob_kind := {d[0]}; ob_cls := {d[1]}; ob_ns := {core.coq_list(d[2], ns_term)}; ob_hash := {core.z(d[3])} |}}")
    itn = core.coq_list(b["itn"], lambda t: f"({t[0]}, {t[1]}, {t[2]})")
    return (f"{{| b_res := {core.z(b['res'])}; b_dump := {dump}; b_eq := {core.coq_list(b['eq'], b_)}; "
            f"b_in := {core.coq_list(b['in'], b_)}; b_itn := {itn}; "
            f"b_nsnew := {core.coq_list(b['nsnew'], onso_term)}; b_nseq := {bmat(b['nseq'])} |}}")


def prog_term(c, r):
    nsd = core.coq_list(c["nsd"], lambda f: "None" if f is None else f"(Some {zl([0] + list(f))})")
    probes = core.coq_list(c["probes"], lambda pr: core.coq_list(pr, ns_term))
    return (f"{{| t_par := {core.coq_list(c['par'])}; t_nsd := {nsd}; t_nk := {c['nk']}; "
            f"t_ops := {core.coq_list(c['ops'], op_term)}; t_probes := {probes}; "
            f"t_obs := {core.coq_list(r['obs'], obs_term)}; "
            f"t_fin_ns := {core.coq_list(r['fin']['ns'], onso_term)}; t_fin_nseq := {bmat(r['fin']['nseq'])}; "
            f"t_fin_eq := {bmat(r['fin']['eq'])} |}}")


def stmt_descriptor(c):
    base_fields = base_assoc = c["base"] == "assoc"
    rc = {None: "None", "none": "None", "bad": "(Some None)", "free": "(Some (Some false))",
          "taken": "(Some (Some true))"}[c["rc"]]
    return (f"{{| n_kind := {'KArgs' if c['kind'] == 'args' else 'KData'}; n_extra_bases := {c['extra_bases']}; "
            f"n_base_fields := {b_(base_fields)}; n_base_assoc := {b_(base_assoc)}; "
            f"n_fields := {core.coq_list(c['fields'], b_)}; n_rc := {rc}; n_required := {b_(c['required'])} |}}")


def meta_term(c, r):
    if c["type"] == "stmt":
        return f"MStmt {stmt_descriptor(c)} {core.z(r['code'])}"
    if c["type"] == "ctor":
        kw = core.coq_list(c["kw"], lambda p: f"({p[0]}, {core.z(p[1])})")
        return f"MCtor {zl(c['dfl'])} {zl(c['vals'])} {kw} {core.z(r['code'])} {zl(r['value'])}"
    return f"MRend {core.coq_list(c['bases'], b_)} {b_(r['accepted'])}"


def val_term(v):
    t = v[0]
    if t == "i":
        return f"(VInt {core.z(v[1])})"
    if t == "b":
        return f"(VBool {b_(v[1])})"
    if t == "f":
        return f"(VFloat {core.z(v[1])})"
    if t == "s":
        return f"(VStr {v[1]})"
    if t == "nan":
        return f"(VNan {v[1]})"
    return {"n": "VNone", "e": "VEllipsis", "t": "VEmptyTuple"}[t]


def vl(l):
    return core.coq_list(l, val_term)


def kw_term(kw):
    return core.coq_list(kw, lambda p: f"({p[0]}, {val_term(p[1])})")


def nop_term(o):
    k = o["op"]
    if k == "ctor":
        return f"NCtor {o['c']} {vl(o['pos'])} {kw_term(o['kw'])}"
    if k == "upd":
        return f"NUpdate {o['x']} {kw_term(o['kw'])}"
    if k == "raupd":
        return f"NRaUpdate {o['x']} {o['m']} {kw_term(o['kw'])}"
    return f"NGet {o['x']} {o['j']}"


def nsobs_term(d):
    return f"{{| no_cls := {d[0]}; no_dict := {vl(d[1])}; no_attr := {vl(d[2])}; no_hash := {core.z(d[3])} |}}"


def nobs_term(b, prev, hmap):
    """lossless compression of the observation: a dump that extends the previous one is written
    as its new tail only; hash values are renamed to small integers (only their equality is used)"""
    dump = [d[:3] + [hmap.setdefault(d[3], len(hmap))] for d in b["dump"]]
    ext = dump[:len(prev)] == prev
    tail = dump[len(prev):] if ext else dump
    return (f"{{| nb_res := {core.z(b['res'])}; nb_val := {val_term(b['val'])}; nb_ext := {b_(ext)}; "
            f"nb_dump := {core.coq_list(tail, nsobs_term)}; nb_eq := {core.coq_list(b['eq'], b_)}; "
            f"nb_dfl := {core.coq_list(b['dfl'], vl)}; nb_flags := {b_(b['flags'])} |}}"), dump


def nsprog_term(c, r):
    hmap = {}
    prev = [d[:3] + [hmap.setdefault(d[3], len(hmap))] for d in r["init"]]
    init = core.coq_list(prev, nsobs_term)
    obs = []
    for b in r["obs"]:
        t, prev = nobs_term(b, prev, hmap)
        obs.append(t)
    return (f"{{| nc_cl := {core.coq_list(c['cl'], vl)}; nc_ops := {core.coq_list(c['ops'], nop_term)}; "
            f"nc_init := {init}; nc_obs := {core.coq_list(obs)}; "
            f"nc_fin_eq := {bmat(r['fin'])} |}}")


def sdesc_term(d):
    if d[0] == "plain":
        return "DPlain"
    if d[0] == "preset":
        return f"(DPreset {kw_term(d[1])})"
    if d[0] == "force":
        return f"(DForce {kw_term(d[1])})"
    return f"(DRenamed {core.coq_list(d[1], str)})"


def sop_term(o):
    k = o["op"]
    if k == "new":
        return f"SNew {o['s']} {vl(o['pos'])} {kw_term(o['kw'])}"
    if k == "upd":
        return f"SUpdate {o['x']} {kw_term(o['kw'])}"
    if k == "raupd":
        return f"SRaUpdate {o['x']} {o['m']} {kw_term(o['kw'])}"
    r = o["r"]
    rt = {"pos": "HPos", "or": "(HOr {})", "ror": "(HRor {})", "tora": "(HToRa {})", "conv": "(HConvert {} {})"}[r[0]].format(*r[1:])
    return f"SHold {o['x']} {rt}"


def nssub_term(c, r):
    hmap = {}
    prev = [d[:3] + [hmap.setdefault(d[3], len(hmap))] for d in r["init"]]
    init = core.coq_list(prev, nsobs_term)
    obs = []
    for b in r["obs"]:
        t, prev = nobs_term(b, prev, hmap)
        obs.append(t)
    subs = core.coq_list(c["subs"], lambda p: f"({p[0]}, {sdesc_term(p[1])})")
    return (f"{{| sc_cl := {core.coq_list(c['cl'], vl)}; sc_subs := {subs}; "
            f"sc_ops := {core.coq_list(c['ops'], sop_term)}; sc_init := {init}; sc_obs := {core.coq_list(obs)} |}}")


# ------------------------------------------------------------------ interleaved first requests
# (type "intern"; model/RArgsIntern.v, judged by RArgsInternTie.icheck).  A case: a chain of
# 1-3 render classes ("ns": which of them own a namespace), the kind of the request that is
# parked ("req0") and of the complete request made in that window ("req1"; 0 RenderArgs(cls),
# 1 RenderArgs(cls, None), 2 RenderArgs(cls, RenderArgs(parent)), 3 cls(...).render() with no
# render arguments), and "k": the line event of the parked request at which it is parked
# ("all": every position; the driver counts them first).  Every position runs on a fresh chain.
IHEADER = ("From Coq Require Import List.\nImport ListNotations.\n"
           "From TI Require Import model.RArgsIntern model.RArgsInternTie.\n")
REQ_NAMES = ["RenderArgs(cls)", "RenderArgs(cls, None)", "RenderArgs(cls, RenderArgs(parent))", "cls(...).render()"]


def intern_cases(quick, rng):
    pats = [[True], [False], [True, True], [False, True], [True, False], [True, False, True], [False, False, False],
            [True, True, True], [False, True, False], [False, False, True], [True, True, False]]
    combos = [(r0, r1) for r0 in (0, 1, 2) for r1 in (0, 1, 2, 3)]
    out = []
    if quick:
        # every hierarchy pattern once; the request pairs rotate with the seed so that all are met
        off = rng.randrange(len(combos))
        for j, ns in enumerate(pats):
            r0, r1 = combos[(off + 5 * j) % len(combos)]
            out.append({"type": "intern", "ns": ns, "req0": r0, "req1": r1, "k": "all"})
        out.append({"type": "intern", "ns": [True, True], "req0": 0, "req1": 0, "k": "all"})
    else:
        for ns in pats:
            for r0, r1 in combos:
                out.append({"type": "intern", "ns": ns, "req0": r0, "req1": r1, "k": "all"})
    for c in out:
        if c["req1"] == 3:
            c["renderable"] = True
    return out


def onl_term(r):
    return "None" if r is None else f"(Some {core.coq_list(r)})"


def intern_terms(c, r):
    d = [i for i, has in enumerate(c["ns"], 1) if has]
    return [(o["k"], f"{{| ic_dflt := {core.coq_list(d)}; ic_pub := {b_(o['pub'])}; ic_built := {b_(o['built'])}; "
                     f"ic_res := {core.coq_list(o['res'], onl_term)}; ic_same := {core.coq_list(o['same'], b_)}; "
                     f"ic_eq := {b_(o['eq'])} |}}") for o in r["obs"]]


def describe_intern(case, obs=None):
    n = len(case["ns"])
    chain = " <- ".join(["Renderable"] + [f"I{i}{'(Args)' if has else ''}" for i, has in enumerate(case["ns"], 1)])
    t = (f"class chain {chain}; no default set of I{n} exists yet; thread 0 calls {REQ_NAMES[case['req0']].replace('cls', f'I{n}')} "
         f"and is pre-empted before line event {case['k']} of that call"
         + (f" ({obs['where']}; I{n} in _interned: {obs['pub']}; its object built: {obs['built']})" if obs else "")
         + f"; the main thread then calls {REQ_NAMES[case['req1']].replace('cls', f'I{n}')} to completion; thread 0 resumes; "
         f"then RenderArgs(I{n}) once more")
    if obs:
        def show(j):
            return f"unusable ({obs['why'][j]})" if obs["res"][j] is None else f"holds defaults of classes {obs['res'][j]}"
        t += (f".  Returned sets: thread 0 -> {show(0)}; main -> {show(1)}; afterwards -> {show(2)}; "
              f"same object (0,1)/(0,2)/(1,2): {obs['same']}; all equal and hash equal: {obs['eq']}")
    return t


# ------------------------------------------------------------------ what ==/hash/compatibility READ (model/RArgsRel.v)
# nsexp: {"type": "nsexp", "cl": [defaults of the namespace class of R_1, R_2, ... (a chain)],
#         "inst": [[c, export descriptor, field values], ...]}: instances of the associated class of R_c
# (descriptor ["plain"]) or of a subclass of it overriding as_dict() (["addfirst", v] / ["addlast", v] /
# ["rev"] / ["addrev", v]: every field stays exported under its name with its value) or get_fields() +
# __repr__ (["other"]).  nsvirt: {"type": "nsvirt", "par": parents, "own": owns a namespace class,
# "reg": [[base, cls], ...] (base.register(cls)), "probes": [[route, target, class of the namespace]],
# "family": "ns" (default) / "init" (the probes pass a SET of that class as init_render_args)}.
RHEADER = ("From Coq Require Import List ZArith.\nImport ListNotations.\n"
           "From TI Require Import model.RArgs model.RArgsVal model.RArgsRel model.RArgsRelTie.\n")
EXP_VALS = [["i", 0], ["i", 1], ["i", 7], ["b", 0], ["b", 1], ["f", 0], ["f", 1], ["n"], ["e"], ["s", 0], ["s", 1], ["t"]]
EXP_KINDS = ["plain", "addfirst", "addlast", "rev", "addrev", "other"]
EXP_ROUTES = ["RenderArgs(R_c, x{})", "+x{}", "RenderArgs(R_c) | x{}", "RenderArgs(R_c).update(x{})", "RenderArgs(parent of R_c).convert(R_c).update(x{})"]
VIRT_ROUTES = ["RenderArgs(T, ns)", "RenderArgs(T, None, ns)", "RenderArgs(T, init, ns)", "ns.to_render_args(T)", "RenderArgs(T).update(ns)"]
VIRT_INIT_ROUTES = ["RenderArgs(T, init)", "RenderArgs(T, init, ns_T)"]


def gen_edesc(rng, kinds=EXP_KINDS):
    k = rng.choice(kinds)
    return [k, list(rng.choice(EXP_VALS))] if k in ("addfirst", "addlast", "addrev") else [k]


def same_value_other_type(rng, v):
    """a value that is == v (0 == False == 0.0, 1 == True == 1.0)"""
    if v[0] in "ibf" and v[1] in (0, 1):
        return [rng.choice("ibf"), v[1]]
    return list(v)


def gen_nsexp(rng):
    ncl = rng.randint(1, 3)
    cl = [[list(rng.choice(EXP_VALS)) for _ in range(rng.randint(1, 3))] for _ in range(ncl)]
    inst = []
    n = rng.randint(4, 7)
    while len(inst) < n:
        c = rng.randint(1, ncl)
        base = [list(rng.choice(EXP_VALS)) if rng.random() < 0.7 else list(d) for d in cl[c - 1]]
        # a group with == fields: the associated class first or not, then subclasses with other exports
        group = [["plain"]] if rng.random() < 0.7 else []
        group += [gen_edesc(rng, EXP_KINDS[1:]) for _ in range(rng.randint(1, 2))]
        rng.shuffle(group)
        for d in group:
            f = [same_value_other_type(rng, v) if rng.random() < 0.4 else list(v) for v in base]
            if rng.random() < 0.12:
                f[rng.randrange(len(f))] = list(rng.choice(EXP_VALS))
            inst.append([c, d, f])
    return {"type": "nsexp", "cl": cl, "inst": inst[:7]}


NSEXP_CORPUS = [
    {"type": "nsexp", "cl": [[["i", 0]], [["s", 0], ["b", 0]]],
     "inst": [[2, ["plain"], [["s", 1], ["b", 1]]], [2, ["addfirst", ["s", 1]], [["s", 1], ["b", 1]]],
              [2, ["rev"], [["s", 1], ["i", 1]]], [2, ["addlast", ["n"]], [["s", 1], ["f", 1]]],
              [1, ["other"], [["i", 0]]], [1, ["plain"], [["b", 0]]], [2, ["addrev", ["i", 7]], [["s", 1], ["b", 0]]]]},
    {"type": "nsexp", "cl": [[["n"], ["i", 1], ["e"]]],
     "inst": [[1, ["plain"], [["n"], ["i", 1], ["e"]]], [1, ["rev"], [["n"], ["i", 1], ["e"]]],
              [1, ["addlast", ["e"]], [["n"], ["b", 1], ["e"]]], [1, ["other"], [["n"], ["f", 1], ["e"]]],
              [1, ["addfirst", ["n"]], [["n"], ["i", 1], ["e"]]], [1, ["addrev", ["t"]], [["e"], ["i", 1], ["n"]]]]},
]


def py_issub(par, reg, t, c, fuel=None):
    """issubclass(t, c) as abc.ABCMeta computes it (model/RArgsRel.v issub)"""
    fuel = len(par) + len(reg) + 1 if fuel is None else fuel
    if anc(par, c, t):
        return True
    if not fuel:
        return False
    return (any(b == c and py_issub(par, reg, t, k, fuel - 1) for b, k in reg)
            or any(s and par[s] == c and py_issub(par, reg, t, s, fuel - 1) for s in range(len(par))))


def gen_nsvirt(rng, family="ns"):
    n = rng.randint(3, 6)
    shape = rng.random()
    par = [0] + [(c - 1 if shape < 0.25 else 0 if shape < 0.4 and c < 3 else rng.randrange(0, c)) for c in range(1, n)]
    own = [False] + [rng.random() < 0.7 for _ in range(1, n)]
    for c in rng.sample(range(1, n), 2):
        own[c] = True
    reg = []
    for _ in range(rng.randint(1, 2)):
        for _attempt in range(12):
            b, k = rng.randrange(1, n), rng.randrange(1, n)
            # abc refuses a registration that would make a cycle; prefer bases owning a namespace class
            if b != k and not py_issub(par, reg, b, k) and (own[b] or rng.random() < 0.3):
                reg.append([b, k])
                break
    owners = [c for c in range(1, n) if own[c]]
    pairs = [(t, c) for t in range(1, n) for c in owners]
    virt = [p for p in pairs if py_issub(par, reg, *p) and not anc(par, p[1], p[0])]
    real = [p for p in pairs if anc(par, p[1], p[0])]
    none = [p for p in pairs if not py_issub(par, reg, *p)]
    nroutes = 2 if family == "init" else 5
    probes = []
    off = rng.randrange(nroutes)
    for j, (t, c) in enumerate(virt[:3]):
        probes += [[r, t, c] for r in range(nroutes)] if j == 0 else [[(off + j) % nroutes, t, c], [(off + j + 2) % nroutes, t, c]]
    for grp, m in ((real, 3), (none, 2)):
        for t, c in rng.sample(grp, min(m, len(grp))):
            probes.append([rng.randrange(nroutes), t, c])
    case = {"type": "nsvirt", "par": par, "own": own, "reg": reg, "probes": probes}
    if family == "init":
        case["family"] = "init"
    return case


def nsvirt_corpus(family="ns"):
    nr = 2 if family == "init" else 5
    out = [
        # two unrelated classes; the documented public abc API makes one a VIRTUAL subclass of the other
        {"par": [0, 0, 0], "own": [False, True, True], "reg": [[1, 2]],
         "probes": [[r, 2, 1] for r in range(nr)] + [[0, 1, 2], [0, 2, 2], [nr - 1, 1, 1]]},
        # registered with a parent: virtual subclass of the grandparent too; children of the registered class
        {"par": [0, 0, 1, 0, 3], "own": [False, True, True, True, False], "reg": [[2, 3]],
         "probes": [[r, 4, 2] for r in range(nr)] + [[0, 3, 1], [1, 4, 1], [2, 3, 2], [0, 4, 3], [1, 2, 3], [0, 2, 1]]},
        # the base owns no namespace class, its parent does; a second, harmless registration (a real subclass)
        {"par": [0, 0, 1, 0], "own": [False, True, False, True], "reg": [[2, 3], [1, 2]],
         "probes": [[r, 3, 1] for r in range(nr)] + [[0, 1, 3], [1, 2, 3], [0, 2, 1]]},
    ]
    for c in out:
        c["type"] = "nsvirt"
        if family == "init":
            c["family"] = "init"
    return out


NSVIRT_CORPUS = nsvirt_corpus()


def edesc_term(d):
    k = d[0]
    if k in ("plain", "rev", "other"):
        return {"plain": "EPlain", "rev": "EReverse", "other": "EOther"}[k]
    return f"({ {'addfirst': 'EAddFirst', 'addlast': 'EAddLast', 'addrev': 'EAddReverse'}[k]} {val_term(d[1])})"


def etab_term(t):
    hm = {}
    hs = [hm.setdefault(h, len(hm)) for h in t["hash"]]
    return f"{{| et_eq := {bmat(t['eq'])}; et_hash := {core.coq_list(hs)}; et_find := {bmat(t['find'])} |}}"


def nsexp_term(c, r):
    inst = core.coq_list(c["inst"], lambda i: f"{{| x_cls := {i[0]}; x_exp := {edesc_term(i[1])}; x_f := {vl(i[2])} |}}")
    # the driver's side conditions (the instances hold the fields given, every route's set holds the instance)
    sane = r["fields"] == [i[2] for i in c["inst"]] and all(t["ok"] for t in r["sets"])
    return (f"{{| ec_inst := {inst}; ec_exports := {core.coq_list(r['exports'] if sane else [], vl)}; "
            f"ec_ns := {etab_term(r['ns'])}; ec_sets := {core.coq_list(r['sets'], etab_term)} |}}")


def nsvirt_term(c, r):
    def probe(p, o):
        return (f"{{| vp_route := {p[0]}; vp_t := {p[1]}; vp_c := {p[2]}; vp_res := {o['res']}; vp_keys := {core.coq_list(o['keys'])}; "
                f"vp_val := {b_(o['val'])}; vp_issub := {b_(o['issub'])} |}}")
    return (f"{{| vc_init := {b_(c.get('family') == 'init')}; vc_par := {core.coq_list(c['par'])}; vc_own := {core.coq_list(c['own'], b_)}; "
            f"vc_reg := {core.coq_list(c['reg'], lambda p: f'({p[0]}, {p[1]})')}; "
            f"vc_probes := {core.coq_list(list(zip(c['probes'], r['probes'])), lambda po: probe(*po))}; "
            f"vc_keys0 := {core.coq_list(r['keys0'], core.coq_list)}; vc_unchanged := {b_(r['unchanged'])} |}}")


def shrink_rel(case):
    """candidates: every pair of instances / every single probe"""
    if case["type"] == "nsexp":
        n = len(case["inst"])
        return [{**case, "inst": [case["inst"][i], case["inst"][j]]} for i in range(n) for j in range(i + 1, n)]
    return [{**case, "probes": [p]} for p in case["probes"]]


def describe_rel(case, obs=None):
    if case["type"] == "nsexp":
        def cls(i):
            c, d, f = i
            base = f"R{c}.Args"
            if d[0] == "plain":
                return base
            body = {"addfirst": "as_dict(): {{'extra': {0}, **super().as_dict()}}", "addlast": "as_dict(): {{**super().as_dict(), 'extra': {0}}}",
                    "rev": "as_dict(): entries of super().as_dict() reversed", "addrev": "as_dict(): {{'extra': {0}, **reversed entries}}",
                    "other": "get_fields(): reversed mapping; __repr__ overridden"}[d[0]].format(pyval(d[1]) if len(d) > 1 else "")
            return f"[subclass of {base} overriding {body}]"
        t = ("chain Renderable <- " + " <- ".join(f"R{c}(Args defaults {[pyval(v) for v in d]})" for c, d in enumerate(case["cl"], 1))
             + "; instances: " + "; ".join(f"x{k} = {cls(i)}({', '.join(pyval(v) for v in i[2])})" for k, i in enumerate(case["inst"])))
        if obs:
            def bad(tab, what):
                out = []
                n = len(case["inst"])
                for i in range(n):
                    for j in range(n):
                        if i < j and tab["eq"][i][j] and tab["hash"][i] != tab["hash"][j]:
                            out.append(f"{what.format(i)} == {what.format(j)} but their hashes differ"
                                       + ("" if tab["find"][i][j] else " (a dict keyed by one misses the other)"))
                return out
            notes = bad(obs["ns"], "x{}")
            for rn, tab in zip(EXP_ROUTES, obs["sets"]):
                notes += bad(tab, rn)
            t += ".  Observed: " + ("; ".join(notes[:4]) if notes else f"== tables {obs['ns']['eq']}")
        return t
    fam = case.get("family") == "init"
    t = (f"render classes C1..C{len(case['par']) - 1} with parents {case['par'][1:]} (0 = Renderable), namespace owners "
         f"{[c for c, o in enumerate(case['own']) if o]}; " + "; ".join(f"C{b}.register(C{k})" for b, k in case["reg"]) + "; ")
    names = VIRT_INIT_ROUTES if fam else VIRT_ROUTES
    parts = []
    for k, p in enumerate(case["probes"]):
        what = (names[p[0]].replace("T", f"C{p[1]}") + (f" with init = RenderArgs(C{p[2]}, C{p[2]}.Args(7))" if fam else f" with ns = C{p[2]}.Args(7)"))
        if obs:
            o = obs["probes"][k]
            what += (f" -> issubclass(C{p[1]}, C{p[2]}) = {o['issub']}, C{p[2]} in C{p[1]}.__mro__ = {anc(case['par'], p[2], p[1])}; "
                     + (f"ACCEPTED, the set holds namespaces for classes {o['keys']}" if o["res"] == 0 else f"rejected (error code {o['res'] - 1})"))
        parts.append(what)
    return t + " | ".join(parts)


# ------------------------------------------------------------------ initial-set product / class statements with mix-ins

MXHEADER = ("From Coq Require Import List ZArith.\nImport ListNotations.\n"
            "From TI Require Import model.RArgs model.RArgsShape model.RArgsShapeTie.\nOpen Scope nat_scope.\n")
INIT_KINDS = ["none", "BASE_RENDER_ARGS", "interned default set", "equal to the default set, not interned", "non-default set"]
INIT_RELS = ["same", "ancestor", "descendant", "sibling/unrelated"]
FOLLOWS = ["no namespace", "compatible namespaces", "an incompatible namespace"]


def rel_of(par, ci, t):
    return "same" if ci == t else "ancestor" if anc(par, ci, t) else "descendant" if anc(par, t, ci) else "sibling/unrelated"


def init_product_prog(par, nsd, init_classes, targets, nk=2):
    """RenderArgs(t, init, *follow) for the PRODUCT (kind of initial set) x (class of the initial set) x (what follows):
    first the initial sets (None, BASE_RENDER_ARGS, and for every class in init_classes its interned default set,
    a set equal to it that is not interned, a non-default set), then every combination for every target"""
    owners = [c for c in range(len(par)) if nsd[c] is not None]
    ops = [{"op": "new", "k": 0, "cls": 0, "init": None, "nss": []}]
    inits = [None, 0]
    for ci in init_classes:
        own = [a for a in chain(par, ci) if nsd[a] is not None]
        ops.append({"op": "new", "k": 0, "cls": ci, "init": None, "nss": []})
        inits.append(len(ops) - 1)
        if own:
            ops.append({"op": "new", "k": 0, "cls": ci, "init": None, "nss": [N(own[0], list(nsd[own[0]]))]})
            inits.append(len(ops) - 1)
            ops.append({"op": "new", "k": 0, "cls": ci, "init": None, "nss": [N(own[0], [v + 8 for v in nsd[own[0]]])]})
            inits.append(len(ops) - 1)
    for t in targets:
        good = [a for a in chain(par, t) if nsd[a] is not None]
        bad = [a for a in owners if not anc(par, a, t)]
        follows = [[]]
        if good:
            follows.append([N(good[-1], list(nsd[good[-1]])), N(good[0], [v + 21 for v in nsd[good[0]]])] if len(good) > 1
                           else [N(good[0], [v + 20 for v in nsd[good[0]]])])
        if bad:
            follows.append([N(bad[0], [v + 30 for v in nsd[bad[0]]])])
        for x in inits:
            for nss in follows:
                ops.append({"op": "new", "k": 0, "cls": t, "init": x, "nss": copy.deepcopy(nss)})
            if nk > 1 and x is not None and good:   # another RenderArgs type: no set of type K0 is interned for it
                ops.append({"op": "new", "k": 1, "cls": t, "init": x, "nss": [N(good[0], [v + 22 for v in nsd[good[0]]])]})
    for o in ops:
        o["pres"] = 0
    pr = [N(c, list(nsd[c])) for c in owners][:3]
    return {"type": "prog", "par": par, "nsd": nsd, "nk": nk, "ops": ops, "probes": [list(pr) for _ in ops]}


def init_product_corpus():
    # 1 = A, 2 = B(A), 3 = C(A) (sibling of B), 4 = D (unrelated), 5 = E(B); every class owns a namespace class
    par, nsd = [0, 0, 1, 1, 0, 2], [None, [1], [2], [3], [4], [5]]
    out = [init_product_prog(par, nsd, [ci], [t]) for ci, t in ((2, 2), (1, 2), (5, 2), (3, 2), (4, 2), (2, 1))]
    # gap classes: the sibling / the target own no namespace class
    out.append(init_product_prog([0, 0, 1, 1, 2], [None, [1], None, None, [7]], [3, 4], [2], nk=1))
    return out


def gen_initprod(rng):
    par, nsd = gen_forest(rng)
    nc = len(par)
    t = rng.randrange(1, nc)
    others = [c for c in range(1, nc) if c != t]
    rng.shuffle(others)
    # classes in as many different relations to the target as the forest has
    seen, ics = set(), []
    for c in [t] + others:
        r = rel_of(par, c, t)
        if r not in seen or rng.random() < 0.15:
            seen.add(r)
            ics.append(c)
    rng.shuffle(ics)
    return init_product_prog(par, nsd, ics[:2], [t], nk=rng.choice([1, 2]))


INIT_CORPUS = init_product_corpus()


def gen_mix(rng, par):
    """per class [n_before, n_after, n_mid, g]: plain mix-in classes listed before the render base, after everything
    else, and between the render base and a second, redundant render base g (a proper ancestor of the render base)"""
    n = len(par)
    mix = [[0, 0, 0, 0] for _ in range(n)]
    for c in rng.sample(range(1, n), min(n - 1, rng.choice([1, 1, 2, 2, 3, n - 1]))):
        shape = rng.choice(["before", "before", "after", "both", "mid", "mid", "all"])
        nb = rng.choice([1, 1, 2]) if shape in ("before", "both", "all") else 0
        na = rng.choice([1, 1, 2]) if shape in ("after", "both", "all") else 0
        nm, g = 0, 0
        if shape in ("mid", "all"):
            if par[c]:
                g, nm = rng.choice(chain(par, par[c])[1:]), rng.choice([1, 1, 2])
            else:
                nb = nb or 1
        mix[c] = [nb, na, nm, g]
    return mix


def gen_nsmix(rng):
    n = rng.randint(3, 6)
    shape = rng.random()
    par = [0] + [(c - 1 if shape < 0.45 else rng.randrange(0, c)) for c in range(1, n)]
    own = [False] + [rng.random() < 0.7 for _ in range(1, n)]
    for c in rng.sample(range(1, n), 2):
        own[c] = True
    return {"type": "nsmix", "par": par, "own": own, "mix": gen_mix(rng, par)}


def nsmix_corpus():
    z = [0, 0, 0, 0]
    out = [
        # A <- B <- Q(Mixin, B) <- R; P(B, Mixin): a mix-in before / after the render base, a child of such a class
        {"par": [0, 0, 1, 2, 2, 3], "own": [False, True, True, True, True, False], "mix": [z, z, z, [1, 0, 0, 0], [0, 1, 0, 0], z]},
        # B(A, M), Q(B, M, A), R(M, Q, M, Renderable): after / between render bases
        {"par": [0, 0, 1, 2, 3], "own": [False, True, True, True, False], "mix": [z, z, [0, 1, 0, 0], [0, 0, 1, 1], [1, 0, 1, 0]]},
        # mix-ins directly above Renderable and in every class of a chain, two at a time
        {"par": [0, 0, 1, 2], "own": [False, True, True, True], "mix": [z, [2, 0, 0, 0], [1, 1, 0, 0], [2, 2, 0, 0]]},
        # a gap class with the mix-in, siblings without
        {"par": [0, 0, 1, 1, 2], "own": [False, True, False, True, True], "mix": [z, z, [1, 0, 0, 0], z, [0, 0, 2, 1]]},
    ]
    for c in out:
        c["type"] = "nsmix"
    return out


NSMIX_CORPUS = nsmix_corpus()


def mix_prog_corpus():
    """the program family on classes with mix-ins: default sets, namespaces of every ancestor, convert both ways,
    |, update in both forms, to_render_args"""
    z = [0, 0, 0, 0]
    ops = [{"op": "new", "k": 0, "cls": 3, "init": None, "nss": []},
           {"op": "new", "k": 0, "cls": 3, "init": None, "nss": [N(1, [10]), N(2, [20])]},
           {"op": "new", "k": 0, "cls": 2, "init": None, "nss": [N(1, [10]), N(2, [20])]},
           {"op": "new", "k": 0, "cls": 3, "init": 2, "nss": [N(3, [40])]},
           {"op": "conv", "x": 2, "rc": 3},
           {"op": "conv", "x": 4, "rc": 2},
           {"op": "or", "a": N(3, [40]), "b": {"ra": 2}},
           {"op": "or", "a": N(2, [21]), "b": {"ns": N(3, [41])}},
           {"op": "pos", "a": N(3, [40])},
           {"op": "updf", "x": 8, "rc": 1, "fields": [[0, 11]]},
           {"op": "upd", "x": 0, "nss": [N(1, [12])]},
           {"op": "to", "a": N(1, [13]), "rc": 4},
           {"op": "new", "k": 0, "cls": 4, "init": 1, "nss": []},
           {"op": "new", "k": 0, "cls": 3, "init": None, "nss": [N(5, [50])]}]
    for o in ops:
        o["pres"] = 0
    par, nsd = [0, 0, 1, 2, 3, 2], [None, [1], [2], [4], None, [3]]
    pr = [N(1, [1]), N(2, [2]), N(3, [4])]
    return [{"type": "prog", "par": par, "nsd": nsd, "nk": 1, "ops": copy.deepcopy(ops), "probes": [list(pr) for _ in ops], "mix": mix}
            for mix in ([z, z, z, [1, 0, 0, 0], z, [0, 1, 0, 0]], [z, z, [0, 1, 0, 0], [0, 0, 1, 1], [1, 0, 1, 0], z])]


MIX_PROG_CORPUS = mix_prog_corpus()


def nsmix_term(c, r):
    mix = c["mix"]

    def pairs(l):
        return core.coq_list(l, lambda p: f"({p[0]}, {p[1]})")
    return (f"{{| mc_par := {core.coq_list(c['par'])}; mc_own := {core.coq_list(c['own'], b_)}; "
            f"mc_before := {core.coq_list([m[0] for m in mix])}; mc_after := {core.coq_list([m[1] for m in mix])}; "
            f"mc_mid := {core.coq_list([m[2] for m in mix])}; mc_g := {core.coq_list([m[3] for m in mix])}; "
            f"mc_mro := {core.coq_list(r['mro'], pairs)}; mc_held := {core.coq_list(r['held'], core.coq_list)}; "
            f"mc_acc := {core.coq_list(r['acc'], core.coq_list)} |}}")


def class_stmt(par, mix, c, name="C"):
    def base(k):
        return f"{name}{k}" if k else "Renderable"
    if not mix or not any(mix[c][:3]):
        return f"class {name}{c}({base(par[c])})"
    nb, na, nm, g = mix[c]
    bases = ([f"Mixin{c}_{j}" for j in range(nb)] + [base(par[c])]
             + ([f"Mixin{c}_{j}" for j in range(nb + na, nb + na + nm)] + [base(g)] if nm else [])
             + [f"Mixin{c}_{j}" for j in range(nb, nb + na)])
    return f"class {name}{c}({', '.join(bases)})"


def describe_mix(case, obs=None):
    par, own, mix = case["par"], case["own"], case["mix"]
    t = ("class statements (MixinN_j = a plain class; [Args] = owns a namespace class): "
         + "; ".join(class_stmt(par, mix, c) + (" [Args]" if own[c] else "") for c in range(1, len(par))))
    if obs:
        notes = []
        for c in range(1, len(par)):
            want = [a for a in chain(par, c) if own[a]]
            if sorted(obs["held"][c]) != sorted(want):
                notes.append(f"RenderArgs(C{c}) holds namespaces for classes {obs['held'][c]}, the rule says {want}")
            for a in range(1, len(par)):
                if own[a] and (obs["acc"][c][a] == 0) != (a in want):
                    notes.append(f"RenderArgs(C{c}, C{a}.Args(7)) "
                                 + ("accepted" if obs["acc"][c][a] == 0 else f"rejected (error code {obs['acc'][c][a] - 1})")
                                 + f" although C{a} is {'' if a in want else 'not '}C{c} or an ancestor of it")
        t += ".  Observed: " + ("; ".join(notes[:4]) if notes else f"held {obs['held']}")
    return t


def shrink_mix(case):
    """candidates: the mix-ins of one class only, one of them first"""
    out = []
    for c, m in enumerate(case["mix"]):
        if any(m[:3]):
            for mm in ([1, 0, 0, 0] if m[0] else None, [0, 0, 1, m[3]] if m[2] else None, [0, 1, 0, 0] if m[1] else None, m):
                if mm:
                    out.append({**case, "mix": [mm if k == c else [0, 0, 0, 0] for k in range(len(case["mix"]))]})
    return out


def below_mixin(par, mix):
    """per class: some class of its chain lists a mix-in BEFORE a render base (a non-render class precedes render classes in the MRO)"""
    return [any(mix[a][0] or mix[a][2] for a in chain(par, c) if a) for c in range(len(par))]


def mix_stats(h, par, mix, bump):
    for c in range(1, len(par)):
        if any(mix[c][:3]):
            bump(h["class_statements_by_shape(before,after,between)"], ",".join(str(min(x, 2)) for x in mix[c][:3]))
    h["classes_below_a_mixin_before_its_render_base"] += sum(below_mixin(par, mix))


def init_bucket(c, r, t):
    """(kind of initial set / class relation to the target / what follows -> outcome) of constructor call t, from the observations"""
    o, b = c["ops"][t], r["obs"][t]
    par, nsd = c["par"], c["nsd"]
    follow = (FOLLOWS[0] if not o["nss"] else
              FOLLOWS[1] if all(anc(par, n[0], o["cls"]) and nsd[n[0]] is not None for n in o["nss"]) else FOLLOWS[2])
    out = "ok" if b["res"] >= 0 else f"err{-1 - b['res']}"
    if o["init"] is None:
        return f"none / - / {follow} -> {out}"
    if o["init"] >= t or r["obs"][o["init"]]["res"] < 0:
        return f"not a set / - / {follow} -> {out}"
    j = r["obs"][o["init"]]["res"]
    kind_j, cls_j, nss_j = b["dump"][j][0], b["dump"][j][1], b["dump"][j][2]
    before = r["obs"][t - 1]["itn"] if t else []
    if kind_j == 0 and cls_j == 0:
        kind = INIT_KINDS[1]
    elif [o["k"], cls_j, j] in before:
        kind = INIT_KINDS[2]
    elif all(list(n[1]) == list(nsd[n[0]]) for n in nss_j):
        kind = INIT_KINDS[3]
    else:
        kind = INIT_KINDS[4]
    return f"{kind} / {rel_of(par, cls_j, o['cls'])} / {follow} -> {out}"


def evaluate(cases, tag="c16", want_diag=False):
    """Returns (codes, errors, impl results, diag strings)."""
    impl = core.run_impl_parallel("impl_c16.py", cases)
    progs = [(i, prog_term(c, r)) for i, (c, r) in enumerate(zip(cases, impl)) if c["type"] == "prog"]
    metas = [(i, meta_term(c, r)) for i, (c, r) in enumerate(zip(cases, impl)) if c["type"] in ("stmt", "ctor", "rend")]
    nsps = [(i, nsprog_term(c, r)) for i, (c, r) in enumerate(zip(cases, impl)) if c["type"] == "nsprog"]
    subs = [(i, nssub_term(c, r)) for i, (c, r) in enumerate(zip(cases, impl)) if c["type"] == "nssub"]
    codes = [0] * len(cases)
    errors = []
    diags = {}
    ints = [(i, k, t) for i, (c, r) in enumerate(zip(cases, impl)) if c["type"] == "intern" for k, t in intern_terms(c, r)]
    if ints:
        bad, errs = core.coq_shards(tag + "i", IHEADER, [t for _, _, t in ints], "icase", "ibad cases", shard=200)
        errors += errs
        for idx, code in bad:
            i, k, _ = ints[idx]
            diags.setdefault(i, []).append((k, code))
        for i, l in diags.items():
            # the case's code: that of its first position contradicting the rule, else 1
            codes[i] = next((code for _, code in l if code >= 2), 1)
    for ty, suffix, term, ctype, expr in (("nsexp", "e", nsexp_term, "ecase", "ebad cases"), ("nsvirt", "v", nsvirt_term, "vcase", "vbad cases")):
        rel = [(i, term(c, r)) for i, (c, r) in enumerate(zip(cases, impl)) if c["type"] == ty]
        if rel:
            bad, errs = core.coq_shards(tag + suffix, RHEADER, [t for _, t in rel], ctype, expr, shard=40)
            errors += errs
            for idx, code in bad:
                codes[rel[idx][0]] = code
    mixes = [(i, nsmix_term(c, r)) for i, (c, r) in enumerate(zip(cases, impl)) if c["type"] == "nsmix"]
    if mixes:
        bad, errs = core.coq_shards(tag + "x", MXHEADER, [t for _, t in mixes], "mcase", "mxbad cases", shard=40)
        errors += errs
        for idx, code in bad:
            codes[mixes[idx][0]] = code
    if subs:
        bad, errs = core.coq_shards(tag + "u", SHEADER, [t for _, t in subs], "scase", "sbad cases", shard=16)
        errors += errs
        for idx, code in bad:
            codes[subs[idx][0]] = code
    if nsps:
        bad, errs = core.coq_shards(tag + "n", NHEADER, [t for _, t in nsps], "ncase", "nbad cases", shard=16)
        errors += errs
        for idx, code in bad:
            codes[nsps[idx][0]] = code
    if progs:
        # balance the shards: the cost of a program grows with the square of its length (every live set is dumped after every
        # operation); deal the programs, longest first, round-robin over the shards
        nsh = -(-len(progs) // 24)
        progs.sort(key=lambda it: (-len(cases[it[0]]["ops"]), it[0]))
        progs = [p for k in range(nsh) for p in progs[k::nsh]]
        bad, errs = core.coq_shards(tag, HEADER, [t for _, t in progs], "tcase", "bad cases", shard=24)
        errors += errs
        for idx, code in bad:
            codes[progs[idx][0]] = code
    if metas:
        bad, errs = core.coq_shards(tag + "m", HEADER, [t for _, t in metas], "mcase", "mbad cases", shard=400)
        errors += errs
        for idx, code in bad:
            codes[metas[idx][0]] = code
    if want_diag:
        failing = sorted((i for i, _ in progs + nsps + subs if codes[i]), key=lambda i: (codes[i] < 2, len(cases[i]["ops"])))[:6]
        terms = dict(progs + nsps + subs)
        for i in failing:
            t = terms[i]
            if codes[i]:
                if cases[i]["type"] == "nssub":
                    text = SHEADER + f"\nDefinition c : scase := {t}.\nSet Printing Width 100000.\nEval vm_compute in (sdiag c).\n"
                elif cases[i]["type"] == "nsprog":
                    text = NHEADER + f"\nDefinition c : ncase := {t}.\nSet Printing Width 100000.\nEval vm_compute in (ndiag c).\n"
                else:
                    text = HEADER + f"\nDefinition c : tcase := {t}.\nSet Printing Width 100000.\nEval vm_compute in (diag c).\n"
                rc, out = core.coq_eval_file(f"{tag}d_{i}", text, timeout=300)
                vals = core.parse_evals(out)
                diags[i] = vals[0] if vals else out[-300:]
    return codes, errors, impl, diags


# ------------------------------------------------------------------ shrinking


def uses(o):
    vs = []
    if o["op"] == "new" and o["init"] is not None:
        vs.append(o["init"])
    if "x" in o:
        vs.append(o["x"])
    if "b" in o and "ra" in o["b"]:
        vs.append(o["b"]["ra"])
    return vs


def op_nss(o):
    """the namespace operands of an operation (the lists themselves)"""
    return o.get("nss", []) + ([o["a"]] if "a" in o else []) + ([o["b"]["ns"]] if "b" in o and "ns" in o["b"] else [])


def drop_op(case, t):
    """the program without operation t, or None when a later operation uses its result"""
    if any(t in uses(o) for o in case["ops"][t + 1:]):
        return None
    c = copy.deepcopy(case)
    del c["ops"][t]
    del c["probes"][t]
    for o in c["ops"][t:]:
        if o["op"] == "new" and o["init"] is not None and o["init"] > t:
            o["init"] -= 1
        if "x" in o and o["x"] > t:
            o["x"] -= 1
        if "b" in o and "ra" in o["b"] and o["b"]["ra"] > t:
            o["b"]["ra"] -= 1
    return c


def first_failing_step(diag):
    steps = [int(a) for a, b in core.parse_nat_pairs(diag or "") if int(b) >= 10]
    return min(steps) if steps else None


def shrink(case, diag=None, rounds=25):
    cur = case
    t = first_failing_step(diag)
    if t is not None and t + 1 < len(case["ops"]):
        c = copy.deepcopy(case)
        c["ops"], c["probes"] = c["ops"][:t + 1], c["probes"][:t + 1]
        codes, errors, _, _ = evaluate([c], tag="c16s")
        if codes[0] >= 2 and not errors:
            cur = c
    for _ in range(rounds):
        cands = [c for c in (drop_op(cur, t) for t in range(len(cur["ops"]))) if c and c["ops"]]
        # simplify: fewer probes, drop the last class when unused
        if any(cur["probes"]):
            c = copy.deepcopy(cur)
            c["probes"] = [[] for _ in c["ops"]]
            cands.append(c)
        last = len(cur["par"]) - 1
        used = {0}
        for o in cur["ops"]:
            used |= {o.get("cls", 0), o.get("rc", 0)}
            for n in o.get("nss", []) + ([o["a"]] if "a" in o else []) + ([o["b"]["ns"]] if "b" in o and "ns" in o["b"] else []):
                used.add(n[0])
        for pr in cur["probes"]:
            used |= {n[0] for n in pr}
        if last >= 1 and last not in used and last not in cur["par"][1:]:
            c = copy.deepcopy(cur)
            c["par"].pop()
            c["nsd"].pop()
            if "mix" in c:
                c["mix"].pop()
            cands.append(c)
        if any(any(m[:3]) for m in cur.get("mix", [])):
            cands += [c for c in shrink_mix(cur) if c["mix"] != cur["mix"]]
        # namespace subclasses: instances of the associated class itself instead (all, then one by one)
        tagged = [(t, i) for t, o in enumerate(cur["ops"]) for i, n in enumerate(op_nss(o)) if ns_tag(n)]
        for sel in ([tagged] if len(tagged) > 1 else []) + [[x] for x in tagged]:
            c = copy.deepcopy(cur)
            for t, i in sel:
                del op_nss(c["ops"][t])[i][2:]
            cands.append(c)
        if not cands:
            break
        codes, errors, _, _ = evaluate(cands, tag="c16s")
        nxt = next((c for c, code in zip(cands, codes) if code >= 2), None)
        if nxt is None or errors:
            break
        cur = nxt
    return cur


def ns_drop_op(case, t):
    """the namespace program without operation t, or None when a later operation uses its result"""
    r = len(case["cl"]) + t
    if any(o.get("x") == r for o in case["ops"][t + 1:]):
        return None
    c = copy.deepcopy(case)
    del c["ops"][t]
    for o in c["ops"][t:]:
        if o.get("x", 0) > r:
            o["x"] -= 1
    return c


def shrink_ns(case, diag=None, rounds=25):
    cur = case
    t = first_failing_step(diag)
    if t is not None and t + 1 < len(case["ops"]):
        c = copy.deepcopy(case)
        c["ops"] = c["ops"][:t + 1]
        codes, errors, _, _ = evaluate([c], tag="c16s")
        if codes[0] >= 2 and not errors:
            cur = c
    for _ in range(rounds):
        cands = [c for c in (ns_drop_op(cur, t) for t in range(len(cur["ops"]))) if c and c["ops"]]
        for t, o in enumerate(cur["ops"]):
            for i in range(len(o.get("kw", []))):           # one keyword less
                c = copy.deepcopy(cur)
                del c["ops"][t]["kw"][i]
                cands.append(c)
            if o.get("pos"):                                # one positional value less
                c = copy.deepcopy(cur)
                c["ops"][t]["pos"].pop()
                cands.append(c)
        ncl = len(cur["cl"])                                # a class no operation touches
        for k in range(ncl):
            if ncl > 1 and not any(o.get("c") == k or o.get("x") == k for o in cur["ops"]) \
                    and not any(o["op"] == "raupd" and o["m"] >= k for o in cur["ops"]):
                c = copy.deepcopy(cur)
                del c["cl"][k]
                for o in c["ops"]:
                    if o.get("x", 0) > k:
                        o["x"] -= 1
                    if o.get("c", 0) > k:
                        o["c"] -= 1
                cands.append(c)
        if ncl > 1:                                         # only the class of the last operation
            o = cur["ops"][-1]
            k = o.get("c") if o["op"] == "ctor" else o.get("x") if o.get("x", ncl) < ncl else None
            if k is not None and len(cur["ops"]) == 1 and o.get("m", k) == k:
                c = copy.deepcopy(cur)
                c["cl"] = [c["cl"][k]]
                c["ops"][0].update({kk: 0 for kk in ("c", "x", "m") if kk in o})
                cands.append(c)
        if not cands:
            break
        codes, errors, _, _ = evaluate(cands, tag="c16s")
        nxt = next((c for c, code in zip(cands, codes) if code >= 2), None)
        if nxt is None or errors:
            break
        cur = nxt
    return cur


def shrink_sub(case, diag=None, rounds=25):
    """smaller failing nssub program: cut after the first failing step, drop operations whose result
    is unused, keywords, positional values, unused subclasses, then turn constructor kinds plain"""
    cur = case
    t = first_failing_step(diag)
    if t is not None and t + 1 < len(case["ops"]):
        c = copy.deepcopy(case)
        c["ops"] = c["ops"][:t + 1]
        codes, errors, _, _ = evaluate([c], tag="c16s")
        if codes[0] >= 2 and not errors:
            cur = c
    for _ in range(rounds):
        cands = [c for c in (ns_drop_op(cur, t) for t in range(len(cur["ops"]))) if c and c["ops"]]
        for t, o in enumerate(cur["ops"]):
            for i in range(len(o.get("kw", []))):
                c = copy.deepcopy(cur)
                del c["ops"][t]["kw"][i]
                cands.append(c)
            if o.get("pos"):
                c = copy.deepcopy(cur)
                c["ops"][t]["pos"].pop()
                cands.append(c)
        ncl = len(cur["cl"])
        for k in range(len(cur["subs"])):                   # a subclass no operation instantiates
            if not any(o["op"] == "new" and o["s"] == ncl + k for o in cur["ops"]):
                c = copy.deepcopy(cur)
                del c["subs"][k]
                for o in c["ops"]:
                    if o["op"] == "new" and o["s"] > ncl + k:
                        o["s"] -= 1
                cands.append(c)
        for k, (b, d) in enumerate(cur["subs"]):            # a simpler constructor
            if d[0] in ("preset", "force") and len(d[1]) > 1:
                for i in range(len(d[1])):
                    c = copy.deepcopy(cur)
                    del c["subs"][k][1][1][i]
                    cands.append(c)
        if not cands:
            break
        codes, errors, _, _ = evaluate(cands, tag="c16s")
        nxt = next((c for c, code in zip(cands, codes) if code >= 2), None)
        if nxt is None or errors:
            break
        cur = nxt
    return cur


def describe_sub(case):
    ncl = len(case["cl"])
    base, descs = sub_tables(case)
    unk = ["bogus", None, "F0", "f0_", "fields", "as_dict"]

    def name(j, nf):
        if j < nf:
            return f"f{j}"
        k = j - nf
        return (unk[k] or f"f{nf}") if k < len(unk) else f"x{k}"

    def kws(kw, c):
        nf = len(case["cl"][c]) if c is not None and c < ncl else 0
        return ", ".join(f"{name(j, nf)}={pyval(v)}" for j, v in kw)

    def var(x):
        return f"D{x}" if x < ncl else f"r{x - ncl}"

    def cname(s):
        return f"A{s}" if s < ncl else f"S{s - ncl}" if s < len(base) else "K?"

    def R(m):
        return f"R{m}"
    cls_of = list(range(ncl))
    out = []
    for o in case["ops"]:
        k = o["op"]
        if k == "new":
            s = o["s"]
            c = base[s] if s < len(base) else None
            cls_of.append(c)
            own = s < len(base) and descs[s][0] == "renamed"
            kw = ", ".join(f"p{j}={pyval(v)}" for j, v in o["kw"]) if own else kws(o["kw"], c)
            out.append(f"{cname(s)}({', '.join([pyval(v) for v in o['pos']] + ([kw] if kw else []))})")
            continue
        c = cls_of[o["x"]] if o["x"] < len(cls_of) else None
        cls_of.append(c)
        rc = "R?" if c is None else f"R{c}"
        if k == "upd":
            out.append(f"{var(o['x'])}.update({kws(o['kw'], c)})")
        elif k == "raupd":
            out.append(f"RenderArgs(R{o['m']}, {var(o['x'])}).update({rc}{', ' if o['kw'] else ''}{kws(o['kw'], c)})[{rc}]")
        else:
            r = o["r"]
            x = var(o["x"])
            e = {"pos": lambda: f"(+{x})", "or": lambda: f"({x} | RenderArgs({R(r[1])}))",
                 "ror": lambda: f"(RenderArgs({R(r[1])}) | {x})", "tora": lambda: f"{x}.to_render_args({R(r[1])})",
                 "conv": lambda: f"RenderArgs({R(r[1])}, {x}).convert({R(r[2])})"}[r[0]]()
            out.append(f"{e}[{rc}]")

    def dsc(k, b, d):
        nf = len(case["cl"][b])
        if d[0] == "plain":
            body = "pass"
        elif d[0] == "preset":
            body = f"def __init__(self): super().__init__({kws(d[1], b)})"
        elif d[0] == "force":
            body = f"def __init__(self, **fields): super().__init__(**{{**fields, **dict({kws(d[1], b)})}})"
        else:
            ps = ", ".join(f"p{j}=MISSING" for j in range(len(d[1])))
            body = (f"def __init__(self{', ' if ps else ''}{ps}): super().__init__(<"
                    + ", ".join(f"{name(f, nf)}=p{j}" for j, f in enumerate(d[1])) + " for the parameters given>)")
        return f"class S{k}(A{b}): {body}"
    classes = "; ".join(f"A{c}({', '.join(f'f{j}={pyval(v)}' for j, v in enumerate(d))}) for R{c}" for c, d in enumerate(case["cl"]))
    subs = "; ".join(dsc(k, b, d) for k, (b, d) in enumerate(case["subs"]))
    return (f"namespace classes [{classes}] (R0 <- R1 <- ..; D<c> = the shared default instance of A<c>, "
            f"r<t> = result of operation t) subclasses [{subs}] ops=[{'; '.join(out)}]")


PYVAL = {"n": "None", "e": "...", "t": "()"}


def pyval(v):
    if v[0] in PYVAL:
        return PYVAL[v[0]]
    if v[0] == "b":
        return str(bool(v[1]))
    if v[0] == "f":
        return f"{v[1]}.0"
    if v[0] == "s":
        return repr(["", "x", "0", "None", "f0"][v[1]])
    if v[0] == "nan":
        return f"nan{v[1]}"
    return str(v[1])


def describe_ns(case):
    ncls = len(case["cl"])
    unk = ["bogus", None, "F0", "f0_", "fields", "as_dict"]

    def name(j, nf):
        if j < nf:
            return f"f{j}"
        k = j - nf
        return (unk[k] or f"f{nf}") if k < len(unk) else f"x{k}"

    cls_of = list(range(ncls))      # class of each env entry, as far as it can be told statically

    def var(x):
        return f"D{x}" if x < ncls else f"r{x - ncls}"

    def kws(kw, c):
        nf = len(case["cl"][c]) if c is not None and c < ncls else 0
        return ", ".join(f"{name(j, nf)}={pyval(v)}" for j, v in kw)

    out = []
    for o in case["ops"]:
        k = o["op"]
        c = o["c"] if k == "ctor" else (cls_of[o["x"]] if o["x"] < len(cls_of) else None)
        cls_of.append(c)
        if k == "ctor":
            args = ", ".join([pyval(v) for v in o["pos"]] + ([kws(o["kw"], c)] if o["kw"] else []))
            out.append(f"A{c}({args})")
        elif k == "upd":
            out.append(f"{var(o['x'])}.update({kws(o['kw'], c)})")
        elif k == "raupd":
            rc = "R?" if c is None else f"R{c}"     # ? = the operand is not a live namespace
            out.append(f"RenderArgs(R{o['m']}, {var(o['x'])}).update({rc}{', ' if o['kw'] else ''}{kws(o['kw'], c)})[{rc}]")
        else:
            nf = len(case["cl"][c]) if c is not None and c < ncls else 0
            out.append(f"{var(o['x'])}.{name(o['j'], nf)}")
    classes = "; ".join(f"A{c}({', '.join(f'f{j}={pyval(v)}' for j, v in enumerate(d))}) for R{c}" for c, d in enumerate(case["cl"]))
    return (f"namespace classes [{classes}] (R0 <- R1 <- ..; D<c> = the shared default instance of A<c>, "
            f"r<t> = result of operation t) ops=[{'; '.join(out)}]")


def describe(case):
    if case["type"] == "intern":
        return describe_intern(case)
    if case["type"] in ("nsexp", "nsvirt"):
        return describe_rel(case)
    if case["type"] == "nsmix":
        return describe_mix(case)
    if case["type"] == "nssub":
        return describe_sub(case)
    if case["type"] == "nsprog":
        return describe_ns(case)
    if case["type"] != "prog":
        return str({k: v for k, v in case.items() if k not in ("extra_kind", "bad_kind")})

    def ns(n):
        # C1.Args(5) or, for an instance of the t-th subclass of C1.Args, C1.Args'1(5)
        return f"C{n[0]}.Args{chr(39) + str(ns_tag(n)) if ns_tag(n) else ''}({', '.join(map(str, n[1]))})"

    def nsl(l):
        return ", ".join(map(ns, l))

    def one(o):
        k = o["op"]
        if k == "new":
            return f"K{o['k']}(C{o['cls']}, {'-' if o['init'] is None else 'r%d' % o['init']}, [{nsl(o['nss'])}])"
        if k == "upd":
            return f"r{o['x']}.update({nsl(o['nss'])})"
        if k == "updf":
            return f"r{o['x']}.update(C{o['rc']}, {o['fields']})"
        if k == "conv":
            return f"r{o['x']}.convert(C{o['rc']})"
        if k in ("or", "ror"):
            b = ns(o["b"]["ns"]) if "ns" in o["b"] else "r%d" % o["b"]["ra"]
            return f"{ns(o['a'])} | {b}" if k == "or" else f"{b} |' {ns(o['a'])}"
        if k == "pos":
            return f"+{ns(o['a'])}"
        return f"{ns(o['a'])}.to_render_args(C{o['rc']})"
    stm = ""
    if any(any(m[:3]) for m in case.get("mix", [])):
        stm = " class statements with plain mix-in classes: " + "; ".join(
            class_stmt(case["par"], case["mix"], c) for c in range(1, len(case["par"])) if any(case["mix"][c][:3])) + ";"
    return f"parents={case['par']} args_defaults={case['nsd']}{stm} kinds={case['nk']} ops=[{'; '.join(map(one, case['ops']))}]"


def canon(case):
    c = copy.deepcopy(case)
    if c["type"] == "prog":
        c.pop("probes", None)
        for o in c["ops"]:
            o.pop("pres", None)
    return c


def run(ctx):
    rng = ctx.rng
    if ctx.replay:
        cases = [ctx.replay["replay"]["case"]]
        ncorpus = 0
    else:
        np_, ns_, nct, nr, nnp = (300, 260, 160, 40, 160) if ctx.quick else (6000, 3000, 1500, 200, 4000)
        corpus = list(CORPUS) + list(STMT_CORPUS) + list(NS_CORPUS) + list(SUB_CORPUS)
        ncorpus = len(corpus)
        cases = corpus + [gen_prog(rng, 30 if i % 3 else 8) for i in range(np_)]
        cases += [gen_stmt(rng) for _ in range(ns_)] + [gen_ctor(rng) for _ in range(nct)]
        cases += [gen_rend(rng) for _ in range(nr)]
        # its own stream: the programs above are the same with or without this family
        import random
        nrng = random.Random(rng.getrandbits(64))
        cases += [gen_nsprog(nrng, 12 if i % 4 else 4) for i in range(nnp)]
        srng = random.Random(nrng.getrandbits(64) ^ 0x5B)
        cases += [gen_nssub(srng, 10 if i % 4 else 4) for i in range(120 if ctx.quick else 3000)]
        cases += intern_cases(ctx.quick, random.Random(srng.getrandbits(64) ^ 0x1D))
        # its own stream again: what ==/hash/compatibility read (overridden exports, virtual subclassing)
        rrng = random.Random(srng.getrandbits(64) ^ 0x2E)
        ncorpus_rel = len(NSEXP_CORPUS) + len(NSVIRT_CORPUS)
        cases += list(NSEXP_CORPUS) + list(NSVIRT_CORPUS)
        cases += [gen_nsexp(rrng) for _ in range(20 if ctx.quick else 400)]
        cases += [gen_nsvirt(rrng) for _ in range(16 if ctx.quick else 300)]
        # its own stream: the product (kind of initial set) x (its class relation to the target) x (what follows), and
        # render class statements listing plain mix-in classes (the program family on them + the MRO / hierarchy probe)
        xrng = random.Random(rrng.getrandbits(64) ^ 0x3F)
        cases += list(INIT_CORPUS) + list(MIX_PROG_CORPUS) + list(NSMIX_CORPUS)
        cases += [gen_initprod(xrng) for _ in range(3 if ctx.quick else 150)]
        for i in range(12 if ctx.quick else 600):
            c = gen_prog(xrng, 12 if i % 3 else 6)
            c["mix"] = gen_mix(xrng, c["par"])
            cases.append(c)
        cases += [gen_nsmix(xrng) for _ in range(10 if ctx.quick else 400)]
        if os.environ.get("VERIF_C16_INIT_FAMILY") == "1":
            # NOT part of the registered check: the initial-set argument with virtual subclassing (see
            # pending_fixes/C16_virtual_subclass_init_render_args.*)
            cases += nsvirt_corpus("init") + [gen_nsvirt(rrng, "init") for _ in range(16 if ctx.quick else 300)]
    codes, errors, impl, diags = evaluate(cases, want_diag=True)
    hist = {"case_types": {}, "classes": {}, "ops_len": {}, "op_kinds": {}, "op_outcomes": {},
            "results_aliasing_an_existing_object": 0, "results_new_object": 0,
            "empty_namespace_constructor_calls": 0, "objects_live_at_end": {},
            "programs_with_gap_classes": 0, "ops_targeting_a_gap_class": {},
            "ok_results_for_a_gap_class_with_nondefault_inherited_namespace": 0,
            "convert_up_to_gap_class_from_set_with_nondefault_inherited_namespace": 0,
            "namespace_operands_by_class_tag": {}, "namespace_instances_seen": 0,
            "equal_namespace_instance_pairs_of_different_classes": 0,
            "equal_set_pairs_holding_instances_of_different_classes": 0,
            "programs_with_equal_objects_built_from_different_namespace_classes": 0,
            "stmt_outcomes": {}, "ctor_outcomes": {}, "rend_outcomes": {},
            "nsprog": {"op_kinds": {}, "op_outcomes": {}, "ops_len": {}, "classes": {},
                       "ctor_calls_by_positional_count_minus_field_count": {},
                       "calls_with_an_unknown_keyword_by_value_kind": {},
                       "calls_with_an_unknown_keyword_by_route": {},
                       "unknown_keyword_next_to_known_keywords": 0,
                       "unknown_keyword_next_to_full_positional_list": 0,
                       "known_field_values_given_by_kind": {},
                       "known_field_given_its_current_value": 0,
                       "equal_instance_pairs": 0, "equal_instance_pairs_with_values_of_different_types": 0,
                       "instances_holding_a_nan_like_value": 0, "update_without_fields": 0},
            "intern": {"scenarios": 0, "park_positions": 0, "positions_per_scenario": {}, "chain_depth": {},
                       "namespace_owners_in_chain": {}, "parked_request/complete_request": {},
                       "park_point_state(class in _interned, object built)": {}, "park_point_function": {},
                       "same_object(0,1)/(0,2)/(1,2)": {}},
            "nssub": {"subclass_kinds": {}, "op_kinds": {}, "op_outcomes": {}, "ops_len": {},
                      "constructed_by_kind": {}, "copying_route_by_kind_of_operand_class": {},
                      "copies_made_by_update_by_kind": {}, "copies_of_copies": 0},
            "exports": {"cases": 0, "instances_by_class_kind": {}, "equal_pairs_of_instances_of_different_classes": 0,
                        "equal_pairs_with_different_as_dict_values": 0, "equal_set_pairs_over_all_routes": 0},
            "initial_set(kind / class relation to the target / what follows -> outcome)": {},
            "mixins": {"programs_on_classes_with_mixins": 0, "hierarchy_probe_cases": 0,
                       "class_statements_by_shape(before,after,between)": {}, "classes_below_a_mixin_before_its_render_base": 0},
            "virtual": {"cases": 0, "family": {}, "registrations": {}, "probes_by_route": {},
                        "probes_by_relation(inheritance/registration only/none)": {}, "probe_outcomes": {}}}
    distinct = set()
    ndistinct = set()
    sdistinct = set()
    idistinct = set()
    rdistinct = set()
    xdistinct = set()

    def bump(d, k):
        d[k] = d.get(k, 0) + 1
    for c, r in zip(cases, impl):
        bump(hist["case_types"], c["type"])
        if c["type"] == "prog":
            bump(hist["classes"], len(c["par"]))
            bump(hist["ops_len"], min(len(c["ops"]) // 5 * 5, 30))
            seen, alias = 0, 0
            gaps = gap_classes(c["par"], c["nsd"])
            hist["programs_with_gap_classes"] += bool(gaps)

            def nondefault_inherited(entry, g):
                """the dumped set holds a non-default namespace for an ancestor of class g"""
                return any(anc(c["par"], n[0], g) and list(n[1]) != list(c["nsd"][n[0]]) for n in entry[2])
            if any(any(m[:3]) for m in c.get("mix", [])):
                hist["mixins"]["programs_on_classes_with_mixins"] += 1
                mix_stats(hist["mixins"], c["par"], c["mix"], bump)
                xdistinct.add(core.sig(canon(c)))
            for t, (o, b) in enumerate(zip(c["ops"], r["obs"])):
                if o["op"] == "new":
                    key = init_bucket(c, r, t)
                    bump(hist["initial_set(kind / class relation to the target / what follows -> outcome)"], key)
                    if key.startswith(("interned default", "BASE")) and "sibling" in key and "no namespace" not in key:
                        xdistinct.add(core.sig(canon(c)))
            for o, b in zip(c["ops"], r["obs"]):
                bump(hist["op_kinds"], o["op"])
                bump(hist["op_outcomes"], "ok" if b["res"] >= 0 else f"err{-1 - b['res']}")
                if o["op"] == "new" and not o["nss"]:
                    hist["empty_namespace_constructor_calls"] += 1
                for n in op_nss(o):
                    bump(hist["namespace_operands_by_class_tag"], ns_tag(n))
                if o.get("cls", o.get("rc")) in gaps:
                    bump(hist["ops_targeting_a_gap_class"], o["op"])
                if b["res"] >= 0 and b["dump"][b["res"]][1] in gaps and nondefault_inherited(b["dump"][b["res"]], b["dump"][b["res"]][1]):
                    hist["ok_results_for_a_gap_class_with_nondefault_inherited_namespace"] += 1
                if o["op"] == "conv" and o["rc"] in gaps and b["res"] >= 0 and o["x"] < len(r["obs"]) and r["obs"][o["x"]]["res"] >= 0:
                    src = b["dump"][r["obs"][o["x"]]["res"]]
                    if src[1] != o["rc"] and anc(c["par"], o["rc"], src[1]) and nondefault_inherited(src, o["rc"]):
                        hist["convert_up_to_gap_class_from_set_with_nondefault_inherited_namespace"] += 1
            fin = r["fin"]
            hist["namespace_instances_seen"] += len(fin["ns"])
            mixed = sum(1 for i, row in enumerate(fin["nseq"]) for j, e in enumerate(row)
                        if i < j and e and fin["ns"][i][2] != fin["ns"][j][2])
            last = r["obs"][-1]["dump"] if r["obs"] else []
            mixed_sets = sum(1 for i, row in enumerate(fin["eq"]) for j, e in enumerate(row)
                             if i < j and e and [n[2] for n in last[i][2]] != [n[2] for n in last[j][2]])
            hist["equal_namespace_instance_pairs_of_different_classes"] += mixed
            hist["equal_set_pairs_holding_instances_of_different_classes"] += mixed_sets
            hist["programs_with_equal_objects_built_from_different_namespace_classes"] += bool(mixed or mixed_sets)
            for o, b in zip(c["ops"], r["obs"]):
                if b["res"] >= 0:
                    if b["res"] < seen:
                        alias += 1
                    seen = max(seen, b["res"] + 1)
            hist["results_aliasing_an_existing_object"] += alias
            hist["results_new_object"] += seen
            bump(hist["objects_live_at_end"], min(seen // 5 * 5, 30))
            # non-trivial: >= 3 classes, >= 4 ops, some result aliasing an existing object
            # (an interning shortcut was taken) and some operation using an earlier result
            if len(c["par"]) >= 3 and len(c["ops"]) >= 4 and alias and any(uses(o) for o in c["ops"]):
                distinct.add(core.sig(canon(c)))
        elif c["type"] == "nsprog":
            nh = hist["nsprog"]
            cl = c["cl"]
            bump(nh["classes"], len(cl))
            bump(nh["ops_len"], min(len(c["ops"]) // 4 * 4, 40))
            cls_of = list(range(len(cl)))
            cur = [list(d) for d in cl]          # value lists of the env entries, as observed
            interesting = False
            for o, b in zip(c["ops"], r["obs"]):
                k = o["op"]
                bump(nh["op_kinds"], k)
                bump(nh["op_outcomes"], "ok" if b["res"] >= 0 else "value" if b["res"] == -100 else f"err{-1 - b['res']}")
                cc = o["c"] if k == "ctor" else (cls_of[o["x"]] if o["x"] < len(cls_of) else None)
                xf = cur[o["x"]] if k != "ctor" and o["x"] < len(cur) else None
                cls_of.append(cc if b["res"] >= 0 else None)
                cur.append(b["dump"][b["res"]][1] if b["res"] >= 0 else None)
                if cc is None or cc >= len(cl):
                    continue
                nf = len(cl[cc])
                if k == "ctor":
                    bump(nh["ctor_calls_by_positional_count_minus_field_count"], len(o["pos"]) - nf)
                kw = o.get("kw", [])
                if k in ("upd", "raupd") and not kw:
                    nh["update_without_fields"] += 1
                unk = [p for p in kw if p[0] >= nf]
                for j, v in unk:
                    bump(nh["calls_with_an_unknown_keyword_by_value_kind"], v[0] + (str(v[1]) if v[0] in "ibfs" else ""))
                if unk:
                    interesting = True
                    bump(nh["calls_with_an_unknown_keyword_by_route"], k)
                    nh["unknown_keyword_next_to_known_keywords"] += any(p[0] < nf for p in kw)
                    nh["unknown_keyword_next_to_full_positional_list"] += k == "ctor" and len(o["pos"]) == nf
                for j, v in kw:
                    if j < nf:
                        bump(nh["known_field_values_given_by_kind"], v[0])
                        if xf is not None and j < len(xf) and xf[j] == v:
                            nh["known_field_given_its_current_value"] += 1
            last = r["obs"][-1]["dump"] if r["obs"] else r["init"]
            nh["instances_holding_a_nan_like_value"] += sum(1 for d in last if any(v[0] == "nan" for v in d[1]))
            for i, row in enumerate(r["fin"]):
                for j, e in enumerate(row):
                    if i < j and e:
                        nh["equal_instance_pairs"] += 1
                        nh["equal_instance_pairs_with_values_of_different_types"] += any(
                            a[0] != b_[0] for a, b_ in zip(last[i][1], last[j][1]))
            # non-trivial: some call carries an unknown keyword and some call is accepted
            if interesting and any(b["res"] >= len(cl) for b in r["obs"]):
                ndistinct.add(core.sig(c))
        elif c["type"] == "nssub":
            sh = hist["nssub"]
            ncl = len(c["cl"])
            sbase, sdescs = sub_tables(c)
            for _, d in c["subs"]:
                bump(sh["subclass_kinds"], d[0])
            bump(sh["ops_len"], min(len(c["ops"]) // 4 * 4, 40))
            kind_of = ["plain-associated"] * ncl      # constructor kind of the class of each env entry
            copy_of = [False] * ncl
            copied = set()
            for o, b in zip(c["ops"], r["obs"]):
                k = o["op"]
                bump(sh["op_kinds"], k if k != "hold" else "hold:" + o["r"][0])
                bump(sh["op_outcomes"], "ok" if b["res"] >= 0 else f"err{-1 - b['res']}")
                ok = b["res"] >= 0
                if k == "new":
                    kd = sdescs[o["s"]][0] if o["s"] < len(sdescs) else None
                    if o["s"] < ncl:
                        kd = "plain-associated"
                    kind_of.append(kd if ok else None)
                    copy_of.append(False)
                    if ok:
                        bump(sh["constructed_by_kind"], kd)
                    continue
                xk = kind_of[o["x"]] if o["x"] < len(kind_of) else None
                kind_of.append(xk if ok else None)
                newobj = ok and k in ("upd", "raupd") and o["kw"]
                copy_of.append(bool(newobj))
                if xk is not None:
                    bump(sh["copying_route_by_kind_of_operand_class"], f"{k if k != 'hold' else o['r'][0]}:{xk}")
                    if newobj:
                        bump(sh["copies_made_by_update_by_kind"], xk)
                        copied.add(xk)
                        sh["copies_of_copies"] += bool(copy_of[o["x"]])
            # non-trivial: an update made a copy of an instance of a class with its OWN constructor
            if copied - {"plain", "plain-associated"}:
                sdistinct.add(core.sig(c))
        elif c["type"] == "intern":
            ih = hist["intern"]
            ih["scenarios"] += 1
            ih["park_positions"] += len(r["obs"])
            bump(ih["positions_per_scenario"], r["n"])
            bump(ih["chain_depth"], len(c["ns"]))
            bump(ih["namespace_owners_in_chain"], sum(c["ns"]))
            bump(ih["parked_request/complete_request"], f"{REQ_NAMES[c['req0']]} / {REQ_NAMES[c['req1']]}")
            for o in r["obs"]:
                bump(ih["park_point_state(class in _interned, object built)"], f"{o['pub']},{o['built']}")
                bump(ih["park_point_function"], o["where"].split(":")[0])
                bump(ih["same_object(0,1)/(0,2)/(1,2)"], "".join("TF"[not x] for x in o["same"]))
                # non-trivial: both requests built an object of their own (the window between allocation and publication)
                if o["res"][0] is not None and o["res"][1] is not None and not o["same"][0]:
                    idistinct.add(core.sig({**c, "k": o["k"]}))
        elif c["type"] == "nsexp":
            eh = hist["exports"]
            eh["cases"] += 1
            for i in c["inst"]:
                bump(eh["instances_by_class_kind"], i[1][0])
            n = len(c["inst"])
            mixed = [(i, j) for i in range(n) for j in range(i + 1, n) if r["ns"]["eq"][i][j] and c["inst"][i][1] != c["inst"][j][1]]
            eh["equal_pairs_of_instances_of_different_classes"] += len(mixed)
            differ = sum(1 for i, j in mixed if r["exports"][i] != r["exports"][j])
            eh["equal_pairs_with_different_as_dict_values"] += differ
            eh["equal_set_pairs_over_all_routes"] += sum(1 for t in r["sets"] for i in range(n) for j in range(i + 1, n) if t["eq"][i][j])
            # non-trivial: two EQUAL instances whose classes export different values
            if differ:
                rdistinct.add(core.sig(c))
        elif c["type"] == "nsmix":
            hist["mixins"]["hierarchy_probe_cases"] += 1
            mix_stats(hist["mixins"], c["par"], c["mix"], bump)
            # non-trivial: a class with namespace-owning proper ancestors after a mix-in in its MRO
            if any(m and [a for a in chain(c["par"], t)[1:] if c["own"][a]] for t, m in enumerate(below_mixin(c["par"], c["mix"]))):
                xdistinct.add(core.sig(c))
        elif c["type"] == "nsvirt":
            vh = hist["virtual"]
            vh["cases"] += 1
            bump(vh["family"], c.get("family", "ns"))
            bump(vh["registrations"], len(c["reg"]))
            nv = 0
            for pr, o in zip(c["probes"], r["probes"]):
                bump(vh["probes_by_route"], (VIRT_INIT_ROUTES if c.get("family") == "init" else VIRT_ROUTES)[pr[0]])
                rel = "inheritance" if anc(c["par"], pr[2], pr[1]) else "registration only" if o["issub"] else "none"
                nv += rel == "registration only"
                bump(vh["probes_by_relation(inheritance/registration only/none)"], rel)
                bump(vh["probe_outcomes"], f"{rel}: " + ("accepted" if o["res"] == 0 else f"err{o['res'] - 1}"))
            # non-trivial: some probe's classes are related by registration only
            if nv:
                rdistinct.add(core.sig(c))
        elif c["type"] == "stmt":
            bump(hist["stmt_outcomes"], r["code"])
        elif c["type"] == "ctor":
            bump(hist["ctor_outcomes"], r["code"])
        else:
            bump(hist["rend_outcomes"], str(r["accepted"]))
    mismatches, failures = [], []
    order = sorted((i for i, code in enumerate(codes) if code),
                   key=lambda i: (codes[i] < 2, len(cases[i].get("ops", []))))
    nfail = sum(1 for i in order if codes[i] >= 2)
    # at most two scenarios of interleaved requests among the six reported cases (they sort first: no ops)
    inter = [i for i in order if cases[i]["type"] == "intern"]
    order = [i for i in order if i not in set(inter[2:])]
    for i in order[:6]:
        code = codes[i]
        c = cases[i]
        if code >= 2 and c["type"] == "intern":
            # smallest failing scenario of this kind: the first position contradicting the rule
            k = c["k"] if c["k"] != "all" else next(k for k, cd in diags[i] if cd >= 2)
            small = {**c, "k": k}
            codes2, _, impl2, diags2 = evaluate([small], tag="c16r")
            obs = impl2[0]["obs"][0] if impl2[0]["obs"] else None
            failures.append({"signature": core.sig(canon(small)),
                             "what": "interleaved requests for the shared default set of one class: a returned set is not the "
                                     "complete default set (icheck code %d; %d position(s) of this scenario contradict the rule): %s"
                                     % (codes2[0], sum(1 for _, cd in diags[i] if cd >= 2), describe_intern(small, obs)),
                             "replay": {"case": small, "observed": impl2[0], "code": codes2[0]}})
            continue
        if code >= 2 and c["type"] == "nsmix":
            small = c
            if not ctx.replay:
                cands = shrink_mix(c)
                ccodes = evaluate(cands, tag="c16s")[0] if cands else []
                small = next((cc for cc, cd in zip(cands, ccodes) if cd >= 2), c)
            codes2, _, impl2, _ = evaluate([small], tag="c16r")
            failures.append({"signature": core.sig(canon(small)),
                             "what": "the hierarchy of a render class (the classes whose namespaces a set holds / accepts) is the class and its "
                                     "ancestors BY INHERITANCE, wherever plain mix-in classes stand in the class statements "
                                     f"(check code {codes2[0]}): {describe_mix(small, impl2[0])}",
                             "replay": {"case": small, "observed": impl2[0], "code": codes2[0]}})
            continue
        if code >= 2 and c["type"] in ("nsexp", "nsvirt"):
            small = c
            cands = shrink_rel(c)
            if cands and not ctx.replay:
                ccodes = evaluate(cands, tag="c16s")[0]
                small = next((cc for cc, cd in zip(cands, ccodes) if cd >= 2), c)
            codes2, _, impl2, _ = evaluate([small], tag="c16r")
            what = ("equal namespaces / sets must hash equal whatever public method (as_dict / get_fields / __repr__) a namespace subclass overrides"
                    if c["type"] == "nsexp" else
                    "compatibility is decided by the ANCESTORS BY INHERITANCE of the target class (abc registration adds none)")
            what += f" (check code {codes2[0]}): {describe_rel(small, impl2[0])}"
            failures.append({"signature": core.sig(canon(small)), "what": what,
                             "replay": {"case": small, "observed": impl2[0], "code": codes2[0]}})
            continue
        if code >= 2:
            small = c
            if not failures and not ctx.replay:
                small = (shrink(c, diags.get(i)) if c["type"] == "prog" else shrink_ns(c, diags.get(i)) if c["type"] == "nsprog"
                         else shrink_sub(c, diags.get(i)) if c["type"] == "nssub" else c)
            codes2, _, impl2, diags2 = evaluate([small], tag="c16r", want_diag=True)
            what = ("render-argument program violates the documented rule "
                    if c["type"] == "prog" else
                    "namespace program (constructor / update / RenderArgs.update over the value universe) violates the documented rule "
                    if c["type"] == "nsprog" else
                    "program over namespace SUBCLASSES with their own constructor (update / RenderArgs.update / | / + / convert / "
                    "to_render_args must copy or hold the instance by its FIELDS and keep its class) violates the documented rule "
                    if c["type"] == "nssub" else
                    "namespace/render class statement decided against the documented table ")
            what += f"(failing step/sub-check: {diags2.get(0, '')}): {describe(small)}"
            failures.append({"signature": core.sig(canon(small)), "what": what,
                             "replay": {"case": small, "observed": impl2[0], "code": codes2[0]}})
        elif c["type"] == "intern":
            k0 = diags[i][0][0]
            mismatches.append({"case": describe_intern({**c, "k": k0}, next((o for o in impl[i]["obs"] if o["k"] == k0), None)),
                               "code": code, "diag": f"(position, code): {diags[i][:8]}", "observed": None})
        else:
            mismatches.append({"case": describe(c), "code": code, "diag": diags.get(i, ""),
                               "observed": impl[i] if c["type"] != "prog" else None})
    progs = [c for c in cases if c["type"] == "prog"]
    return {
        "corr_name": "RArgs.step_op (heap model) and RArgs.spec_op (value-level rule) == real RenderArgs/ArgsNamespace "
                     "programs on generated class forests with namespace-class subclasses; == is the structural equivalence and "
                     "equal objects hash equal on every pair of live sets / namespace instances; "
                     "RArgs.ns_meta / ns_ctor / renderable_meta == real class statements; "
                     "RArgsVal.nstep_op (heap of namespace instances) and RArgsVal.spec_nop (field-by-field rule) == real "
                     "ArgsNamespace constructor / update / RenderArgs.update / attribute reads over the value universe; "
                     "RArgsIntern.run code_proto (small-step interning protocol) and RArgsInternTie.ispec == two real interleaved "
                     "first-time requests for the default set of a class, one parked at every line event; "
                     "RArgsRel.x_eq / x_hash HashFields / xset_* (==/hash read class + fields only) == real ==/hash/dict-set membership of instances "
                     "of namespace subclasses overriding as_dict()/get_fields()/__repr__ and of the sets built from them; "
                     "RArgsRel.u_accept ByHierarchy / u_rule (ancestors by inheritance) and RArgsRel.issubclass == real constructor routes / issubclass "
                     "on forests with abc registrations; "
                     "RArgsShape.mro / held SkipNonRender (the MRO walk of RenderableMeta) and RArgsShape.in_hierarchy (ancestors by inheritance) == real "
                     "__mro__ / default sets / constructor outcomes of render classes whose statements list plain mix-in classes",
        "evaluations": len(cases),
        "distinct_nontrivial": len(distinct) + len(ndistinct) + len(sdistinct) + len(idistinct) + len(rdistinct) + len(xdistinct),
        "rule": "corpus + generated programs: forest of 2-8 render classes (depth <= 4, branching <= 3, chains / bushy / random), "
                "45-85% of classes with an Args namespace of 1-3 int fields and, in 60% of the forests with an inner class, a forced "
                "GAP pattern A(args) <- B(no Args of its own) [<- C(args)]; 0-3 SUBCLASSES of every namespace class (child, "
                "grandchild, second child) whose instances are used as operands/probes 45% of the time; 1-3 RenderArgs types, 1-30 "
                "operations (constructor, update in both forms, convert, | and __ror__ with namespace and RenderArgs operands, +, "
                "to_render_args) whose operands are earlier results (80% compatible), constructor calls biased to NO namespaces and "
                "namespace values biased to defaults; gap scenarios (a set for a gap class with NON-default inherited namespaces made "
                "by the constructor / convert up / convert down / init_render_args / | / to_render_args, then converted, updated, "
                "combined, used as init); every live set dumped after every operation, every namespace instance when first seen "
                "and at the end, == of every pair.  Non-trivial program: >= 3 classes, >= 4 "
                "operations, at least one result that IS an earlier object (interning shortcut taken) and one operation using "
                "an earlier result; distinct by program hash.  Plus generated namespace class statements, namespace "
                "constructor calls and render class statements (counted in evaluations, not in distinct_nontrivial).  "
                "NAMESPACE PROGRAMS over the value universe {None, Ellipsis, ints, False/True, 0.0/1.0, '', 'x', (), NaN-like objects "
                "(a float nan / an object whose __eq__ is False)}: 1-3 namespace classes of 1-4 fields (defaults from the universe, None "
                "common) on a chain of render classes, 1-12 operations - constructor with EVERY number of positional values 0..nf+1 and "
                "keywords (40% with 1-2 unknown names out of 7 spellings, each with any value; 12% a field given twice), update(**fields) and "
                "RenderArgs(R_m, ns).update(R_c, **fields)[R_c] on the shared default instances and on earlier results (0-3 known fields "
                "whose value is 30% the current/default value, 15% None, 10% NaN-like, else any; 40% with unknown names at any position "
                "among the keywords), attribute reads (known / unknown names); plus a boundary corpus pairing each of 12 values with an "
                "unknown name on every route (all positional/keyword splits; alone, next to a changing / an unchanged known field, before / "
                "after it) and giving it to a known field by position, keyword and update.  After every operation: every live instance "
                "(as_dict values, attribute values, hash; exact types, NaN-like objects by identity), == of the result with every instance, "
                "get_fields() of every class.  Non-trivial namespace program: some call carries an unknown keyword and some call is "
                "accepted; distinct by program hash (counted in distinct_nontrivial).  "
                "INTERLEAVED FIRST REQUESTS for the default set of one class (type intern): chains of 1-3 fresh render classes (11 patterns of "
                "namespace owners), the parked request RenderArgs(cls) / RenderArgs(cls, None) / RenderArgs(cls, RenderArgs(parent)), the complete "
                "request made in the window one of those or cls(...).render() with no render arguments (quick: every chain pattern with a "
                "seed-rotated request pair; thorough: all 11 x 12), thread 0 parked at EVERY line event it executes inside term_image during its "
                "request (fresh chain per position), the second request's set inspected inside the window, thread 0 released, one more request "
                "afterwards; observed per position: class in _interned / object built at the park point, usability and held defaults of the "
                "three sets, identities, ==/hash.  Non-trivial position: both requests returned usable sets that are different objects (the "
                "window between allocation and publication); distinct by (scenario, position).  "
                "OVERRIDDEN EXPORTS (type nsexp): chains of 1-3 render classes with namespace classes of 1-3 fields (values: ints, bools, integral "
                "floats, None, Ellipsis, strings, ()), 4-7 instances in groups with == field values (0/False/0.0 mixed) spread over the associated "
                "class and subclasses overriding as_dict() (entry added first / last, entries reversed, both) or get_fields() + __repr__; observed: "
                "as_dict().values(), == of every ordered pair, hash, {a: 1}.get(b) / b in {a} / b in [a], and the same tables for the SETS built from "
                "each instance by RenderArgs(R, x), +x, RenderArgs(R) | x, RenderArgs(R).update(x), RenderArgs(parent).convert(R).update(x).  "
                "Non-trivial: two EQUAL instances whose classes export different as_dict() values.  VIRTUAL SUBCLASSING (type nsvirt): forests of 2-5 "
                "render classes (chain / flat / random), >= 2 namespace owners, 1-2 Base.register(Cls) calls (never a cycle), probes (route, target T, "
                "owner C) with a C namespace through RenderArgs(T, ns), RenderArgs(T, None, ns), RenderArgs(T, init, ns), ns.to_render_args(T), "
                "RenderArgs(T).update(ns): all five routes for the first registration-only pair, two routes for the next two, 3 real-ancestor pairs, "
                "2 unrelated pairs; observed: outcome / error, classes the accepted set holds, it holds the given namespace and the base set's "
                "elsewhere, issubclass(T, C), the default sets of all classes afterwards.  Non-trivial: some probe's classes related by registration only.  "
                "INITIAL SET x WHAT FOLLOWS (type prog): a corpus on the forest A <- B <- E, A <- C, D (+ one with gap classes) and generated forests: "
                "the initial sets None, BASE_RENDER_ARGS and, for classes in every relation to the target (same / ancestor / descendant / sibling / "
                "unrelated), the interned default set, an equal set that is not interned and a non-default set, each passed to RenderArgs(target, init, "
                "*follow) with no namespace / compatible namespaces / an incompatible namespace and to a second RenderArgs type; judged like every "
                "program (histogram initial_set(...) counts the product over ALL programs).  MIX-INS: programs (type prog with 'mix', same generator, "
                "<= 12 operations) on forests where 1..all classes list 1-2 plain mix-in classes before the render base / after everything / between the "
                "render base and a second, redundant render base (a proper ancestor), and hierarchy probes (type nsmix: forests of 2-5 classes, >= 2 "
                "namespace owners; observed for every class: __mro__, the classes RenderArgs(T) holds, the outcome of RenderArgs(T, A.Args(7)) for every "
                "owner A).  Non-trivial: a constructor call whose initial set is BASE or an interned default set of a sibling/unrelated class followed by "
                "namespaces; a program / probe on classes with mix-ins (probe: a namespace-owning ancestor stands behind a mix-in in the MRO).",
        "samples": [describe(c) for c in (progs[:1] + progs[len(CORPUS):len(CORPUS) + 3])] + [describe(c) for c in cases if c["type"] == "stmt"][:2]
                   + [describe(c) for c in cases if c["type"] == "nsprog"][len(NS_CORPUS):len(NS_CORPUS) + 2],
        "histogram": hist,
        "extra": {"failing_cases_total": nfail, "nonzero_cases_total": len(order),
                  "distinct_nontrivial_set_programs": len(distinct), "distinct_nontrivial_namespace_programs": len(ndistinct),
                  "distinct_nontrivial_subclass_constructor_programs": len(sdistinct),
                  "distinct_nontrivial_interleaved_request_positions": len(idistinct),
                  "distinct_nontrivial_export_and_virtual_subclass_cases": len(rdistinct),
                  "distinct_nontrivial_initial_set_product_and_mixin_cases": len(xdistinct)},
        "mismatches": mismatches,
        "failures": failures,
        "errors": errors,
        "assumptions": [
            "render classes form a single-inheritance forest under Renderable (issubclass = ancestor-or-self); Renderable itself has no Args",
            "an Args namespace class is associated with a render class before that class is subclassed or used (so _ALL_DEFAULT_ARGS is fixed), as the documentation requires",
            "namespace instances are immutable values (their __setattr__/__delattr__ raise); namespace identity is not modelled, field values are integers",
            "a namespace value is (associated render class, field values) whatever subclass of the associated namespace class it is an instance of "
            "(__eq__/__hash__/__contains__/compatibility read type(ns)._RENDER_CLS and the fields only); the class of an instance is carried "
            "like one more field that update() cannot name (tagged encoding, RArgsTie.v): a set holds the instance it was given and "
            "ArgsNamespace.update builds type(self); namespace subclasses are single-inheritance chains below the associated class that add methods only",
            "RenderArgs objects are only created through the class call (type.__call__ = __new__ then __init__), never by calling __new__/__init__ directly",
            "hash is modelled as the tuple handed to hash(): equal tuples hash equal in CPython",
            "interning protocol: the steps look-up/allocate, test, build, data-init, publish are each atomic (each is one dict/attribute "
            "operation under the GIL, or thread-local); all threads ask for the default set of ONE class; what a built set holds is abstract",
            "namespace programs over values: the universe is {int, bool, integral float, None, Ellipsis, a table of distinct strings, (), "
            "NaN-like objects}; Python's == on it is written out in RArgsVal.py_eq (bool/int/float compare by numeric value, a NaN-like "
            "object is unequal to everything, itself included; the operator has no identity shortcut) and hash is modelled by the key "
            "RArgsVal.hkey (numbers by value, NaN-like objects by identity); all values are hashable; keyword names in one call are "
            "distinct (Python guarantees it); field names are positions, a position past the end is an unknown name",
            "overridden exports: the overrides are field-preserving (every field exported under its name with its value; entries added / reordered); "
            "no NaN-like field values in that family; abc: issubclass as ABCMeta.__subclasscheck__ computes it from MRO, registry and subclasses "
            "(no __subclasshook__), registrations made before the first issubclass call; the init_render_args argument with virtual subclassing is "
            "NOT part of the check (pending_fixes/C16_virtual_subclass_init_render_args.*; VERIF_C16_INIT_FAMILY=1 adds the family)",
            "mix-ins: fresh plain subclasses of object, one per position of a class statement (not shared between statements, no bases or metaclass of "
            "their own); one DIRECT render base per class plus, for the 'between' position, a second redundant render base that is a proper ancestor "
            "of the first; the model's MRO for such statements is validated against the real __mro__ (not derived from a C3 model)",
        ],
        "trusted": [
            "impl driver: public API only (constructors, update, convert, |, +, to_render_args, iteration, item access, ==, hash, in) "
            "except the read of K._interned used for the model-only comparison of the interning tables; "
            "namespace subclasses are created through the namespace metaclass (as a class statement does); "
            "namespace programs: the shared default instance of a class is obtained as RenderArgs(R)[R]; observed values are classified by "
            "exact type and NaN-like objects by identity against the table of objects the driver made",
            "interleaved requests: sys.settrace line events of one thread as pre-emption points (CPython switches threads between bytecodes; "
            "line granularity, C calls are not positions), threading.Event hand-over (no sleeps); reads RenderArgs._interned and the parked "
            "frame's `self` for the model-side comparison",
        ],
    }
