"""C01 — a render output occupies exactly its advertised columns x lines rectangle.

Correspondence (observational + literal): real renders of generated images by BlockImage /
KittyImage / ITerm2Image (every method, style argument, alpha setting, terminal identity),
lexed fail-closed into the tokens of lib/Term.v, compared inside Coq with the token models
(model/Block.v, model/GfxRender.v) and run through the executable render contract
[rect_checkb] at two start positions (the property oracle on the implementation's own
output).

Sessions (round 4): "the render output of an image" is every output an instance hands out, so the
correspondence also drives SESSIONS -- several render requests on ONE instance (str / format /
_renderer, settings varied between them) where some requests are interrupted by an asynchronous
KeyboardInterrupt at the k-th line event inside term_image code (harness/impl/asyncfault.py) or by
an ordinary exception raised by a call the render makes.  Every completed output of a session is
judged exactly like a single render, inside Coq, against the session model
(model/RenderSession.v, model/RenderSessionTie.v: scheck)."""
from __future__ import annotations

import core
import renderlib as R
from props import c01_ident as I
from props import c01_quirk as Q
from props import c01_sessions as S

LEVEL = "proof"
EXTRA_TARGETS = ["model/RenderTie.vo", "model/RenderSessionTie.vo", "model/TermIdentTie.vo", "model/KittyQuirkTie.vo"]

TERMS = {"iterm2": ["konsole", "wezterm", "iterm2", ""], "kitty": [""], "block": [""]}


def gen_case(rng):
    style = rng.choice(["block", "kitty", "kitty", "iterm2", "iterm2", "iterm2"])
    w = rng.choice([1, 1, 2, 3, 5, 8, 12])
    h = rng.choice([1, 1, 2, 3, 4, 8])
    case = {"style": style, "cells": [w, h], "img": R.gen_image(rng, 12, kinds=("random", "runs", "uniform", "alpha-flip", "bands")),
            "alpha": rng.choice(R.ALPHAS), "args": {}}
    if style == "block":
        case["args"]["split_cells"] = rng.random() < 0.3
        case["on_kitty"] = rng.random() < 0.3
        case["term_bg"] = rng.choice([None, [0, 0, 0], [255, 255, 255], [18, 52, 86]])
    else:
        case["cell_size"] = [rng.choice([1, 3, 8, 10, 20]), rng.choice([1, 5, 16, 20, 40])]
        a = case["args"]
        methods = ["lines", "whole", "LINES", "Whole"] + (["anim"] if style == "iterm2" else [])
        if rng.random() < 0.85:
            a["method"] = rng.choice(methods)
        if rng.random() < 0.5:
            a["mix"] = rng.random() < 0.5
        if rng.random() < 0.5:
            a["compress"] = rng.randrange(10)
        if style == "kitty":
            if rng.random() < 0.5:
                a["z_index"] = rng.choice([0, 1, -1, 5, -(2 ** 31) + 1, 2 ** 31 - 1])
            if rng.random() < 0.4:
                a["blend"] = rng.random() < 0.5
            if rng.random() < 0.3:
                case["kitty_version"] = rng.choice([[0, 20, 0], [0, 25, 0], [0, 30, 0]])
        else:
            case["term"] = rng.choice(TERMS["iterm2"])
            if str(a.get("method", "")).lower() == "anim" and rng.random() < 0.6:
                case["img"]["frames"] = rng.choice([2, 3])  # animated source: NATIVE animation
    if rng.random() < 0.1:
        case["via"] = "str"
        case["args"] = {k: v for k, v in case["args"].items() if k in ()}
        case["alpha"] = 0.5 if style == "block" else case["alpha"]
        if style != "block":
            case["via"] = "renderer"
    return case


def corpus():
    cs = []
    for style in ("block", "kitty", "iterm2"):
        for (w, h) in ((1, 1), (1, 3), (4, 1), (3, 2)):
            for term in TERMS[style]:
                methods = [None] if style == "block" else (["lines", "whole"] + (["anim"] if style == "iterm2" else []))
                for m in methods:
                    for mix in ((False,) if style == "block" else (False, True)):
                        c = {"style": style, "cells": [w, h], "alpha": None, "term": term,
                             "img": {"mode": "RGB", "size": [4, 4], "seed": 7, "kind": "runs"}, "args": {}}
                        if m:
                            c["args"]["method"] = m
                            c["args"]["mix"] = mix
                        if style == "kitty":
                            c["args"]["blend"] = not mix
                        cs.append(c)
    # native animation (animated source + ANIM) on every terminal identity
    for term in TERMS["iterm2"]:
        for (w, h) in ((1, 1), (3, 2), (4, 1)):
            for mix in (False, True):
                cs.append({"style": "iterm2", "cells": [w, h], "alpha": None, "term": term,
                           "img": {"mode": "RGB", "size": [4, 4], "seed": 7, "kind": "runs", "frames": 3},
                           "args": {"method": "anim", "mix": mix}})
    # kitty LINES with compression over strips of very different compressibility (flat / noise)
    for level in (1, 4, 9):
        for mode in ("RGB", "RGBA"):
            cs.append({"style": "kitty", "cells": [4, 4], "cell_size": [4, 4], "alpha": 0.5 if mode == "RGBA" else None,
                       "term": "", "img": {"mode": mode, "size": [16, 16], "seed": 5, "kind": "bands"},
                       "args": {"method": "lines", "compress": level}})
    # DYNAMIC size: the advertised size is asked, then the cell size / cell ratio changes (same
    # columns x lines), then the image is rendered: output and advertised size must agree
    for style, dyn, cell in (("kitty", {"pre": {"cell_size": [10, 20]}}, [10, 16]),
                             ("iterm2", {"pre": {"cell_size": [8, 16]}}, [10, 16]),
                             ("block", {"pre": {"ratio": 0.5}, "ratio": 0.4}, [10, 20]),
                             ("block", {"pre": {"ratio": 1.0}, "ratio": 0.5}, [10, 20])):
        cs.append({"style": style, "cells": [0, 0], "cell_size": cell, "alpha": None, "term": "", "dynamic": dyn, "term_size": [24, 10],
                   "img": {"mode": "RGB", "size": [40, 30], "seed": 3, "kind": "runs"},
                   "args": ({"method": "lines"} if style != "block" else {})})
    # the terminal is resized while one render of a dynamically sized image is in progress
    for style in ("block", "kitty", "iterm2"):
        for k0 in ((1, 2, 3) if style == "block" else (1, 2)):
            for other in (([12, 6], [40, 16]) if style == "block" else ([12, 6],)):
                cs.append({"style": style, "cells": [0, 0], "alpha": None, "term": "", "dynamic": {}, "term_size": [24, 10],
                           "resize_during": [k0, other], "img": {"mode": "RGB", "size": [30, 30], "seed": 4, "kind": "runs"},
                           "args": ({"method": "lines"} if style != "block" else {})})
    # kitty transmissions whose base64 payload is an exact multiple of the chunk size (k * 4096):
    # the last chunk must still close the chunked transmission (m=0)
    for (cells, px, mode, alpha) in (([16, 2], [128, 32], "RGB", None), ([8, 2], [64, 32], "RGB", None),
                                     ([6, 2], [48, 32], "RGBA", 0.5), ([12, 1], [96, 16], "RGBA", 0.5)):
        for m in ("lines", "whole"):
            for mix in (False, True):
                cs.append({"style": "kitty", "cells": cells, "cell_size": [8, 16], "alpha": alpha, "term": "",
                           "img": {"mode": mode, "size": px, "seed": 9, "kind": "runs", "alphas": [255]},
                           "args": {"method": m, "compress": 0, "mix": mix}})
    return cs


def nontrivial(c):
    return (c["cells"][0] >= 2 and c["cells"][1] >= 2) or c.get("dynamic") is not None


def run(ctx):
    rng = ctx.rng
    sessions, idents, quirks = [], [], []
    if ctx.replay:
        cases = [ctx.replay["replay"]["case"]]
        if "session" in cases[0]:
            cases, sessions = [], cases
        elif "ident" in cases[0]:
            cases, idents = [], cases
        elif "quirk" in cases[0]:
            cases, quirks = [], cases
    else:
        n = 260 if ctx.quick else 5000
        cases = corpus() + [gen_case(rng) for _ in range(n)]
        # sessions use their own stream (derived from the seed) so that the single-render cases of a
        # seed stay what they were
        srng = __import__("random").Random(rng.getrandbits(64))
        sessions = S.corpus() + [S.gen_session(srng) for _ in range(110 if ctx.quick else 1500)]
        if not ctx.quick:
            sessions += S.every_position(S.small_scenarios())
        # terminal-identity cases: their own stream as well
        irng = __import__("random").Random(rng.getrandbits(64))
        idents = I.corpus() + [I.gen_case(irng) for _ in range(120 if ctx.quick else 2500)]
        # quirk cases (round 9): coverage as the terminal the render is made for shows it; own stream
        qrng = __import__("random").Random(rng.getrandbits(64))
        nq = 50 if ctx.quick else 1500
        quirks = Q.corpus() + [Q.gen_bg_case(qrng) for _ in range(nq)] + [Q.gen_tx_case(qrng) for _ in range(nq)]
    # the identity cases are judged concurrently with the rest (own driver processes, own Coq shards)
    from concurrent.futures import ThreadPoolExecutor
    ipool = ThreadPoolExecutor(max_workers=2)
    ifuture = ipool.submit(I.judge, idents, "c01i") if idents else None
    qfuture = ipool.submit(Q.judge, quirks, "c01q") if quirks else None
    codes, lexerr, impl, errors = R.evaluate(cases, "c01") if cases else ([], [], [], [])
    mismatches, failures = [], []
    hist = {"style": {}, "method": {}, "term": {}, "cells": {}, "alpha": {}}
    distinct = set()
    for c in cases:
        hist["style"][c["style"]] = hist["style"].get(c["style"], 0) + 1
        m = str(c["args"].get("method", "-")).lower()
        hist["method"][m] = hist["method"].get(m, 0) + 1
        hist["term"][c.get("term", "")] = hist["term"].get(c.get("term", ""), 0) + 1
        k = "x".join(map(str, c["cells"]))
        hist["cells"][k] = hist["cells"].get(k, 0) + 1
        hist["alpha"][repr(c.get("alpha"))] = hist["alpha"].get(repr(c.get("alpha")), 0) + 1
        if nontrivial(c):
            distinct.add(core.sig(c))
    for i, c in enumerate(cases):
        if lexerr[i]:
            failures.append({"signature": core.sig(["lex", c["style"], c["args"], c.get("term", ""), lexerr[i][:60]]),
                             "what": f"{lexerr[i]} — {R.describe(c)}", "replay": {"case": c}})
        elif codes[i] & 2:
            if len(failures) < 4:
                why = R.explain(c, impl[i], "c01")
            else:
                why = ""
            failures.append({"signature": core.sig(["rect", c["style"], c["args"], c.get("term", ""), c["cells"]]),
                             "what": f"render violates the rectangle contract (clauses [inside, covered, final cursor, sgr, protocol, modes, #LF, no trailing LF, LF discipline] / first model difference: {why}) — {R.describe(c)}",
                             "replay": {"case": c, "output": impl[i].get("out", "")[:4000]}})
        elif codes[i] & 1:
            mismatches.append({"case": c, "code": codes[i],
                               "explain": R.explain(c, impl[i], "c01") if len(mismatches) < 3 else ""})
    # ---- sessions: every completed render output of every session is judged like a single render
    shist = {"sessions": len(sessions), "requests": 0, "completed": 0, "interrupted_async": 0, "interrupted_raise": 0,
             "fault_not_reached": 0, "interrupted_in": {}, "via": {}, "length": {}}
    if sessions:
        verdicts, simpl, serrors = S.judge(sessions, "c01s")
        errors = errors + serrors
        for c, v, r in zip(sessions, verdicts, simpl):
            shist["length"][len(c["session"])] = shist["length"].get(len(c["session"]), 0) + 1
            seen_cut = False
            for st, sr in zip(c["session"], r.get("session", [])):
                shist["requests"] += 1
                shist["via"][st.get("via")] = shist["via"].get(st.get("via"), 0) + 1
                if "interrupted" in sr:
                    seen_cut = True
                    kind = "interrupted_async" if "async" in st.get("fault", {}) else "interrupted_raise"
                    shist[kind] += 1
                    where = (sr.get("where") or ["-", 0, st.get("fault", {}).get("raise", {}).get("target", "-")])
                    key = f"{where[0]}:{where[2]}"
                    shist["interrupted_in"][key] = shist["interrupted_in"].get(key, 0) + 1
                elif "out" in sr:
                    shist["completed"] += 1
                    if "fault" in st:
                        shist["fault_not_reached"] += 1
                    elif seen_cut:
                        distinct.add(core.sig(["session", c]))
            if S.failing(v):
                if len(failures) < 3:
                    c2, v2, r2 = S.shrink(c, v, r, "c01s")
                    why = v2["lexerr"] or ("render violates the rectangle contract (clauses [inside, covered, final cursor, sgr, "
                                           "protocol, modes, #LF, no trailing LF, LF discipline] / first model difference: "
                                           + S.explain(c2, v2, r2, "c01s") + ")")
                else:
                    c2, v2, r2, why = S.concrete(c, r), v, r, v["lexerr"] or "render violates the rectangle contract"
                j = v2["step"] if v2["step"] is not None else 0
                outs = [sr.get("out", "")[:1500] if "out" in sr else {k: sr[k] for k in sr if k != "toks"}
                        for sr in r2.get("session", [])]
                failures.append({"signature": core.sig(["session", c2]),
                                 "what": f"request {j + 1} of a session on one image instance: {why} — {S.describe(c2, r2)}",
                                 "replay": {"case": c2, "offending_request": j + 1, "session_results": outs}})
            elif v["code"] & 1:
                mismatches.append({"case": S.concrete(c, r), "code": v["code"], "step": v["step"],
                                   "explain": S.explain(c, v, r, "c01s") if len(mismatches) < 3 else ""})
    hist["sessions"] = shist
    # ---- terminal identity: the quirk mode is DETECTED by the library from what the terminal reports, by whatever
    # route; the render is judged under the conventions of the terminal the identity denotes
    ihist = {"cases": len(idents), "style": {}, "terminal": {}, "route": {}, "built": 0, "StyleError": 0, "class": {},
             "kitty_frames": 0}
    if idents:
        iverdicts, iimpl, ierrors = ifuture.result()
        errors = errors + ierrors
        for c, v, r in zip(idents, iverdicts, iimpl):
            ihist["style"][c["style"]] = ihist["style"].get(c["style"], 0) + 1
            t = str(c["ident"].get("name"))
            ihist["terminal"][t] = ihist["terminal"].get(t, 0) + 1
            ops = [op for op in c.get("route", [])]
            forced_last = {}
            for op in ops:
                if op["op"] == "force":
                    forced_last[op["cls"]] = op["val"]
            shape = ("forced " if any(forced_last.values()) else "") + \
                    ("checked-before" if any(op["op"] == "check" for op in ops) else "construction-is-first-use") + \
                    (" cache-cleared" if any(op["op"] == "clear" for op in ops) else "")
            ihist["route"][shape] = ihist["route"].get(shape, 0) + 1
            ihist["class"][c["cls"]] = ihist["class"].get(c["cls"], 0) + 1
            ihist["built" if r.get("built") else "StyleError"] += 1
            ihist["kitty_frames"] += bool(c.get("frame") and r.get("built"))
            if r.get("built") and c.get("route"):
                distinct.add(core.sig(["ident", c]))
            if I.failing(v):
                if sum(1 for f in failures if f.get("kind") == "ident") < 2:
                    c2, v2, r2 = I.shrink(c, v, r, "c01i")
                    why = v2["lexerr"] or ("render violates the rectangle contract UNDER THE CONVENTIONS OF THE TERMINAL THE IDENTITY "
                                           "DENOTES " + I.explain(c2, r2, "c01i"))
                else:
                    c2, v2, r2, why = c, v, r, v["lexerr"] or "render violates the rectangle contract under the terminal's conventions"
                failures.append({"kind": "ident",
                                 "signature": core.sig(["ident", c2["style"], c2["ident"], c2.get("route"), c2["cls"], c2.get("args"),
                                                        c2["cells"], bool(c2.get("frame"))]),
                                 "what": f"{why} — {I.describe(c2, r2)}",
                                 "replay": {"case": c2, "output": r2.get("out", "")[:3000]}})
            elif v["code"] & 1:
                mismatches.append({"case": c, "code": v["code"], "result": {k: r[k] for k in r if k not in ("out", "toks")},
                                   "explain": I.explain(c, r, "c01i") if len(mismatches) < 3 else ""})
    # ---- quirks of the terminal the render is made for: default-background quirk (block), acceptance of each
    # transmission on its own control data (kitty)
    qhist = {"cases": len(quirks), "bg": {"kitty": 0, "kitty_bg_known": 0, "lower_is_default_bg_opaque": 0,
                                          "halfblock_lower_is_default_bg": 0, "alpha_mode": 0},
             "tx": {"lines": 0, "whole": 0, "rgba_render": 0, "compressed": 0, "opaque_line_then_transparency": 0,
                    "transparency_then_opaque_line": 0, "transmissions": 0}}
    if quirks:
        qverdicts, qimpl, qerrors = qfuture.result()
        errors = errors + qerrors
        for c, v, r in zip(quirks, qverdicts, qimpl):
            if c["quirk"] == "bg":
                hb = qhist["bg"]
                known = bool(c["on_kitty"] and c.get("term_bg"))
                hb["kitty"] += bool(c["on_kitty"])
                hb["kitty_bg_known"] += known
                hb["alpha_mode"] += bool(r.get("alpha_mode"))
                rows = R.block_rows(r) if "rgb" in r else []
                hit = [p for row in rows for p in row if list(p[1]) == c["default_bg"] and not (r.get("alpha_mode") and 0 in p[2:])]
                hb["lower_is_default_bg_opaque"] += bool(hit)
                half = bool([p for p in hit if p[0] != p[1]])
                hb["halfblock_lower_is_default_bg"] += half
                if known and half:
                    distinct.add(core.sig(["quirk", c]))
            else:
                ht = qhist["tx"]
                lines = c["args"].get("method", "lines") == "lines"
                ht["lines" if lines else "whole"] += 1
                ht["rgba_render"] += r.get("render_image", {}).get("mode") == "RGBA"
                ht["compressed"] += bool(c["args"].get("compress"))
                ht["transmissions"] += len(r.get("txs", []))
                lo = r.get("line_opaque", [])
                rgba = r.get("render_image", {}).get("mode") == "RGBA"
                ot = rgba and any(a and not b for i, a in enumerate(lo) for b in lo[i + 1:])
                to = rgba and any(b and not a for i, a in enumerate(lo) for b in lo[i + 1:])
                ht["opaque_line_then_transparency"] += bool(ot)
                ht["transparency_then_opaque_line"] += bool(to)
                if ot or to:
                    distinct.add(core.sig(["quirk", c]))
            if Q.failing(v):
                if sum(1 for f in failures if f.get("kind") == "quirk") < 2:
                    c2, v2, r2 = Q.shrink(c, v, r, "c01q")
                    why = v2["lexerr"] or (
                        ("a cell of the rectangle is NOT COVERED ON THE TERMINAL THE RENDER IS MADE FOR: kitty does not paint a "
                         "background colour equal to its default background " if c2["quirk"] == "bg" else
                         "the render AS A KITTY TERMINAL DISPLAYS IT (a transmission whose decoded payload is not s*v*f/8 bytes "
                         "for its own control data is rejected and places nothing) does not cover the rectangle with image ")
                        + "(contract clauses on that view, [covered under the quirk] / accepted per transmission, first model "
                        + "difference: " + Q.explain(r2, "c01q") + ")")
                else:
                    c2, v2, r2, why = c, v, r, v["lexerr"] or "render not covered on the terminal it is made for"
                failures.append({"kind": "quirk", "signature": core.sig(["quirk", c2]),
                                 "what": f"{why} — {Q.describe(c2, r2)}",
                                 "replay": {"case": c2, "output": r2.get("out", "")[:3000]}})
            elif v["code"] & 1:
                mismatches.append({"case": c, "code": v["code"], "explain": Q.explain(r, "c01q") if len(mismatches) < 3 else "",
                                   "what": Q.describe(c, r)})
    ipool.shutdown()
    for f in failures:
        f.pop("kind", None)
    hist["identity"] = ihist
    hist["quirks"] = qhist
    return {
        "corr_name": "Block.render / GfxRender.{kitty,iterm2}_{lines,whole} (token models) == lexed real renders",
        "evaluations": len(cases) + shist["completed"] + ihist["built"] + ihist["StyleError"] + len(quirks),
        "distinct_nontrivial": len(distinct),
        "rule": "corpus (3 styles x 4 sizes x methods x terminal identities x mix) + random cases: image mode/size/content, "
                "cells 1..12 x 1..8 (boundary-seeded w=1, h=1), cell sizes 1..20 x 1..40, method (case variants), mix, "
                "compress 0-9, z-index incl. extremes, blend, alpha {None, thresholds, '#', hex}, terminal identity "
                "{konsole, wezterm, iterm2, other}; each render is lexed, compared with the token model and checked by "
                "rect_checkb at start positions (0,0) and (row 3, left margin 5). Non-trivial: >= 2 columns and >= 2 lines; "
                "distinct by case hash.  SESSIONS: corpus (style x method: [render, interrupted at 30/60/90 %, render], "
                "[interrupted first render, render at another size], [exception out of the n-th buffer write, render, str]) + "
                "random sessions of 2..5 requests on one instance (size / alpha / method / style args / route str, format, "
                "_renderer varied per request; ~65 % of the non-final requests interrupted: asynchronous KeyboardInterrupt at a "
                "uniformly drawn line event inside term_image code, or MemoryError/OSError/ValueError/KeyboardInterrupt out of "
                "the n-th call of StringIO.write, BytesIO.write/read, zlib compress, b64encode, PIL resize/convert/getdata/"
                "tobytes/save/crop, get_fg_bg_colors); thorough: additionally EVERY line event of 13 small scenarios. Every "
                "completed output is judged like a single render (scheck); a session is non-trivial when a completed request "
                "follows an interrupted one.  TERMINAL IDENTITY: corpus (konsole 22.12 / wezterm / iterm2 / konsole 21.12 / xterm x 11 "
                "routes x lines, whole; native anim and str(); kitty 0.30.1 / 0.25.1 / 0.25.0 / 0.19.3 / konsole / no graphics reply / "
                "iterm2 x 6 routes x animation-frame arguments, caller arguments) + random cases: what the terminal reports "
                "(name, version incl. boundary / unknown / unparsable versions; kitty: reply to the graphics query ok / error / DA1 "
                "only / none), a route of 0..4 operations (is_supported() / forced_support = b / _supported = None on GraphicsImage, "
                "the style class, a subclass, a sub-subclass), the class instantiated, method, mix, alpha, size, source; the quirk "
                "mode is never assigned, the library detects it. Non-trivial: built after a non-empty route.  QUIRKS (round 9): (a) block renders of 1..4 x "
                "1..3 cell images whose pixels are drawn per upper / lower position from {the default background colour, one step "
                "away on one channel, another colour} x {opaque, transparent, translucent}, default backgrounds incl. channel "
                "values 0 / 255 (direction of the nudge), on kitty / not, default background known / unknown, alpha None / "
                "threshold / '#' / hex (incl. the default background itself), split cells; corpus: one cell with lower / upper / "
                "both pixels exactly / nearly the default background; judged by quirk_cover_checkb (coverage where a background "
                "equal to kitty's default background paints nothing). Non-trivial: kitty, background known, a half-block cell "
                "whose opaque lower pixel is the default background.  (b) kitty renders of RGBA / RGB images built line by line "
                "(each line opaque / some transparency / fully transparent; opaque lines followed by lines with transparency "
                "and vice versa), LINES / WHOLE, compress 0 / 4 / 9, mix, blend, z-index, alpha threshold / None / '#'; every "
                "transmission is decoded (base64, zlib) and judged on ITS OWN control data; the render is judged as displayed "
                "(gfx_shown_checkb: contract + image coverage on the accepted view). Non-trivial: an RGBA render with an "
                "opaque line before / after a line with transparency.",
        "samples": [R.describe(c) for c in cases[:1] + cases[-3:]] + [S.describe(c) for c in sessions[-2:]]
                   + [I.describe(c) for c in idents[-2:]],
        "histogram": hist,
        "mismatches": mismatches,
        "failures": failures,
        "errors": errors,
        "assumptions": [
            "terminal conventions of lib/Term.v are specification (deferred wrap, LF under ONLCR returns to the left margin, "
            "CUx 0 = 1, kitty C=1/c/r placement, iterm2 cursor after image, doNotMoveCursor)",
            "the render string is drawn with the cursor at the left margin (lm generalises column 0) and default attributes",
            "payload bytes are abstracted to lengths (their content is C03's business)",
            "sessions: interruptions are delivered on line-event boundaries of term_image code (sys.settrace) or as an exception "
            "out of a call the render makes; a request whose injected fault was swallowed by the library counts as completed",
            "terminal identity: what the terminal reports enters through get_terminal_name_version() (the stub of the test-suite) "
            "and, for kitty, through query_terminal's return value; conventions of the terminal kinds (model/TermIdent.v views): "
            "Konsole >= 22.04 puts the cursor at the beginning of the line below an inline image sent without doNotMoveCursor=1; "
            "on WezTerm an image alone does not replace cell contents (mix=False demands erased cells); other identities: lib/Term.v",
            "kitty quirks (model/KittyQuirk.v, specification): a cell background equal to the terminal's default background colour is "
            "not painted (stated by the library's own comment, block.py:84); a transmission whose decoded payload is not s*v*f/8 "
            "bytes for its own f in {24, 32} is rejected and places nothing; the active terminal / its default background enter "
            "through the test-suite stubs (_is_on_kitty, get_fg_bg_colors)",
        ],
        "trusted": ["harness/lexer.py (bytes -> tokens, fail-closed)",
                    "base64 / zlib decoding of kitty payloads in harness/props/c01_quirk.py (decoded byte counts enter Coq)"],
    }
