"""C17 — trimming an image canvas equals cropping what the full canvas shows.

Correspondence: real `UrwidImage(...).render(size)` canvases (Block / Kitty / ITerm2 images,
box and flow sizes, 9 alignments + the defaults, upscale on/off, alpha settings) asked for
sub-rectangles through `content(trim_left, trim_top, cols, rows)` directly and through
urwid's own CompositeCanvas trimming: EVERY sub-rectangle of small canvases (<= 8x6), random
ones of larger canvases.  A case is a HISTORY: one widget (or two widgets sharing one image
object) rendered several times at different sizes, with the requests made on EARLIER canvases
in between and afterwards — a canvas is a snapshot: every request is judged against the
lines / image size / untrimmed rows captured when that canvas was built.  Inside Coq (model/TrimTie.v) the yielded rows are compared with
Trim.content_text / Trim.content_gfx run on the canvas's own lines (which are also checked to
have the shape the theorems quantify over), and — specification side, on the
implementation's own output — with the crop of what the untrimmed canvas shows
(TrimSpec.row_vis / crop), row count, row width, default attributes at the end of every row;
for graphics canvases: exactly the selected lines / blank cells.

Round 4.  (a) SEVERAL REQUESTS IN FLIGHT AT ONCE on one canvas object: k = 2..3 content()
generators created together and advanced by every kind of schedule (lock-step, one ahead, one
after the other, reversed, random, one abandoned half-way and finished last), and the requests
REAL urwid compositions make (nested urwid.Overlay with the image partly covered, urwid.Columns
showing the same widget twice, rendered through CompositeCanvas.content(), every
UrwidImageCanvas.content() call and every next() recorded in urwid's own order): each request's
rows are an ordinary observation judged against the crop of ITS sub-rectangle, and the whole
schedule is replayed on the generator model (model/TrimIter.v) inside Coq.  (b) FAILING RENDERS:
the image's file vanishes / turns into garbage, or its renderer raises, after the widgets were
built (sizing still works), with an error placeholder of every sizing kind installed (box only,
flow only, both, another image widget) or none, the widget used as a flow and as a box widget:
rows() before / after against the canvas render() returns and the rows its content() yields
(model/TrimPlaceholder.v, model/TrimPhTie.v)."""
from __future__ import annotations

import copy

import core
import lexer
import renderlib as R

LEVEL = "proof"
EXTRA_TARGETS = ["model/TrimTie.vo", "model/TrimPhTie.vo", "model/TrimFlowTie.vo"]
HEADER = ("From Coq Require Import List ZArith.\nImport ListNotations.\n"
          "From TI Require Import lib.Term model.Trim model.TrimSpec model.TrimTie.\nFrom Coq Require Import Uint63.\nOpen Scope Z_scope.\n")

PH_HEADER = ("From Coq Require Import List ZArith.\nImport ListNotations.\n"
             "From TI Require Import model.Trim model.TrimPlaceholder model.TrimPhTie.\nOpen Scope Z_scope.\n")

FLOW_HEADER = ("From Coq Require Import List ZArith PrimFloat.\nImport ListNotations.\n"
               "From TI Require Import model.TrimFlowTie.\nOpen Scope Z_scope.\n")

H_CH = ["<", "|", ">"]
V_CH = ["^", "-", "_"]
ALPHAS = ["", "", "#", "#.5", "#.0", "#102030", "##"]
MAX_EXH = (8, 6)


# ----------------------------------------------------------------------------- generation

def fmt_spec(c):
    h = "" if c["ha"] is None else H_CH[c["ha"]]
    v = "" if c["va"] is None else "." + V_CH[c["va"]]
    return h + v + c.get("alpha", "") + c.get("style_spec", "")


def gen_case(rng, large=False):
    style = rng.choice(["block"] * 7 + ["kitty", "iterm2", "kitty"])
    c = {"style": style, "upscale": rng.random() < 0.4,
         "ha": rng.choice([0, 1, 2, 0, 1, 2, None]), "va": rng.choice([0, 1, 2, 0, 1, 2, None]),
         "via": rng.choice(["content", "content", "composite"]), "trims": "all",
         "max_exh": list(MAX_EXH), "n_random": 60, "rseed": rng.randrange(1 << 30)}
    if style == "block":
        mx, my = (24, 30) if large else (8, 12)
        kind = rng.choice(["runs", "runs", "alpha-flip", "random", "uniform"])
        c["img"] = {"mode": rng.choice(["RGB", "RGBA", "RGBA", "LA", "P"]),
                    "size": [rng.randint(1, mx), rng.randint(1, my)],
                    "seed": rng.randrange(1 << 30), "kind": kind}
        c["alpha"] = rng.choice(ALPHAS)
        if rng.random() < 0.35:
            bg = [rng.randrange(256) for _ in range(3)]
            c["term_bg"] = bg
            c["img"]["bg_pixel"] = bg
            c["on_kitty"] = rng.random() < 0.6
    else:
        mx, my = (200, 240) if large else (70, 110)
        c["img"] = {"mode": rng.choice(["RGB", "RGBA"]), "size": [rng.randint(4, mx), rng.randint(8, my)],
                    "seed": rng.randrange(1 << 30), "kind": "runs"}
        c["alpha"] = rng.choice(["", "#", "#.5"])
        c["style_spec"] = rng.choice(["", "+L", "+W", "+L", "+W"])
        c["term"] = rng.choice(["", "konsole", "wezterm"]) if style == "iterm2" else rng.choice(["", "", "konsole"])
        c["disguise"] = [rng.randrange(3), rng.randrange(3)]
    if large:
        W, H = rng.randint(9, 30), rng.randint(5, 15)
    else:
        W, H = rng.randint(1, MAX_EXH[0]), rng.randint(1, MAX_EXH[1])
    c["size"] = [W] if rng.random() < 0.3 else [W, H]
    c["spec"] = fmt_spec(c)
    return c


def corpus():
    """Boundary cases that run first."""
    cs = []
    # 4x2-cell image (two colour runs per line, alpha flips) in a 8x4 canvas, all 9 alignments
    base = {"style": "block", "img": {"mode": "RGBA", "size": [4, 4], "seed": 7, "kind": "runs"},
            "alpha": "", "upscale": False, "via": "content", "trims": "all", "max_exh": list(MAX_EXH),
            "n_random": 60, "rseed": 1, "size": [8, 4]}
    for ha in range(3):
        for va in range(3):
            c = copy.deepcopy(base)
            c["ha"], c["va"] = ha, va
            c["img"]["seed"] = 7 + ha * 3 + va
            c["via"] = "composite" if (ha + va) % 2 else "content"
            cs.append(c)
    # image as large as the canvas (no padding at all), uniform image (one run per line)
    c = copy.deepcopy(base); c.update(ha=None, va=None, size=[4, 2]); cs.append(c)
    c = copy.deepcopy(base); c.update(ha=1, va=1, size=[7, 5]); c["img"].update(kind="uniform", mode="RGB"); cs.append(c)
    # opaque background colour, kitty work-around, transparency disabled
    c = copy.deepcopy(base); c.update(ha=2, va=0, alpha="#102030", size=[6, 3]); cs.append(c)
    c = copy.deepcopy(base); c.update(ha=1, va=2, alpha="#", size=[7, 3], term_bg=[1, 2, 3], on_kitty=True)
    c["img"]["bg_pixel"] = [1, 2, 3]; cs.append(c)
    # flow widgets, upscaled and not
    for up in (False, True):
        c = copy.deepcopy(base); c.update(ha=1, va=None, size=[6], upscale=up); cs.append(c)
    # one-cell image, one-column / one-row canvases
    c = copy.deepcopy(base); c["img"].update(size=[1, 1]); c.update(ha=1, va=1, size=[5, 3]); cs.append(c)
    c = copy.deepcopy(base); c.update(ha=0, va=1, size=[1, 6]); cs.append(c)
    c = copy.deepcopy(base); c.update(ha=1, va=0, size=[8, 1]); cs.append(c)
    # graphics
    for style, ss, term in (("kitty", "+L", ""), ("kitty", "+W", "konsole"), ("iterm2", "+L", "konsole"), ("iterm2", "+W", "")):
        cs.append({"style": style, "img": {"mode": "RGB", "size": [40, 70], "seed": 3, "kind": "runs"}, "alpha": "",
                   "style_spec": ss, "term": term, "disguise": [1, 2], "upscale": False, "ha": 1, "va": 1,
                   "via": "content", "trims": "all", "max_exh": list(MAX_EXH), "n_random": 60, "rseed": 2, "size": [6, 5]})
    for c in cs:
        c["spec"] = fmt_spec(c)
    return cs


IMAGE_KEYS = ("style", "img", "term_bg", "on_kitty", "term", "via", "max_exh", "n_random", "rseed", "fail", "placeholder", "n_groups")
WIDGET_KEYS = ("ha", "va", "alpha", "style_spec", "upscale", "spec")


def to_history(c, steps=None):
    """A flat single-canvas case as a history: one widget, render, then every trim."""
    h = {k: c[k] for k in IMAGE_KEYS if k in c}
    cs, ws = c.get("disguise", [0, 0])
    h["cstate"] = cs
    w = {k: c[k] for k in WIDGET_KEYS if k in c}
    w["wstate"] = ws
    h["widgets"] = [w]
    h["cache"] = False
    h["steps"] = steps or [["render", 0, list(c["size"])], ["trim", 0, c.get("trims", "all")]]
    return h


def gen_size(rng, large):
    if large:
        W, H = rng.randint(9, 30), rng.randint(5, 15)
    else:
        W, H = rng.randint(1, MAX_EXH[0]), rng.randint(1, MAX_EXH[1])
    return [W] if rng.random() < 0.3 else [W, H]


RATIOS = [0.25, 0.4, 0.5, 0.75, 1.0, 2.0]
CELL_SIZES = [[10, 20], [8, 16], [10, 10], [7, 21], [12, 16], [9, 18]]


def gen_env(rng):
    """An environment change: the global cell ratio (a number / AutoCellRatio with another cell size), the terminal size."""
    r = rng.random()
    if r < 0.45:
        return {"ratio": rng.choice(RATIOS)}
    if r < 0.8:
        return {"ratio": rng.choice(["dynamic", "dynamic", "fixed"]), "cell_size": rng.choice(CELL_SIZES)}
    if r < 0.9:
        return {"cell_size": rng.choice(CELL_SIZES)}
    return {"term_size": rng.choice([[80, 30], [20, 10], [5, 4], [200, 60]])}


def with_env_steps(rng, steps, p=0.6):
    """Environment changes after the widgets' construction: before the first render and between later steps."""
    out = []
    for k, st in enumerate(steps):
        if st[0] == "render" and rng.random() < (p if k == 0 else p / 2):
            out.append(["env", gen_env(rng)])
        out.append(st)
    return out


def gen_history(rng, large=False):
    """Several renders of one widget — or of two widgets sharing the image — at different sizes,
    requests on earlier canvases in between and afterwards."""
    c = gen_case(rng, large)
    if c["style"] == "block" and not large:  # images that often need fitting, so the image size varies
        c["img"]["size"] = [rng.randint(3, 10), rng.randint(4, 14)]
    h = to_history(c)
    if rng.random() < 0.5:  # a second widget sharing the image object
        w2 = dict(h["widgets"][0])
        w2.update(ha=rng.choice([0, 1, 2, None]), va=rng.choice([0, 1, 2, None]), upscale=not w2["upscale"],
                  wstate=rng.randrange(3) if c["style"] != "block" else 0)
        w2["spec"] = fmt_spec(w2)
        h["widgets"].append(w2)
    h["cache"] = rng.random() < 0.3
    nw = len(h["widgets"])
    n = rng.choice([2, 2, 3])
    sizes = []
    while len(sizes) < n:
        sz = gen_size(rng, large)
        if sz not in sizes:
            sizes.append(sz)
    R = [["render", rng.randrange(nw), sz] for sz in sizes]
    T = lambda k: ["trim", k, "all"]
    if n == 2:
        steps = rng.choice([[R[0], R[1], T(0), T(1)], [R[0], T(0), R[1], T(0), T(1)], [R[0], R[1], T(1), T(0)]])
    else:
        steps = rng.choice([[R[0], R[1], T(0), T(1), R[2], T(0), T(2)], [R[0], R[1], R[2], T(0), T(1), T(2)],
                            [R[0], T(0), R[1], R[2], T(1), T(0)]])
    h["steps"] = with_env_steps(rng, steps) if rng.random() < 0.6 else steps
    return h


def gen_flow_history(rng):
    """Long-lived flow widgets (upscaling and not) of one image laid out at several widths under a changing environment;
    cheap (few requests): the point is rows() against render()."""
    c = gen_case(rng)
    if c["style"] == "block":
        c["img"]["size"] = [rng.randint(1, 12), rng.randint(1, 24)]
    h = to_history(c)
    w2 = dict(h["widgets"][0]); w2["upscale"] = not w2["upscale"]; w2["spec"] = fmt_spec(w2)
    h["widgets"].append(w2)
    h["cache"] = False
    steps = []
    n = 0
    for _ in range(rng.randint(2, 4)):
        steps.append(["env", gen_env(rng)])
        for _ in range(rng.randint(1, 3)):
            steps.append(["render", rng.randrange(2), [rng.randint(1, 16)]])
            if rng.random() < 0.3:
                steps.append(["trim", n, [[0, 0, None, None], [0, 0, 1, 1]]])
            n += 1
    h["steps"] = steps
    return h


CELL_SIZES_B = CELL_SIZES + [[6, 13], [11, 23]]


def original_columns(style, px_w, cell):
    """the image's ORIGINAL width in columns (graphics: pixels -> cells floors, at least 1)"""
    return px_w if style == "block" else max(1, px_w // cell[0])


def gen_flow_boundary(rng):
    """(round 6) Flow widgets (one not upscaling, one upscaling) laid out at widths EXACTLY equal to, one below and
    one above the image's ORIGINAL number of columns; graphics-based images (80%) whose pixel width / height are NOT
    multiples of the cell width / height (pixels -> cells floors: the size fitted to the original number of columns is
    a scaled-DOWN one), several cell sizes, sometimes changed after construction; the point is rows() against render()
    where the fitted and the original size part."""
    want_gfx = rng.random() < 0.8
    while True:
        c = gen_case(rng)
        if (c["style"] != "block") == want_gfx:
            break
    cell = list(rng.choice(CELL_SIZES_B))
    if want_gfx:
        cw, ch = cell
        c["img"]["size"] = [rng.randint(1, 8) * cw + rng.randint(1, cw - 1), rng.randint(1, 12) * ch + rng.randint(1, ch - 1)]
    else:
        c["img"]["size"] = [rng.randint(1, 12), rng.choice([1, 3, 5, 7, 9, 11, 13, 15, 21])]
    c["upscale"] = False
    c["spec"] = fmt_spec(c)
    h = to_history(c)
    h["cell_size"] = cell
    w2 = dict(h["widgets"][0]); w2["upscale"] = True; w2["spec"] = fmt_spec(w2)
    h["widgets"].append(w2)
    h["cache"] = False
    steps = []

    def burst(cell_now):
        o = original_columns(c["style"], c["img"]["size"][0], cell_now)
        for mc in (o, o - 1, o + 1):
            if mc >= 1:
                steps.append(["render", 0, [mc]])
        steps.append(["render", 1, [rng.choice([mc for mc in (o, o - 1, o + 1) if mc >= 1])]])

    burst(cell)
    if rng.random() < 0.4:
        if want_gfx:
            cell = list(rng.choice(CELL_SIZES_B))
            steps.append(["env", {"cell_size": cell}])
        else:
            steps.append(["env", gen_env(rng)])
        burst(cell)
    h["steps"] = steps
    return h


def gen_layout(rng, W, H):
    """A real urwid composition around the widget: 1..3 nested Overlays (explicit left / top / width / height of the
    covering widget, mostly strictly inside so that image is visible on both sides), optionally over a Columns that
    shows the same widget twice (one canvas object, two columns)."""
    twin = rng.random() < 0.25
    gap = rng.choice([0, 1]) if twin else 0
    total = 2 * W + gap if twin else W
    ovs = []
    for _ in range(rng.choice([1, 1, 2, 2, 3])):
        if total >= 3 and rng.random() < 0.7:
            l = rng.randint(1, total - 2)
            ow = rng.randint(1, total - 1 - l)
        else:
            l = rng.randrange(total)
            ow = rng.randint(1, total - l)
        t = rng.randrange(H)
        oh = rng.randint(1, H - t)
        ovs.append([l, t, ow, oh])
    lay = {"overlays": ovs}
    if twin:
        lay.update(twin=True, gap=gap)
    return lay


def with_inter_steps(rng, h, p=0.5):
    """Simultaneous requests on the canvases of a history: after some of its request steps, and a composition at the end."""
    steps = []
    for st in h["steps"]:
        steps.append(st)
        if st[0] == "trim" and rng.random() < p:
            steps.append(["inter", st[1], "auto"])
    boxes = [st for st in h["steps"] if st[0] == "render" and len(st[2]) == 2]
    if boxes and rng.random() < p:
        st = rng.choice(boxes)
        steps.append(["compose", st[1], list(st[2]), gen_layout(rng, *st[2])])
    h["steps"] = steps
    h["n_groups"] = 6
    return h


def gen_inter_history(rng, large=False):
    """One canvas (text 75% / graphics), several requests in flight at once: direct groups under every schedule
    pattern, then real urwid compositions; sometimes a later render of the widget in between."""
    c = gen_case(rng, large)
    if c["style"] == "block":
        c["img"]["size"] = [rng.randint(4, 24), rng.randint(4, 30)] if large else [rng.randint(3, 10), rng.randint(4, 14)]
        c["img"]["kind"] = rng.choice(["runs", "runs", "random", "alpha-flip"])
    h = to_history(c)
    if large:
        W, H = rng.randint(9, 30), rng.randint(5, 15)
    else:
        W, H = rng.randint(2, MAX_EXH[0]), rng.randint(2, MAX_EXH[1])
    steps = [["render", 0, [W, H]], ["inter", 0, "auto"], ["compose", 0, [W, H], gen_layout(rng, W, H)]]
    if rng.random() < 0.5:
        steps.append(["compose", 0, [W, H], gen_layout(rng, W, H)])
    if rng.random() < 0.4:  # requests in flight on the EARLIER canvas after a later render of the widget
        steps += [["render", 0, gen_size(rng, large)], ["inter", 1, "auto"], ["inter", 0, "auto"]]
    h["steps"] = steps
    h["cache"] = rng.random() < 0.3
    h["n_groups"] = 12
    return h


PLACEHOLDERS = ["solidfill", "text", "filler", "pile", "divider", "linebox", "image"]


def gen_fail_history(rng):
    """Renders that FAIL (the file behind the image vanished / is garbage / the renderer raises) after the widgets
    were built, switched on and off, an error placeholder of some sizing kind installed (or none); flow widgets
    (upscaling and not) at several widths and box renders; cheap: the point is rows() against render()."""
    c = gen_case(rng)
    if c["style"] == "block":
        c["img"]["size"] = [rng.randint(1, 12), rng.randint(1, 24)]
    h = to_history(c)
    w2 = dict(h["widgets"][0]); w2["upscale"] = not w2["upscale"]; w2["spec"] = fmt_spec(w2)
    h["widgets"].append(w2)
    h["cache"] = False
    h["fail"] = rng.choice(["vanish", "vanish", "garbage", "raise", "raise"])
    if rng.random() < 0.9:
        h["placeholder"] = {"kind": rng.choice(PLACEHOLDERS), "text": rng.choice(["broken image", "?", "the image could not be rendered"])}
    steps, n = [], 0
    if rng.random() < 0.5:
        steps.append(["render", rng.randrange(2), [rng.randint(1, 16)]]); n += 1
    for _ in range(rng.randint(1, 2)):
        if rng.random() < 0.4:
            steps.append(["env", gen_env(rng)])
        steps.append(["fail", True])
        for _ in range(rng.randint(2, 4)):
            steps.append(["render", rng.randrange(2), [rng.randint(1, 24)] if rng.random() < 0.75 else
                          [rng.randint(1, 12), rng.randint(1, 8)]]); n += 1
        steps.append(["fail", False])
        steps.append(["render", rng.randrange(2), [rng.randint(1, 16)]])
        steps.append(["trim", n, [[0, 0, None, None], [0, 0, 1, 1]]]); n += 1
    h["steps"] = steps
    return h


def corpus_histories():
    cs = []
    base = {"style": "block", "img": {"mode": "RGBA", "size": [6, 8], "seed": 11, "kind": "runs"}, "alpha": "",
            "upscale": False, "via": "content", "max_exh": list(MAX_EXH), "n_random": 60, "rseed": 5, "ha": 1, "va": 1,
            "size": [8, 5]}
    base["spec"] = fmt_spec(base)
    # the same widget: rendered wide, then narrower (the image has to shrink), the FIRST canvas trimmed afterwards
    cs.append(to_history(base, [["render", 0, [8, 5]], ["render", 0, [4, 5]], ["trim", 0, "all"], ["trim", 1, "all"]]))
    # box then flow, interleaved
    cs.append(to_history(base, [["render", 0, [7, 4]], ["trim", 0, "all"], ["render", 0, [3]], ["trim", 0, "all"],
                                ["render", 0, [8, 6]], ["trim", 1, "all"], ["trim", 0, "all"]]))
    # two widgets sharing the image, one upscaling
    h = to_history(base, [["render", 0, [8, 6]], ["render", 1, [5, 3]], ["trim", 0, "all"], ["trim", 1, "all"]])
    w2 = dict(h["widgets"][0]); w2.update(ha=0, va=2, upscale=True); w2["spec"] = fmt_spec(w2)
    h["widgets"].append(w2)
    cs.append(h)
    # with urwid's canvas cache on: the same size again returns the cached canvas
    h = to_history(base, [["render", 0, [8, 4]], ["render", 0, [5, 4]], ["render", 0, [8, 4]], ["trim", 0, "all"],
                          ["trim", 2, "all"], ["trim", 1, "all"]])
    h["cache"] = True
    cs.append(h)
    # flow widgets (not upscaling / upscaling) of a 10x20-pixel image constructed at cell ratio 0.5, laid out after the ratio
    # was changed (number, DYNAMIC with another cell size, FIXED), at widths where the original size fits / does not fit
    f = dict(base); f["img"] = {"mode": "RGB", "size": [10, 20], "seed": 4, "kind": "runs"}
    h = to_history(f, [["render", 0, [10]], ["env", {"ratio": 1.0}], ["render", 0, [12]], ["render", 1, [12]], ["render", 0, [6]],
                       ["env", {"ratio": "dynamic", "cell_size": [10, 10]}], ["render", 0, [10]], ["render", 1, [7]],
                       ["env", {"ratio": 0.25}], ["render", 0, [15]], ["trim", 1, "all"],
                       ["env", {"ratio": "fixed", "cell_size": [7, 21]}], ["render", 0, [11]], ["render", 1, [3]],
                       ["env", {"term_size": [5, 4]}], ["render", 0, [13]]])
    w2 = dict(h["widgets"][0]); w2.update(upscale=True); w2["spec"] = fmt_spec(w2)
    h["widgets"].append(w2)
    cs.append(h)
    # graphics
    g = {"style": "kitty", "img": {"mode": "RGB", "size": [60, 90], "seed": 3, "kind": "runs"}, "alpha": "", "style_spec": "+L",
         "term": "", "disguise": [1, 1], "upscale": False, "ha": 1, "va": 1, "via": "content", "max_exh": list(MAX_EXH),
         "n_random": 60, "rseed": 2, "size": [7, 6]}
    g["spec"] = fmt_spec(g)
    cs.append(to_history(g, [["render", 0, [7, 6]], ["render", 0, [4, 6]], ["trim", 0, "all"], ["trim", 1, "all"]]))
    # graphics flow widget, the terminal's cell size changes after construction
    cs.append(to_history(g, [["render", 0, [7]], ["env", {"cell_size": [12, 16]}], ["render", 0, [7]], ["render", 0, [4]],
                             ["trim", 0, "all"], ["env", {"cell_size": [7, 21]}], ["render", 0, [9]], ["trim", 1, "all"]]))
    # (round 6) graphics flow widgets at the image's original number of columns, pixel size off the cell grid: 19x100 px,
    # 10x20-px cells, widths 1 (fitted (1, 2) < original (1, 5)) and 2; 47x130 px at 8x16-px cells, widths 5, 4, 6
    for style, size, cell, widths in (("kitty", [19, 100], [10, 20], [1, 2]), ("iterm2", [47, 130], [8, 16], [5, 4, 6])):
        g2 = dict(g); g2["style"] = style; g2["img"] = {"mode": "RGB", "size": size, "seed": 5, "kind": "runs"}
        h = to_history(g2, [["render", wi, [mc]] for mc in widths for wi in (0, 1)])
        w2 = dict(h["widgets"][0]); w2.update(upscale=True); w2["spec"] = fmt_spec(w2)
        h["widgets"].append(w2)
        h["cell_size"] = cell
        cs.append(h)
    # --- several requests in flight at once (round 4)
    # the two halves of a canvas beside a covered block, in lock-step / one ahead / one after the other / first one
    # abandoned after its first image row and finished last; three requests; then real urwid compositions
    pair = [[0, 0, 3, 5], [5, 0, 3, 5]]
    lock = [0, 1] * 6
    h = to_history(base, [["render", 0, [8, 5]],
                          ["inter", 0, [{"reqs": pair, "sched": lock}, {"reqs": pair, "sched": [0] + lock},
                                        {"reqs": pair, "sched": []}, {"reqs": pair, "sched": [0, 0, 1, 1, 1, 1, 1, 1]},
                                        {"reqs": [[1, 1, 4, 3], [4, 0, 4, 5], [0, 2, 8, 2]], "sched": [0, 1, 2] * 6},
                                        {"reqs": [[0, 1, 2, 2], [0, 2, 2, 3]], "sched": lock}]],
                          ["compose", 0, [8, 5], {"overlays": [[3, 1, 2, 2]]}],
                          ["compose", 0, [8, 5], {"overlays": [[3, 1, 2, 3], [1, 2, 4, 2]]}],
                          ["compose", 0, [8, 5], {"overlays": [[2, 0, 13, 3]], "twin": True, "gap": 1}],
                          ["inter", 0, "auto"]])
    h["img"] = {"mode": "RGB", "size": [6, 8], "seed": 12, "kind": "random"}
    cs.append(h)
    cs.append(to_history(g, [["render", 0, [7, 6]], ["inter", 0, [{"reqs": [[0, 0, 7, 3], [0, 2, 7, 4]], "sched": [0, 1] * 5},
                                                                 {"reqs": [[0, 1, 3, 4], [4, 1, 3, 4]], "sched": [0, 1] * 5}]],
                             ["compose", 0, [7, 6], {"overlays": [[2, 2, 3, 2]]}]]))
    # --- renders that fail, every kind of placeholder (round 4): flow (both widgets), box, back to normal
    f = dict(base); f["img"] = {"mode": "RGB", "size": [10, 20], "seed": 4, "kind": "runs"}
    for k, kind in enumerate(PLACEHOLDERS + [None]):
        h = to_history(f, [["render", 0, [10]], ["fail", True], ["render", 0, [10]], ["render", 1, [14]], ["render", 0, [3]],
                           ["render", 0, [9, 4]], ["fail", False], ["render", 0, [10]], ["trim", 5, [[0, 0, None, None]]]])
        w2 = dict(h["widgets"][0]); w2.update(upscale=True); w2["spec"] = fmt_spec(w2)
        h["widgets"].append(w2)
        h["fail"] = ["vanish", "raise", "garbage"][k % 3]
        if kind:
            h["placeholder"] = {"kind": kind}
        cs.append(h)
    return cs


def view(h, rec):
    """The flat description of one canvas of a history (for encoding / statistics / reports)."""
    w = h["widgets"][rec["widget"]]
    c = {k: h[k] for k in IMAGE_KEYS if k in h}
    c.update({k: w[k] for k in WIDGET_KEYS if k in w})
    c["disguise"] = [h.get("cstate", 0), w.get("wstate", 0)]
    c["size"] = rec["req"]
    return c


def describe_history(h, res=None):
    c = view(h, {"widget": 0, "req": []})
    s = (f"{h['style']} img={h['img']['mode']}{h['img']['size']}/{h['img'].get('kind')}#{h['img']['seed']} "
         f"widgets={[(w['spec'], 'upscale' if w['upscale'] else 'no-upscale') for w in h['widgets']]} via={h.get('via')} "
         f"term={h.get('term', '')!r} on_kitty={h.get('on_kitty', False)} term_bg={h.get('term_bg')} "
         f"disguise={c['disguise']} cache={h.get('cache', False)} cell_size_at_construction={h.get('cell_size', [10, 20])} "
         f"steps={h['steps']}")
    if res and "canvases" in res:
        s += " -> canvases " + ", ".join(f"{tuple(r['size'])}/image{tuple(r['image_size'])}/{len(r['obs'])} requests"
                                          for r in res["canvases"])
    return s


# ----------------------------------------------------------------------------- encoding

def oz(x):
    return "None" if x is None else f"(Some {core.z(x).replace('%Z', '')})"


def pack_obs(o):
    """One observation as a list of 63-bit words (base-1024 digits, least significant first; TrimTie.dec_obs)."""
    tl, tt, cols, rows, dis, ix = o
    ds = [tl, tt, 0 if cols is None else cols + 1, 0 if rows is None else rows + 1, max(dis, 0), len(ix)] + list(ix)
    assert all(0 <= d < 1024 for d in ds), ds
    ws = [sum(d << (10 * k) for k, d in enumerate(ds[i:i + 6])) for i in range(0, len(ds), 6)]
    return "[" + ";".join(map(str, ws)) + "]"


def idx_t(ix):
    return "[" + ";".join(map(str, ix)) + "]"


def expected_disguise(c):
    cs, ws = c.get("disguise", [0, 0])
    on = c["style"] == "kitty" or (c["style"] == "iterm2" and c.get("term") == "konsole")
    return (cs + ws) * int(on)


def al(x):
    return 1 if x is None else x


def enc_rows(rows, aux):
    """Token rows as lists of 63-bit words (TrimTie.dec_tok); tokens other than glyphs / NUL / SGR go to `aux`."""
    out = []
    for toks in rows:
        ws = []
        for t in toks:
            k = t[0]
            if k == "char":
                g = t[1]
                ws.append({"space": 0, "upper": 1, "lower": 2}[g] if isinstance(g, str) else 3 + (g << 4))
            elif k == "nul":
                ws.append(4)
            elif k == "sgr0":
                ws.append(5)
            elif k in ("fg", "bg") and all(0 <= x < 256 for x in t[1:4]):
                ws.append((6 if k == "fg" else 7) + ((t[1] + (t[2] << 8) + (t[3] << 16)) << 4))
            else:
                key = lexer.coq_tok(t)
                if key not in aux:
                    aux[key] = len(aux)
                ws.append(8 + (aux[key] << 4))
        out.append("[" + ";".join(map(str, ws)) + "]")
    return "[" + ";\n".join(out) + "]%uint63"


def flow_t(c, r):
    """[upscale; maxcol; fit; original; rows() before / after rendering] of a flow render (TrimTie.c_flow)."""
    if len(c["size"]) != 1 or "fit" not in r:
        return "[]"
    vals = [int(bool(c["upscale"])), c["size"][0], *r["fit"], *r["ori"], r.get("rows_method", -1), r.get("rows_method_after_fresh", -1)]
    return "[" + ";".join(core.z(v).replace("%Z", "") for v in vals) + "]"


def nat_t(xs):
    return "[" + ";".join(map(str, xs)) + "]%nat"


def inter_t(r):
    gs = r.get("inter", [])
    return "[" + ";\n".join(f"{{| i_obs := {nat_t(g['obs'])}; i_sched := {nat_t(g['sched'])}; i_ev := {idx_t(g['ev'])} |}}"
                            for g in gs) + "]"


def zp(p):
    return f"({core.z(p[0])}, {core.z(p[1])})"


def pcase_term(h, ph):
    """One failing render (TrimPhTie.pcase)."""
    w = h["widgets"][ph["widget"]]
    flow = len(ph["req"]) == 1
    size = "[" + ";".join(core.z(v) for v in ph["req"]) + "]"
    pht = "None"
    if ph.get("installed"):
        fl = ph.get("ph_flow")
        pht = f"(Some ({R.b(bool(ph.get('ph_box')))}, {'None' if fl is None else f'(Some {core.z(fl)})'}))"
    out = "None"
    if ph.get("raised") is None and "cols" in ph:
        out = f"(Some ({core.z(ph['cols'])}, {core.z(ph['rows'])}, {core.z(ph['ncontent'])}, {R.b(bool(ph['wide']))}))"
    return (f"{{| p_size := {size}; p_up := {R.b(bool(w['upscale']))}; p_fit := {zp(ph['fit'] if flow else [0, 0])}; "
            f"p_ori := {zp(ph['ori'] if flow else [0, 0])}; p_ph := {pht}; "
            f"p_rows_before := {core.z(ph['rows_before'] if flow else -1)}; p_rows_after := {core.z(ph['rows_after'] if flow else -1)}; "
            f"p_out := {out} |}}")


def fcase_term(h, rec):
    """One flow render from the image's pixel size and the environment at that render (TrimFlowTie.fcase)."""
    w = h["widgets"][rec["widget"]]
    env = rec["env"]
    return (f"{{| f_text := {R.b(bool(rec['text']))}; f_px := {zp(h['img']['size'])}; f_cell := {zp(env['cell_size'])}; "
            f"f_ratio := ({float(env['cell_ratio']).hex()})%float; f_up := {R.b(bool(w['upscale']))}; "
            f"f_maxcol := {core.z(rec['req'][0])}; f_fit := {zp(rec['fit'])}; f_ori := {zp(rec['ori'])}; "
            f"f_rows_before := {core.z(rec.get('rows_method', -1))}; "
            f"f_rows_after := {core.z(rec.get('rows_method_after_fresh', -1))}; f_canvas := {zp(rec['size'])}; "
            f"f_image := {zp(rec['image_size'])}; f_ncontent := {core.z(len(rec['full']))} |}}")


def ph_reason(h, ph):
    kind = (h.get("placeholder") or {}).get("kind")
    who = (f"error placeholder {kind!r} installed (accepts a box size: {ph.get('ph_box')}; its own flow rows at that width: "
           f"{ph.get('ph_flow')})") if ph.get("installed") else "no error placeholder installed"
    size = tuple(ph["req"])
    how = h.get("fail")
    if ph.get("raised") is not None:
        return (f"render({size}) of a widget whose image cannot be rendered ({how}) raised {ph['raised']} although an {who}")
    if len(size) == 1:
        return (f"flow widget whose image cannot be rendered ({how}), {who}: rows({size}) announced {ph['rows_before']} "
                f"(asked again after the render: {ph['rows_after']}) but render({size}) returned a {ph.get('canvas')} of "
                f"{ph['cols']}x{ph['rows']} whose content() yields {ph['ncontent']} rows (every row {ph['cols']} wide: {ph['wide']})")
    return (f"box widget whose image cannot be rendered ({how}), {who}: render({size}) returned a {ph.get('canvas')} of "
            f"{ph['cols']}x{ph['rows']} whose content() yields {ph['ncontent']} rows (every row {ph['cols']} wide: {ph['wide']})")


def case_term(c, r):
    W, H = r["size"]
    w, h = r["image_size"]
    lines = [R.strip_payload(lexer.lex(s)) for s in r["lines"]]
    tbl = [R.strip_payload(lexer.lex(s)) for s in r["tbl"]]
    aux = {}
    lines_t, tbl_t = enc_rows(lines, aux), enc_rows(tbl, aux)
    aux_t = "[" + "; ".join(aux) + "]"
    obs = "map dec_obs [" + ";\n".join(pack_obs(o) for o in r["obs"]) + "]%uint63"
    return (f"(let aux := {aux_t} in {{| c_gfx := {R.b(not r['text'])}; c_d := {expected_disguise(c)}%nat; c_W := {W}; c_H := {H}; "
            f"c_w := {w}; c_h := {h}; c_ha := {al(c['ha'])}%nat; c_va := {al(c['va'])}%nat; "
            f"c_lines := dec_rows aux {lines_t}; c_tbl := dec_rows aux {tbl_t}; "
            f"c_fd := {max(r['fd'], 0)}; c_full := {idx_t(r['full'])}; c_obs := {obs}; c_flow := {flow_t(c, r)}; "
            f"c_inter := {inter_t(r)} |}})")


def describe(c, r=None):
    s = (f"{c['style']} img={c['img']['mode']}{c['img']['size']}/{c['img'].get('kind')}#{c['img']['seed']} spec={c['spec']!r} "
         f"upscale={c['upscale']} size={tuple(c['size'])} via={c.get('via')} term={c.get('term', '')!r} "
         f"on_kitty={c.get('on_kitty', False)} term_bg={c.get('term_bg')} disguise={c.get('disguise', [0, 0])}")
    if r and "size" in r:
        s += f" -> canvas={tuple(r['size'])} image={tuple(r['image_size'])} trims={len(r['obs'])}"
    return s


# ----------------------------------------------------------------------------- evaluation

def python_oracle(c, r):
    """Specification clauses that need no terminal semantics; returns a list of reasons."""
    why = []
    W, H = r["size"]
    if len(c["size"]) == 1:
        if r.get("rows_method") != H or r.get("rows_method_after") != H or r.get("rows_method_after_fresh") != H:
            why.append(f"flow widget: rows() announced {r.get('rows_method')} (after rendering: "
                       f"{r.get('rows_method_after')} through urwid's cache, {r.get('rows_method_after_fresh')} uncached), "
                       f"the canvas has {H} rows (environment at that render: {r.get('env')})")
        if W != c["size"][0]:
            why.append(f"flow widget: canvas is {W} columns wide for maxcol={c['size'][0]}")
    elif [W, H] != list(c["size"]):
        why.append(f"box widget: canvas size {(W, H)} != requested {tuple(c['size'])}")
    if not r.get("full_later_same", True):
        why.append("the untrimmed content() of a canvas changed after later renders of its widget / image")
    if r["fd"] < 0 or any(o[4] < 0 for o in r["obs"]):
        why.append("rows of one content() call carry different numbers of disguise pairs")
    if not r["text"]:
        # byte-exact selection of lines (payloads included) on vertical trims
        for tl, tt, cols, rows, dis, ix in r["obs"]:
            cc = W - tl if cols is None else cols
            rr = H - tt if rows is None else rows
            if tl == 0 and cc == W and ix != r["full"][tt:tt + rr]:
                why.append(f"graphics canvas: content({tl},{tt},{cols},{rows}) is not lines {tt}..{tt + rr - 1} of the untrimmed content")
                break
    return why


def evaluate(hs, tag):
    """Per history: [code, reasons, impl result, per-canvas codes]; plus infrastructure errors."""
    impl = core.run_impl_parallel("impl_c17.py", hs, chunk=max(30, (len(hs) + core.NCPU - 1) // core.NCPU))
    terms, owner = [], []
    pterms, powner = [], []
    fterms, fowner = [], []
    out = [[0, [], r, []] for r in impl]
    for i, (h, r) in enumerate(zip(hs, impl)):
        if "error" in r:
            out[i][0] = 2
            out[i][1].append("raised " + r["error"])
            continue
        out[i][3] = [0] * len(r["canvases"])
        r["ph_codes"] = [0] * len(r.get("ph", []))
        for j, ph in enumerate(r.get("ph", [])):
            pterms.append(pcase_term(h, ph))
            powner.append((i, j))
        for k, rec in enumerate(r["canvases"]):
            c = view(h, rec)
            if len(rec["req"]) == 1 and "fit" in rec:
                fterms.append(fcase_term(h, rec))
                fowner.append((i, k))
            try:
                terms.append(case_term(c, rec))
                owner.append((i, k))
            except lexer.LexError as e:
                out[i][0] |= 2
                out[i][3][k] |= 2
                out[i][1].append(f"canvas {k}: unlexable row: {e}")
                continue
            why = python_oracle(c, rec)
            if why:
                out[i][0] |= 2
                out[i][3][k] |= 2
                out[i][1] += [f"canvas {k} {tuple(rec['size'])}: {x}" for x in why]
    errors = []
    from concurrent.futures import ThreadPoolExecutor
    with ThreadPoolExecutor(max_workers=3) as ex:
        fut_p = ex.submit(core.coq_shards, tag + "_ph", PH_HEADER, pterms, "pcase", "pbad cases", 2000) if pterms else None
        fut_f = ex.submit(core.coq_shards, tag + "_fl", FLOW_HEADER, fterms, "fcase", "fbad cases", 2000) if fterms else None
        fut_t = ex.submit(core.coq_shards, tag, HEADER, terms, "tcase", "bad cases", 4) if terms else None
        if fut_t:
            bad, errs = fut_t.result()
            errors += errs
            for idx, code in bad:
                i, k = owner[idx]
                out[i][0] |= code
                out[i][3][k] |= code
        if fut_f:
            bad, errs = fut_f.result()
            errors += errs
            for idx, code in bad:
                i, k = fowner[idx]
                out[i][0] |= code
                out[i][3][k] |= code
        if fut_p:
            bad, errs = fut_p.result()
            errors += errs
            for idx, code in bad:
                i, j = powner[idx]
                out[i][0] |= code
                out[i][2]["ph_codes"][j] |= code
                if code & 2:
                    out[i][1].append(f"render step {out[i][2]['ph'][j]['step']}: " + ph_reason(hs[i], out[i][2]["ph"][j]))
    return out, errors


def explain(c, r):
    text = HEADER + f"Set Printing Width 100000.\nEval vm_compute in (explain ({case_term(c, r)})).\n"
    rc, o = core.coq_eval_file(f"c17_explain_{id(c)}", text)
    vals = core.parse_evals(o)
    return vals[0] if vals else o[-400:]


def failing_trims(c, r):
    """(index, model_agrees, spec_holds) of failing observations, via Coq."""
    import re
    s = explain(c, r)
    return [(int(a), m == "true", sp == "true") for a, m, sp in re.findall(r"\((\d+)(?:%nat)?, (true|false), (true|false)\)", s)], s


def first_failure(h, entry):
    """(canvas index, failing request [tl, tt, cols, rows], step index) of a failing history, or None."""
    code, why, r, ccodes = entry
    if "canvases" not in r:
        return None
    for k, cc in enumerate(ccodes):
        if cc & 2:
            rec = r["canvases"][k]
            fails, _s = failing_trims(view(h, rec), rec)
            specf = [j for j, m, sp in fails if not sp]
            if not specf:
                continue
            obs = rec["obs"]
            j = min(specf, key=lambda j: ((obs[j][2] or 99) * (obs[j][3] or 99), obs[j][0] + obs[j][1], rec["obs_step"][j]))
            return k, obs[j][:4], rec["obs_step"][j], j
    return None


def drop_step(h, i):
    """The history without step i (a dropped render takes the requests on its canvas with it; later ordinals shift)."""
    d = copy.deepcopy(h)
    st = h["steps"][i]
    if st[0] != "render":
        del d["steps"][i]
        return d
    ordinal = sum(x[0] == "render" for x in h["steps"][:i])
    steps = []
    for j, x in enumerate(h["steps"]):
        if j == i:
            continue
        if x[0] in ("trim", "inter"):
            if x[1] == ordinal:
                continue
            x = [x[0], x[1] - (x[1] > ordinal), x[2]]
        steps.append(copy.deepcopy(x))
    d["steps"] = steps
    return d


def fewer_steps(h):
    """Greedily drops steps while the history still fails (code >= 2)."""
    best = h
    changed = True
    while changed and len(best["steps"]) > 1:
        changed = False
        cands = [drop_step(best, i) for i in reversed(range(len(best["steps"])))]
        cands = [d for d in cands if any(x[0] == "render" for x in d["steps"])]
        if not cands:
            break
        res, _e = evaluate(cands, "c17_shrink")
        for d, e in zip(cands, res):
            if e[0] & 2:
                best, changed = d, True
                break
    return best


REQUEST_STEPS = ("trim", "inter", "compose")


def smaller_group(h):
    """A failing history ending in ONE group of simultaneous requests / a composition: fewer requests in the group,
    fewer overlays, while it still fails."""
    best = h
    for _ in range(4):
        if core.over_budget():
            break
        last = best["steps"][-1]
        cands = []
        if last[0] == "inter" and isinstance(last[2], list) and len(last[2]) == 1 and len(last[2][0]["reqs"]) > 2:
            g = last[2][0]
            for x in range(len(g["reqs"])):
                d = copy.deepcopy(best)
                d["steps"][-1][2] = [{"reqs": [r for i, r in enumerate(g["reqs"]) if i != x],
                                      "sched": [i - (i > x) for i in g["sched"] if i != x]}]
                cands.append(d)
        elif last[0] == "compose":
            lay = last[3]
            for x in range(len(lay.get("overlays", []))):
                if len(lay["overlays"]) > 1:
                    d = copy.deepcopy(best)
                    del d["steps"][-1][3]["overlays"][x]
                    cands.append(d)
            if lay.get("twin"):
                d = copy.deepcopy(best)
                W = d["steps"][-1][2][0]
                d["steps"][-1][3] = {"overlays": [[l, t, min(ow, W - l), oh] for l, t, ow, oh in lay.get("overlays", []) if l < W]}
                if d["steps"][-1][3]["overlays"]:
                    cands.append(d)
        if not cands:
            break
        res, _e = evaluate(cands, "c17_shrink")
        nxt = next((d for d, e in zip(cands, res) if e[0] & 2 and not e[1]), None)
        if nxt is None:
            break
        best = nxt
    return best


def shrink(h, entry):
    """Smallest failing request; then fewer steps; then greedily smaller images / sizes that still fail."""
    trim = None
    ff = first_failure(h, entry) if not entry[1] else None
    best = h
    if ff:
        k, trim, si, j = ff
        d = copy.deepcopy(h)
        kind = h["steps"][si][0]
        before = [copy.deepcopy(st) for st in h["steps"][:si] if st[0] not in REQUEST_STEPS]
        if kind == "trim":
            d["steps"] = before + [["trim", entry[2]["alias"].index(k), [trim]]]
        elif kind == "inter":  # the group of simultaneous requests the failing one belongs to, with its effective schedule
            g = next(g for g in entry[2]["canvases"][k]["inter"] if g["step"] == si and j in g["obs"])
            d["steps"] = before + [["inter", entry[2]["alias"].index(k), [{"reqs": g["reqs"], "sched": g["sched"]}]]]
        else:  # a composition: kept as it is
            d["steps"] = before + [copy.deepcopy(h["steps"][si])]
        res, _e = evaluate([d], "c17_shrink")
        if res[0][0] & 2:
            best = d
    else:  # a failure that needs no request (rows() against render(), an exception ...): try without any request first
        d = copy.deepcopy(h)
        d["steps"] = [copy.deepcopy(st) for st in h["steps"] if st[0] not in REQUEST_STEPS]
        if any(st[0] == "render" for st in d["steps"]):
            res, _e = evaluate([d], "c17_shrink")
            if res[0][0] & 2:
                best = d
    best = fewer_steps(best)
    if not ff:
        return best, None
    best = smaller_group(best)
    # smaller image / sizes, asking for every request again
    for _ in range(5):
        if core.over_budget():
            break
        cands = []
        iw, ih = best["img"]["size"]
        for dw, dh in ((1, 0), (0, 1), (0, 2)):
            if iw - dw >= 1 and ih - dh >= 1:
                d = copy.deepcopy(best); d["img"]["size"] = [iw - dw, ih - dh]; cands.append(d)
        for si2, st in enumerate(best["steps"]):
            if st[0] == "render":
                for k2 in range(len(st[2])):
                    if st[2][k2] > 1:
                        d = copy.deepcopy(best); d["steps"][si2][2][k2] -= 1; cands.append(d)
        cands = [d for d in cands if d["steps"][-1][0] == "trim"]
        for d in cands:
            d["steps"][-1][2] = "all"
        found = None
        if cands:
            res, _e = evaluate(cands, "c17_shrink")
            for d, e in zip(cands, res):
                if e[0] & 2 and "canvases" in e[2] and not e[1]:
                    f2 = first_failure(d, e)
                    if f2 and e[2]["alias"][d["steps"][-1][1]] == f2[0]:
                        d["steps"][-1][2] = [f2[1]]
                        found, trim = d, f2[1]
                        break
        if not found:
            break
        best = found
    return best, trim


def classify(c, r, hist, distinct, ci):
    """Input distribution of the trims (statistics only)."""
    W, H = r["size"]
    w, h = r["image_size"]

    def pads(a, p):
        return (0, p) if a == 0 else (p, 0) if a == 2 else (p // 2, p - p // 2)

    pl, pr = pads(al(c["ha"]), W - w)
    pt, pb = pads(al(c["va"]), H - h)

    def where(x, a, n):  # position x on an axis with near padding a and image n
        return "near-pad" if x < a else "image" if x < a + n else "far-pad"

    for tl, tt, cols, rows, dis, ix in r["obs"]:
        cc = W - tl if cols is None else cols
        rr = H - tt if rows is None else rows
        hk = f"h:{where(tl, pl, w)}..{where(tl + cc - 1, pl, w)}"
        vk = f"v:{where(tt, pt, h)}..{where(tt + rr - 1, pt, h)}"
        hist["cut"][hk] = hist["cut"].get(hk, 0) + 1
        hist["cut"][vk] = hist["cut"].get(vk, 0) + 1
        if cols is None or rows is None:
            hist["default_args"] += 1
        inside_v = tt < pt + h and tt + rr > pt
        if r["text"]:
            partial_h = (pl < tl < pl + w) or (pl < tl + cc < pl + w)
            if partial_h and inside_v:
                distinct.add((ci, tl, tt, cc, rr))
        elif h >= 2 and tl == 0 and cc == W and (tt > 0 or rr < H) and inside_v:
            distinct.add((ci, tl, tt, cc, rr))


def run(ctx):
    rng = ctx.rng
    if ctx.replay:
        c = ctx.replay["replay"]["case"]
        hs = [c if "steps" in c else to_history(c)]
    else:
        n_small, n_large, n_hist, n_hist_large, n_flow = (14, 4, 14, 4, 12) if ctx.quick else (400, 100, 500, 100, 600)
        n_inter, n_inter_large, n_fail = (12, 3, 12) if ctx.quick else (400, 100, 500)
        plain = [to_history(gen_case(rng)) for _ in range(n_small)]
        plain_large = [to_history(gen_case(rng, large=True)) for _ in range(n_large)]
        hists = [gen_history(rng) for _ in range(n_hist)]
        hists_large = [gen_history(rng, large=True) for _ in range(n_hist_large)]
        flows = [gen_flow_history(rng) for _ in range(n_flow)]
        # (round 4) drawn after the generators of earlier rounds, so that their cases stay what they were
        inters = ([gen_inter_history(rng) for _ in range(n_inter)]
                  + [gen_inter_history(rng, large=True) for _ in range(n_inter_large)])
        for h in hists[::2] + hists_large[::2]:  # simultaneous requests inside render/request histories (steps are only added)
            with_inter_steps(rng, h)
        fails = [gen_fail_history(rng) for _ in range(n_fail)]
        # (round 6) flow widths at / around the image's original number of columns, pixel sizes off the cell grid
        bounds = [gen_flow_boundary(rng) for _ in range(12 if ctx.quick else 600)]
        hs = ([to_history(c) for c in corpus()] + corpus_histories() + plain + plain_large + hists + hists_large + flows
              + inters + fails + bounds)
    res, errors = evaluate(hs, "c17")
    failures, mismatches = [], []
    hist = {"style": {}, "sizing": {}, "align": {}, "alpha": {}, "via": {}, "upscale": {}, "canvas_cells": {},
            "padded": {"h": 0, "v": 0, "none": 0}, "exhaustive_canvases": 0, "sampled_canvases": 0,
            "trims": 0, "default_args": 0, "cut": {},
            "histories": {"total": len(hs), "renders": {}, "widgets_sharing_image": 0, "canvas_cache_on": 0, "cache_hits": 0},
            "requests_after_a_later_render": 0, "requests_after_image_size_changed": 0,
            "environment": {"histories_with_changes": 0, "changes": {}, "flow_renders": 0, "flow_renders_after_a_change": 0,
                            "flow_renders_upscale": 0, "flow_renders_original_size_used": 0, "cell_ratio_at_flow_render": {},
                            "flow_width_vs_original_columns": {"below": 0, "one_below": 0, "equal": 0, "one_above": 0, "above": 0},
                            "flow_renders_graphics": 0, "flow_renders_graphics_pixel_size_off_the_cell_grid": 0,
                            "flow_renders_fitted_lower_than_original_at_its_own_width": 0,
                            "cell_size_at_flow_render": {}},
            "simultaneous_requests": {"groups": 0, "requests": 0, "next_calls": 0, "requests_per_group": {},
                                      "made_by": {"driver schedule": 0, "urwid composition": 0},
                                      "groups_truly_interleaved": 0, "groups_with_different_horizontal_trims_in_flight": 0,
                                      "compositions": {"total": 0, "overlays": {}, "same_widget_twice_in_columns": 0}},
            "failing_renders": {"total": 0, "flow": 0, "box": 0, "how": {}, "placeholder": {}, "outcome": {"canvas": 0, "raised": 0},
                                "flow_with_placeholder_whose_own_rows_differ": 0, "after_environment_change": 0}}
    distinct = set()
    n_shrunk = 0
    ci = 0
    for hi, (h, entry) in enumerate(zip(hs, res)):
        code, why, r, ccodes = entry
        nr = sum(st[0] == "render" for st in h["steps"])
        hist["histories"]["renders"][str(nr)] = hist["histories"]["renders"].get(str(nr), 0) + 1
        hist["histories"]["widgets_sharing_image"] += len(h["widgets"]) > 1
        hist["histories"]["canvas_cache_on"] += bool(h.get("cache"))
        envs = [(si, st[1]) for si, st in enumerate(h["steps"]) if st[0] == "env"]
        hist["environment"]["histories_with_changes"] += bool(envs)
        for _si, e in envs:
            for k2, v2 in e.items():
                key = f"{k2}={v2 if isinstance(v2, str) else ('number' if k2 == 'ratio' else 'changed')}"
                hist["environment"]["changes"][key] = hist["environment"]["changes"].get(key, 0) + 1
        hist["style"][h["style"]] = hist["style"].get(h["style"], 0) + 1
        hist["via"][h.get("via", "content")] = hist["via"].get(h.get("via", "content"), 0) + 1
        F, S = hist["failing_renders"], hist["simultaneous_requests"]
        for st in h["steps"]:
            if st[0] == "compose":
                S["compositions"]["total"] += 1
                nk = str(len(st[3].get("overlays", [])))
                S["compositions"]["overlays"][nk] = S["compositions"]["overlays"].get(nk, 0) + 1
                S["compositions"]["same_widget_twice_in_columns"] += bool(st[3].get("twin"))
        for j, ph in enumerate(r.get("ph", [])):
            F["total"] += 1
            F["flow" if len(ph["req"]) == 1 else "box"] += 1
            F["how"][h.get("fail")] = F["how"].get(h.get("fail"), 0) + 1
            pk = (h.get("placeholder") or {}).get("kind", "none")
            F["placeholder"][pk] = F["placeholder"].get(pk, 0) + 1
            F["outcome"]["raised" if ph.get("raised") is not None else "canvas"] += 1
            F["after_environment_change"] += any(si < ph["step"] for si, _e in envs)
            if len(ph["req"]) == 1 and ph.get("ph_flow") is not None and ph["ph_flow"] != ph["rows_before"]:
                F["flow_with_placeholder_whose_own_rows_differ"] += 1
                distinct.add(("ph", hi, j))
        for rec in r.get("canvases", []):
            ci += 1
            c = view(h, rec)
            sk = "flow" if len(c["size"]) == 1 else "box"
            hist["sizing"][sk] = hist["sizing"].get(sk, 0) + 1
            if sk == "flow" and "fit" in rec:
                E = hist["environment"]
                E["flow_renders"] += 1
                E["flow_renders_after_a_change"] += any(si < rec["built_at"] for si, _e in envs)
                E["flow_renders_upscale"] += bool(c["upscale"])
                E["flow_renders_original_size_used"] += (not c["upscale"]) and rec["image_size"] == rec["ori"]
                rk = f"{rec['env']['cell_ratio']:.3g}"
                E["cell_ratio_at_flow_render"][rk] = E["cell_ratio_at_flow_render"].get(rk, 0) + 1
                if any(si < rec["built_at"] for si, _e in envs):
                    distinct.add((ci, "flow-after-env-change"))
                d = rec["req"][0] - rec["ori"][0]
                E["flow_width_vs_original_columns"]["below" if d < -1 else "one_below" if d == -1 else "equal" if d == 0
                                                   else "one_above" if d == 1 else "above"] += 1
                cs = rec["env"]["cell_size"]
                if not rec["text"]:
                    E["flow_renders_graphics"] += 1
                    E["flow_renders_graphics_pixel_size_off_the_cell_grid"] += bool(h["img"]["size"][0] % cs[0]
                                                                                    and h["img"]["size"][1] % cs[1])
                    ck2 = f"{cs[0]}x{cs[1]}"
                    E["cell_size_at_flow_render"][ck2] = E["cell_size_at_flow_render"].get(ck2, 0) + 1
                if rec["fit"][0] == rec["ori"][0] and rec["fit"][1] < rec["ori"][1]:
                    # the two sizes part at the image's own width: rows() and render() must both take the fitted one
                    E["flow_renders_fitted_lower_than_original_at_its_own_width"] += 1
                    if not c["upscale"]:
                        distinct.add((ci, "flow-fitted-lower-than-original"))
            ak = f"{'d' if c['ha'] is None else H_CH[c['ha']]}{'d' if c['va'] is None else V_CH[c['va']]}"
            hist["align"][ak] = hist["align"].get(ak, 0) + 1
            hist["alpha"][c.get("alpha", "")] = hist["alpha"].get(c.get("alpha", ""), 0) + 1
            hist["upscale"][str(c["upscale"])] = hist["upscale"].get(str(c["upscale"]), 0) + 1
            W, H = rec["size"]
            w, hh = rec["image_size"]
            hist["trims"] += len(rec["obs"])
            exh = W <= MAX_EXH[0] and H <= MAX_EXH[1]
            hist["exhaustive_canvases" if exh else "sampled_canvases"] += 1
            ck = f"{min(W * H // 10 * 10, 100)}+"
            hist["canvas_cells"][ck] = hist["canvas_cells"].get(ck, 0) + 1
            hist["padded"]["h"] += W > w
            hist["padded"]["v"] += H > hh
            hist["padded"]["none"] += (W == w and H == hh)
            classify(c, rec, hist, distinct, ci)
            for gi, g in enumerate(rec.get("inter", [])):
                S["groups"] += 1
                S["requests"] += len(g["obs"])
                S["next_calls"] += len(g["sched"])
                nk = str(min(len(g["obs"]), 6)) + ("+" if len(g["obs"]) >= 6 else "")
                S["requests_per_group"][nk] = S["requests_per_group"].get(nk, 0) + 1
                S["made_by"]["urwid composition" if h["steps"][g["step"]][0] == "compose" else "driver schedule"] += 1
                # truly interleaved: some request is handed a row while another one, started earlier, is unfinished
                need = [len(rec["obs"][o][5]) for o in g["obs"]]
                took = [0] * len(need)
                inter2 = hdiff = False
                for i2, e in zip(g["sched"], g["ev"]):
                    if e < 0:
                        continue
                    others = [x for x in range(len(need)) if x != i2 and 0 < took[x] < need[x]]
                    if others:
                        inter2 = True
                        if any((rec["obs"][g["obs"][x]][0], rec["obs"][g["obs"][x]][2]) !=
                               (rec["obs"][g["obs"][i2]][0], rec["obs"][g["obs"][i2]][2]) for x in others):
                            hdiff = True
                    took[i2] += 1
                S["groups_truly_interleaved"] += inter2
                S["groups_with_different_horizontal_trims_in_flight"] += hdiff
                if hdiff and rec["text"]:
                    distinct.add((ci, "inter", gi))
            # how many requests were made after a later render / after the shared image's size had changed
            later = [(si, st) for si, st in enumerate(h["steps"]) if st[0] == "render" and si > rec["built_at"]]
            for si_obs in rec["obs_step"]:
                before = [si for si, st in later if si < si_obs]
                if before:
                    hist["requests_after_a_later_render"] += 1
                    sizes_then = [x["image_size"] for x in r["canvases"] if rec["built_at"] < x["built_at"] < si_obs]
                    if sizes_then and sizes_then[-1] != rec["image_size"]:
                        hist["requests_after_image_size_changed"] += 1
        if "alias" in r:
            hist["histories"]["cache_hits"] += len(r["alias"]) - len(set(r["alias"]))
        if code & 2:
            sh, e2 = h, entry
            if "canvases" in r and not ctx.replay and n_shrunk < 2:
                n_shrunk += 1
                cand, _t = shrink(h, entry)
                if cand is not h:
                    ev, _e = evaluate([cand], "c17_shrink")
                    if ev[0][0] & 2:
                        sh, e2 = cand, ev[0]
            why2 = e2[1]
            trim = None
            last = sh["steps"][-1]
            if last[0] == "trim" and isinstance(last[2], list) and len(last[2]) == 1:
                trim = last[2][0]
            ff2 = None
            if not why2 and last[0] in ("inter", "compose") and "canvases" in e2[2]:
                ff2 = first_failure(sh, e2)
            if why2:
                detail = "; ".join(why2)
            elif ff2:
                k2, rq2, si2, j2 = ff2
                rec2 = e2[2]["canvases"][k2]
                g2 = next((g for g in rec2["inter"] if j2 in g["obs"]), None)
                made = ("the content() calls urwid itself makes while rendering the composition "
                        f"{sh['steps'][si2][3]} of the widget at {tuple(sh['steps'][si2][2])}" if sh["steps"][si2][0] == "compose"
                        else "content() generators created together by the driver")
                detail = (f"SEVERAL REQUESTS IN FLIGHT AT ONCE on one canvas {tuple(rec2['size'])} holding an image of "
                          f"{tuple(rec2['image_size'])} ({made}): requests {g2['reqs'] if g2 else '?'} advanced by next() in the order "
                          f"{g2['sched'] if g2 else '?'}; request content{tuple(rq2)} was handed rows that are not the crop of ITS "
                          f"sub-rectangle of the untrimmed canvas (rows / width / colours / end-of-row attributes)")
            elif trim:
                detail = (f"content{tuple(trim)} on the canvas of the last request does not show the corresponding region of that "
                          f"canvas's untrimmed rows as they were when it was built (rows / width / colours / end-of-row attributes)")
            else:
                bad = [f"canvas {k} {tuple(x['size'])} holding an image of {tuple(x['image_size'])}"
                       for k, (x, cc) in enumerate(zip(e2[2].get("canvases", []), e2[3])) if cc & 2]
                detail = ("a request, or the untrimmed content() itself, does not show what the canvas should (rows not `cols` wide / "
                          "not `rows` many / colours left on / not the crop of the untrimmed rows) on " + ", ".join(bad))
            failures.append({"signature": core.sig(["c17", sh["style"], sh["img"], sh["widgets"], sh["steps"], why2[:1]]),
                             "what": f"{detail} — {describe_history(sh)}", "replay": {"case": sh}})
        elif code & 1:
            k = next((k for k, cc in enumerate(ccodes) if cc & 1), 0)
            rec = r["canvases"][k] if "canvases" in r else None
            mismatches.append({"case": describe_history(h, r), "canvas": k, "code": code,
                               "explain": explain(view(h, rec), rec)[:600] if len(mismatches) < 3 and rec else ""})
    return {
        "corr_name": "TrimFlow.announced_rows / rendered_canvas over Sizing.valid_size (from pixel size, cell size, cell ratio, maxcol) "
                     "== real UrwidImage.rows / render / content of flow widgets; "
                     "Trim.content_text / content_gfx / rows (model, run on the data captured when each canvas was built) == real "
                     "UrwidImage.render(size).content(...) over render/request histories, UrwidImage.rows; TrimIter.run == several live "
                     "content() generators of one canvas under a schedule (driver-made and urwid-made); TrimPlaceholder.render_outcome == "
                     "UrwidImage.render when rendering fails",
        "evaluations": hist["trims"],
        "distinct_nontrivial": len(distinct),
        "rule": "HISTORIES: single render-then-request cases plus (quick ~40%, thorough ~50%) histories of 2-3 renders of one widget — or "
                "of two widgets sharing one image object, one upscaling — at different box / flow sizes with the requests made on "
                "EARLIER canvases after later renders and interleaved (A, B, trim A, trim B, render C, trim A ...), urwid's canvas cache "
                "cleared before each render or left on (30%; a cache hit is recognised by object identity); every request is compared "
                "with the model and the crop specification evaluated on the lines / image size / untrimmed rows captured when that "
                "canvas was built; the untrimmed content() is re-read at every request step and must not change.  "
                "canvases: corpus (9 alignments of a 4x2-cell image in 8x4, unpadded, uniform, opaque background, kitty work-around, "
                "flow with and without upscale, 1-cell image, 1-column / 1-row canvases, kitty / iterm2 LINES and WHOLE with disguise) + "
                "random (Block 70%: images 1..8 x 1..12 px with run structure — runs, single-pixel changes, alpha flips, pixels equal "
                "to the terminal background —, modes RGB/RGBA/LA/P, alpha '', '#', '#.5', '#.0', '#rrggbb', '##', kitty work-around; "
                "Kitty / ITerm2 30%: LINES / WHOLE, konsole / wezterm, disguise states 0..2 each), box sizes 1..8 x 1..6 and flow "
                "widths, every alignment and the defaults, upscale on/off, directly and through urwid.CompositeCanvas trimming; "
                "EVERY (trim_left, trim_top, cols, rows) of canvases <= 8x6 plus the protocol's None defaults with a zero trim; "
                "60 random sub-rectangles of larger canvases (up to 30x15).  evaluations = content() calls compared.  Non-trivial: "
                "text canvas, a horizontal cut strictly inside the image on a visible image line; graphics: vertical trim of a "
                "multi-line image; distinct by (canvas, sub-rectangle).  "
                "ROUND 4 — SIMULTANEOUS REQUESTS: on canvases of dedicated histories (text 70% / graphics, box sizes 2..8 x 2..6 and "
                "up to 30x15, sometimes with a later render of the widget in between) and of half of the render/request histories, "
                "groups of k = 2..3 content() generators of ONE canvas object created together (the pieces left / right of a covered "
                "block over the same rows, arbitrary mostly tall rectangles, the same columns at different rows) and advanced by "
                "next() in lock-step, one ahead, one after the other, reversed, at random, or with the first one abandoned part of "
                "the way and finished last, each then run to its end (the StopIteration included); and REAL urwid compositions — "
                "1..3 nested urwid.Overlay (SolidFill / Filler(Text) tops at explicit positions, mostly strictly inside) over the "
                "widget or over a urwid.Columns showing the same widget twice (one canvas object), rendered and read through "
                "CompositeCanvas.content() with every UrwidImageCanvas.content() call urwid makes and every next() recorded in "
                "urwid's order (2..13 requests per canvas).  Each request's rows are an ordinary observation (model + crop of ITS "
                "sub-rectangle); per group Coq replays the schedule on the generator model (TrimIter.run) and checks that each "
                "request's next() results are its observation followed by StopIterations only.  Non-trivial: a text canvas with two "
                "requests of different horizontal trims unfinished at the same time.  FAILING RENDERS: the image is backed by a file "
                "that vanishes / is overwritten with garbage, or by a renderer that raises, switched on AFTER the widgets were built "
                "(and off again), error placeholder SolidFill (box only) / Text, Pile, Divider (flow only) / Filler(Text), "
                "LineBox(Filler) (both) / another UrwidImage / none; flow renders (upscaling and not, widths 1..24, under environment "
                "changes) and box renders: rows() before and (uncached) after the render, the canvas returned (size, rows content() "
                "yields, width of plain-text rows) or the exception, what the placeholder itself does with that box size and with "
                "the flow size (probed) — judged in Coq (TrimPhTie.pcheck) against TrimPlaceholder.render_outcome and against the "
                "rows-announced = rows-rendered clause.  Non-trivial: a failing flow render whose placeholder's own flow height "
                "differs from the announced rows.  ROUND 6 — FLOW WIDTHS AT THE IMAGE'S ORIGINAL COLUMNS: histories of two flow "
                "widgets (not upscaling / upscaling) of one image laid out at widths exactly equal to, one below and one above the "
                "image's ORIGINAL number of columns; graphics-based images 80% (Kitty / ITerm2) whose pixel width and height are "
                "NOT multiples of the cell width / height (k*cw + 1..cw-1 by m*ch + 1..ch-1 px, k <= 8, m <= 12), cell sizes 10x20, "
                "8x16, 10x10, 7x21, 12x16, 9x18, 6x13, 11x23, in 40% changed after construction with the widths recomputed; "
                "text images of odd pixel heights.  EVERY flow render of the run (these and all earlier families) is judged in Coq "
                "(TrimFlowTie.fcheck) from the image's pixel size and the cell size / cell ratio at that render: the sizing model on "
                "primitive binary64 floats must give the observed _valid_size(maxcol) / _valid_size(ORIGINAL), rows() before / "
                "after, canvas and image size; rows() = canvas.rows() = rows content() yields and canvas.cols() = maxcol.  "
                "Non-trivial there: a non-upscaling flow render whose fitted size is lower than the original size at the same width.",
        "samples": [describe_history(h, e[2]) for h, e in list(zip(hs, res))[:1] + list(zip(hs, res))[21:24] + list(zip(hs, res))[-2:]],
        "histogram": hist,
        "mismatches": mismatches,
        "failures": failures,
        "errors": errors,
        "assumptions": [
            "a text image's canvas lines have the shape [spaces] cells-separated-by-NUL [spaces] NUL NUL with every cell's colours fixed "
            "by the nearest SGR prefix at or left of it (TrimSpec.wf_line; checked on every tested canvas by TrimTie.shape_ok)",
            "the image fits in the canvas (set_size / _valid_size, C04)",
            "_valid_size is a function of the image and the terminal only (same answer in rows() and render())",
            "terminal conventions of lib/Term.v (SGR direct colour, NUL ignored)",
            "a canvas is a snapshot: content() is a function of what was stored at construction (lines, canvas size, image size) and "
            "of the widget's immutable alignment; only the disguise suffix of graphics rows follows live (widget / class) state",
            "what a canvas stored at construction is never modified afterwards, and a content() generator keeps its request's layout in "
            "its own frame (model/TrimIter.v; that the real code does is what the simultaneous-request cases test)",
            "the error placeholder is a widget that accepts a box size and then renders a canvas of exactly that size (urwid's box-widget "
            "contract; probed at every failing render); with a placeholder that refuses a box size the render raises (no rows rendered)",
            "sizing (rows(), set_size) does not need the image data: it keeps working while rendering fails",
        ],
        "trusted": ["harness/lexer.py", "harness/impl/impl_c17.py (row bytes joined, disguise pairs counted; the spy that wraps "
                    "UrwidImageCanvas.content while a composition is rendered; the file / renderer failure switches)"],
    }
