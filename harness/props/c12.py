"""C12 — terminal queries report what the terminal said, whatever the timing.

Correspondence (three layers, all judged INSIDE Coq by model/QueryTie.v):

  x     `x_parse_color` on generated specs                      -> QueryTie.check_x
  fast  the parsing / decision half of the real getters (get_fg_bg_colors,
        get_terminal_name_version, get_cell_size, KittyImage.is_supported,
        ITerm2Image.is_supported, auto_image_class) on canned responses
        (impl_c12.py fast mode: only query_terminal / read_tty are replaced; window size and
        TIOCGWINSZ are a real pty's)                             -> QueryTie.check_fast
  pty   the REAL functions against a pty in real time: this process plays the terminal from
        a generated profile and a burst / delay / late recipe (c12_pty.py), FROM A GENERATED
        INITIAL STATE of the terminal (attribute set: cooked / cbreak / raw / ...; unread
        input already in its queue: type-ahead, key escape sequences, a stale reply, half a
        sequence — model/QueryInit.v); observed: return value, requests written, bytes left
        unread, number of timeouts waited, terminal attributes restored
                                                                 -> QueryTie.pty_bits

Every judgement has two halves: agreement with the executable model (model/Query.v) and, when
the case is inside the property's hypothesis (well-formed replies, each written as a unit, in
time), agreement with the SPECIFICATION side (model/QuerySpec.v: a function of the terminal
profile alone).  A specification disagreement is a property failure with replay.

Real time is the only non-deterministic ingredient.  Nothing is reported because of it:
a run in which a "timely" burst was not written within half the timeout is repeated, every
discrepancy is re-run twice on a quiet single session with a longer timeout and must
reproduce both times, otherwise it is only counted (`unreproduced_discrepancies`)."""
from __future__ import annotations

import copy
import math
import threading
import time

import core
from props import c12_pty as P

LEVEL = "proof"
EXTRA_TARGETS = ["model/QueryTie.vo"]

HEADER = ("From Coq Require Import Ascii String List ZArith Bool Arith.\nImport ListNotations.\n"
          "From TI Require Import model.Query model.QuerySpec model.QueryInit model.QueryTie.\nOpen Scope Z_scope.\n")

OSC, ST, BEL, DCS, APC, CSI = b"\x1b]", b"\x1b\\", b"\x07", b"\x1bP", b"\x1b_", b"\x1b["
REQ_FGBG = P.Q_FG + P.Q_BG + P.Q_DA1
REQ_XTV = P.Q_XTVERSION + P.Q_DA1
REQ_CELL = P.Q_CELL + P.Q_AREA + P.Q_DA1
REQ_KITTY = P.Q_KITTY + P.Q_DA1
SLOTS = ["xtv", "fg", "bg", "cell", "area", "kitty", "da1"]
OPS = ["fgbg", "namever", "cellsize", "kitty", "iterm2", "auto"]
OPK = {"fgbg": "OpFgBg", "namever": "OpNameVer", "cellsize": "OpCell", "kitty": "OpKitty",
       "iterm2": "OpIterm2", "auto": "OpAuto"}
ALLOWED_EXC = {"fgbg": "ValueError", "cellsize": "ZeroDivisionError", "iterm2": "AttributeError",
               "auto": "AttributeError"}
T_QUICK = 0.2   # query timeout of the pty runs (seconds)
T_SLOW = 0.6    # ... of the confirmation re-runs

# ------------------------------------------------------------------ Coq rendering


def b(x):
    return "true" if x else "false"


def bl(x):
    return "[" + "; ".join(str(int(v)) for v in x) + "]"


def obl(x):
    return "None" if x is None else "(Some %s)" % bl(x)


def s2l(s):
    return None if s is None else list(s.encode())


def cfg_term(c):
    return ("{| enabled := %s; qtimeout := TIMEOUT; swap := %s; termux := %s; env_name := %s; env_version := %s; "
            "ws_cols := %d; ws_rows := %d; ws_xpix := %d; ws_ypix := %d; ioctl_ok := true |}" % (
                b(c["enabled"]), b(c["swap"]), b(c["termux"]), obl(s2l(c["env_name"])), obl(s2l(c["env_version"])),
                c["cols"], c["rows"], c["xpix"], c["ypix"]))


def reply_term(r, wf):
    if r is None:
        return "None"
    if "raw" in r:
        return "(Some (Raw %s))" % bl(r["raw"])
    return "(Some (Wf %s))" % wf(r["wf"])


def rgb_wf(w):
    return "{| c_r := %s; c_g := %s; c_b := %s; c_bel := %s |}" % (bl(w["r"]), bl(w["g"]), bl(w["b"]), b(w["bel"]))


def xtv_wf(w):
    return "{| x_name := %s; x_open := %s; x_ver := %s; x_close := %s; x_bel := %s |}" % (
        bl(w["name"]), b(w["open"]), bl(w["ver"]), b(w["close"]), b(w["bel"]))


def hw_wf(w):
    return "(%s, %s)" % (bl(w["h"]), bl(w["w"]))


def kitty_wf(w):
    return "{| k_id := %s; k_num := %s; k_msg := %s |}" % (bl(w["id"]), obl(w["num"]), bl(w["msg"]))


def profile_term(sp):
    return ("{| p_xtv := %s; p_fg := %s; p_bg := %s; p_cell := %s; p_area := %s; p_kitty := %s; p_da1 := %s |}" % (
        reply_term(sp["xtv"], xtv_wf), reply_term(sp["fg"], rgb_wf), reply_term(sp["bg"], rgb_wf),
        reply_term(sp["cell"], hw_wf), reply_term(sp["area"], hw_wf), reply_term(sp["kitty"], kitty_wf),
        reply_term(sp["da1"], bl)))


# ---- the initial state of the terminal (model/QueryInit.v)
def A(echo, icanon, isig, opost, vmin=1, vtime=0):
    return {"echo": echo, "icanon": icanon, "isig": isig, "opost": opost, "vmin": vmin, "vtime": vtime}


ATTRS = {
    "cooked": A(True, True, True, True),               # a shell / a REPL
    "cooked-noecho": A(False, True, True, True),       # e.g. while a password is typed
    "cbreak": A(False, False, True, True),             # tty.setcbreak: full-screen programs
    "cbreak-echo": A(True, False, True, True),
    "raw": A(False, False, False, False),              # tty.setraw / curses raw() / urwid
    "raw-vmin0-vtime1": A(False, False, False, False, 0, 1),
    "raw-vmin5": A(False, False, False, False, 5, 0),
}
TYPEAHEAD = {
    "none": b"",
    "printable": b"abc",
    "key-escape-sequence": b"\x1b[A",
    "stale-DA1-reply": b"\x1b[?62;c",
    "partial-escape-sequence": b"\x1b]11;rgb:12",
    "stale-XTVERSION-reply": b"\x1bP>|foot(1.13.1)\x1b\\",
    "stale-colour-reply": b"\x1b]10;rgb:1/2/3\x07",
    "lone-CSI": b"\x1b[",
}
NO_INIT = {"attrs": ATTRS["cooked"], "typeahead": []}


def init_of(c):
    return c.get("init") or NO_INIT


def mk_init(attrs, typeahead):
    return {"attrs": dict(ATTRS[attrs]) if isinstance(attrs, str) else attrs,
            "typeahead": list(TYPEAHEAD[typeahead]) if isinstance(typeahead, str) else list(typeahead)}


def attr_term(a):
    return ("{| a_echo := %s; a_icanon := %s; a_isig := %s; a_opost := %s; a_vmin := %d; a_vtime := %d |}" % (
        b(a["echo"]), b(a["icanon"]), b(a["isig"]), b(a["opost"]), a["vmin"], a["vtime"]))


def attrs_name(a, short=False):
    if short:  # histogram key
        return next((k for k, v in ATTRS.items() if v == a),
                    "other(echo=%d,icanon=%d,...)" % (a["echo"], a["icanon"]))
    return next((k for k, v in ATTRS.items() if v == a), "echo=%d,icanon=%d,isig=%d,opost=%d,vmin=%d,vtime=%d" % (
        a["echo"], a["icanon"], a["isig"], a["opost"], a["vmin"], a["vtime"]))


def typeahead_kind(t):
    t = bytes(t)
    return next((k for k, v in TYPEAHEAD.items() if v == t), "other")


def cache_term(c):
    return "(%d, %d, %d, %d)" % tuple(c)


def ocol(c):
    return "None" if c is None else "(Some (%d, %d, %d))" % tuple(c)


def opk_term(c):
    op = c["op"]
    if op == "raw":
        return "OpRawCsi" if c["more"] == "csi" else "OpRawC"
    if op == "session":
        return "(OpSession %s)" % core.coq_list(c["calls"], call_term)
    return OPK[op]


def call_term(call):
    if call[0] == "nv":
        return "SNv"
    return "(SFg %s)" % ("FDefault" if call[1] is None else "(FHex %s)" % b(call[1]))


def sres_term(call, r):
    """one result of a session as a Query.sres (None: not representable -> mismatch)"""
    if call[0] == "nv":
        return None if "exc" in r else "(RNv %s %s)" % (obl(r["ok"][0]), obl(r["ok"][1]))
    if "exc" in r:
        return "(RFg None)" if r["exc"] == "ValueError" else None
    vals = [v for v in r["ok"] if v is not None]
    kinds = {v[0] for v in vals}
    if not kinds:  # (None, None) looks the same in both representations
        kinds = {"hex" if call[1] else "rgb"}
    if kinds == {"rgb"}:
        return "(RFg (Some (VRgb (%s, %s))))" % tuple(ocol(v and v[1:]) for v in r["ok"])
    if kinds == {"hex"}:
        return "(RFg (Some (VHex (%s, %s))))" % tuple(obl(v and v[1:]) for v in r["ok"])
    return None


def obs_term(op, res, calls=None):
    """the observation as a QueryTie.obs; an exception the model has no case for is rendered
    with a constructor that can never compare equal (-> reported as a mismatch)"""
    wrong = "OBool None" if op == "raw" else "ORaw None"
    if op == "session":
        if "exc" in res or len(res["ok"]) != len(calls):
            return wrong
        terms = [sres_term(c, r) for c, r in zip(calls, res["ok"])]
        return wrong if any(t is None for t in terms) else "OSession %s" % core.coq_list(terms)
    if "exc" in res:
        if ALLOWED_EXC.get(op) != res["exc"]:
            return wrong
        return {"fgbg": "OFgBg None", "cellsize": "OCell CsRaise (0, 0, 0, 0)", "iterm2": "OBool None",
                "auto": "OStyle None"}[op]
    v = res["ok"]
    if op == "fgbg":
        return "OFgBg (Some (%s, %s))" % (ocol(v[0]), ocol(v[1]))
    if op == "namever":
        return "ONameVer %s %s" % (obl(v[0]), obl(v[1]))
    if op == "cellsize":
        return "OCell %s %s" % ("CsNone" if v is None else "(CsSize %d %d)" % tuple(v), cache_term(res["cache"]))
    if op in ("kitty", "iterm2"):
        return "OBool (Some %s)" % b(v)
    if op == "auto":
        return "OStyle (Some %s)" % {"kitty": "Kitty", "iterm2": "Iterm2", "block": "Block"}[v]
    return "ORaw %s" % obl(v)


# ------------------------------------------------------------ printers (mirror QuerySpec)


def term_(bel):
    return BEL if bel else ST


def print_slot(slot, r):
    if r is None:
        return None
    if "raw" in r:
        return bytes(r["raw"])
    w = r["wf"]
    if slot in ("fg", "bg"):
        return (OSC + (b"10" if slot == "fg" else b"11") + b";rgb:" + bytes(w["r"]) + b"/" + bytes(w["g"]) + b"/"
                + bytes(w["b"]) + term_(w["bel"]))
    if slot == "xtv":
        return (DCS + b">|" + bytes(w["name"]) + (b"(" if w["open"] else b" ") + bytes(w["ver"])
                + (b")" if w["close"] else b"") + term_(w["bel"]))
    if slot in ("cell", "area"):
        return CSI + (b"6" if slot == "cell" else b"4") + b";" + bytes(w["h"]) + b";" + bytes(w["w"]) + b"t"
    if slot == "kitty":
        return (APC + b"Gi=" + bytes(w["id"]) + (b",I=" + bytes(w["num"]) if w["num"] is not None else b"")
                + b";" + bytes(w["msg"]) + ST)
    return CSI + b"?" + bytes(w) + b"c"


def printed(sp):
    return {k: (None if sp[k] is None else list(print_slot(k, sp[k]))) for k in SLOTS}


def cat(*xs):
    return b"".join(bytes(x) for x in xs if x is not None)


def exp_resp1(op, pr):
    csi = CSI if pr["da1"] is not None else b""
    if op == "fgbg":
        return cat(pr["fg"], pr["bg"]) + csi
    if op == "cellsize":
        return cat(pr["cell"], pr["area"], pr["da1"])
    return cat(pr["xtv"]) + csi


def exp_resp2(pr):
    return cat(pr["kitty"], pr["da1"])


# ---------------------------------------------------------------------- generators

HEXD = b"0123456789abcdefABCDEF"
SAFE = sorted(P.PTY_SAFE)
IDENTS = [
    ("kitty", "0.19.3"), ("kitty", "0.20.0"), ("kitty", "0.26.5"), ("kitty", "0.20"), ("kitty", "0.20.0.1"),
    ("kitty", "1.0"), ("kitty", "0.9.99"), ("kitty", "0.100.0"), ("kitty", "0.20.a"), ("kitty", "0_0.2_1.0"),
    ("kitty", "0.19.99"), ("kitty", "0..20"), ("kitty", "+0.21.-1"), ("KITTY", "0.21.2"), ("kitty", " 0.20.0 "),
    ("konsole", "22.04.0"), ("Konsole", "22.03.9"), ("konsole", "22.4"), ("konsole", "23.08.1"),
    ("konsole", "21.12.3"), ("konsole", "22.04"), ("konsole", "22.4.0.1"), ("konsole", "22.x"), ("konsole", "100"),
    ("konsole", "9.99.99"), ("WezTerm", "20230408-112425-69ae8472"), ("wezterm", "1"), ("iTerm2", "3.4.19"),
    ("iterm2", "3"), ("XTerm", "370"), ("foot", "1.13.1"), ("mlterm", "3.9.2"), ("tmux", "3.3a"),
    ("contour", "0.3.1.200"), ("st", "0.9"), ("kitty_fork", "0.30.0"), ("xterm", "kitty 0.30"), ("k", "0"),
]
ENV_NAMES = [None, None, None, "iTerm.app", "WezTerm", "kitty", "konsole", "Konsole", "vscode", "iterm2", "iTerm2", ""]
ENV_VERS = [None, None, "3.4.19", "22.04.0", "22.03", "0.26.5", "0.19", "nightly", ""]
DA1S = [b"62;", b"62;c"[:-1], b"1;2", b"64;1;2;4;6;17;18;21;22", b"", b"6", b"65;1;9"]
KMSGS = [b"OK", b"OK", b"OK", b"OK", b"ENOENT:could not open", b"EINVAL:bad code", b"EBADF", b"ok", b"OK ", b"c",
         b"ENODATA:no such cached image"]


def gen_comp(rng):
    n = rng.choice([1, 2, 2, 3, 4, 4])
    u = rng.random()
    if u < 0.14:
        return list(rng.choice([b"0", b"f", b"F"]) * n)
    if u < 0.26:
        return list(rng.choice([b"8" + b"0" * (n - 1), b"7" + b"f" * (n - 1), b"0" * (n - 1) + b"1",
                                b"f" * (n - 1) + b"e"]))
    return [rng.choice(HEXD) for _ in range(n)]


def gen_rgb(rng, odd=False):
    comps = [gen_comp(rng) for _ in range(3)]
    if rng.random() < 0.2:
        n = rng.choice([1, 2, 4])
        comps = [[rng.choice(HEXD) for _ in range(n)] for _ in range(3)]
    if odd:
        comps[rng.randrange(3)] = rng.choice([[], list(b"12345"), list(b"fffff")])
    return {"r": comps[0], "g": comps[1], "b": comps[2], "bel": rng.random() < 0.35}


def gen_digits(rng, kind):
    u = rng.random()
    if kind == "cell":
        v = rng.choice([8, 9, 10, 16, 17, 20, 32, 1, 0]) if u < 0.9 else rng.randrange(0, 70000)
    else:
        v = rng.choice([480, 600, 768, 1080, 800, 1, 79, 0, 24, 80]) if u < 0.8 else rng.randrange(0, 70000)
    s = str(v)
    if rng.random() < 0.06:
        s = "0" + s
    return list(s.encode())


def gen_xtv(rng, odd=False):
    if rng.random() < 0.82:
        name, ver = rng.choice(IDENTS)
    else:
        name = "".join(rng.choice("abkKtT_09zX") for _ in range(rng.randint(1, 8)))
        ver = "".join(rng.choice("0123456789..  -abv(_+") for _ in range(rng.randint(1, 10)))
    w = {"name": list(name.encode()), "open": rng.random() < 0.6, "ver": list(ver.encode()),
         "close": False, "bel": rng.random() < 0.3}
    w["close"] = w["open"] and rng.random() < 0.9
    if odd:
        k = rng.randrange(3)
        if k == 0:
            w["name"] = []
        elif k == 1:
            w["ver"] = list(b"1.0)2")
        else:
            w["name"] = list(b"xt-erm")
    return w


def gen_kitty(rng, odd=False):
    w = {"id": list(rng.choice([b"31"] * 8 + [b"32", b"1", b"031"])),
         "num": rng.choice([None] * 5 + [list(b"1"), list(b"42")]),
         "msg": list(rng.choice(KMSGS))}
    if odd:
        w["msg"] = rng.choice([[], list(b"O\nK")])
    return w


def mangle(rng, data: bytes, safe: bool):
    alphabet = SAFE if safe else list(range(128))
    u = rng.random()
    if u < 0.3 and len(data) > 1:
        return data[:rng.randrange(1, len(data))]
    if u < 0.5 and len(data) > 1:
        i = rng.randrange(len(data))
        return data[:i] + bytes([rng.choice(alphabet)]) + data[i + 1:]
    if u < 0.65:
        return data + rng.choice([b"c", b"\x1b[", b"\x1b[?1;2c", b"\x1b\\", b"x"])
    if u < 0.8:
        return rng.choice([b"c", b"\x1b[", b"\x1b[0c", b"\x1b[?c"]) + data
    return bytes(rng.choice(alphabet) for _ in range(rng.randint(1, 12)))


def gen_sp(rng, op, safe=True, p_raw=0.06, p_odd=0.04):
    """a terminal profile; `safe`: only bytes that may be written to a tty in cooked mode"""
    pres = {"xtv": 0.8, "fg": 0.8, "bg": 0.8, "cell": 0.45, "area": 0.7, "kitty": 0.7, "da1": 0.86}
    if rng.random() < 0.05:
        pres = dict.fromkeys(pres, 0.0)  # a silent terminal
    sp = {}
    for slot in SLOTS:
        if rng.random() >= pres[slot]:
            sp[slot] = None
            continue
        odd = rng.random() < p_odd
        if slot == "xtv":
            w = gen_xtv(rng, odd)
        elif slot in ("fg", "bg"):
            w = gen_rgb(rng, odd)
        elif slot in ("cell", "area"):
            w = {"h": gen_digits(rng, slot), "w": gen_digits(rng, slot)}
            if odd:
                w["h"] = []
        elif slot == "kitty":
            w = gen_kitty(rng, odd)
        else:
            w = list(rng.choice(DA1S)) + (list(b"x") if odd else [])
        sp[slot] = {"wf": w}
        if rng.random() < p_raw:
            raw = mangle(rng, print_slot(slot, sp[slot]), safe)
            sp[slot] = {"raw": [x for x in raw if (x in P.PTY_SAFE or not safe)] or [120]}
    if safe:  # "O\nK" and friends are for the fast mode only
        for slot in SLOTS:
            pr = print_slot(slot, sp[slot])
            if pr is not None and any(x not in P.PTY_SAFE for x in pr):
                sp[slot] = {"raw": [x for x in pr if x in P.PTY_SAFE] or [120]}
    return sp


def gen_cfg(rng, op):
    c = {"enabled": rng.random() < 0.9, "swap": rng.random() < 0.25, "termux": rng.random() < 0.12,
         "env_name": rng.choice(ENV_NAMES), "env_version": rng.choice(ENV_VERS),
         "cols": 80, "rows": 24, "xpix": 0, "ypix": 0}
    cache = [0, 0, 0, 0]
    if op == "cellsize":
        c["cols"] = rng.choice([80, 80, 80, 100, 132, 1, 2, 7, 0])
        c["rows"] = rng.choice([24, 24, 30, 50, 1, 3, 0])
        cw, ch = rng.choice([(8, 16), (10, 20), (9, 18), (7, 15), (1, 1), (12, 24)])
        u = rng.random()
        if u < 0.55:
            x, y = 0, 0
        elif u < 0.75:
            x, y = c["cols"] * cw + rng.choice([0, 0, 3]), c["rows"] * ch + rng.choice([0, 5])
        elif u < 0.85:
            x, y = 0, c["rows"] * ch
        elif u < 0.93:
            x, y = c["cols"] * cw, 0
        else:
            x, y = max(c["cols"] - 1, 0), c["rows"] * ch
        c["xpix"], c["ypix"] = min(x, 65535), min(y, 65535)
        u = rng.random()
        if u < 0.12:
            cache = [c["cols"], c["rows"], rng.choice([0, 8, 10]), rng.choice([16, 0, 20])]
        elif u < 0.2:
            cache = [c["cols"] + 1, c["rows"], 8, 16]
    return c, cache


def gen_recipe(rng, allow_late=True):
    mode = rng.choices(["whole", "units", "ugroups", "cuts", "every"], [3, 4, 2, 5, 1])[0]
    r = {"mode": mode, "delays": []}
    if mode == "ugroups":
        r["mask"] = [rng.randrange(2) for _ in range(3)]
    if mode == "cuts":
        r["cuts"] = [rng.choice([rng.randrange(1, 70), -rng.randrange(1, 12)]) for _ in range(rng.choice([1, 1, 2, 3, 5]))]
    if rng.random() < 0.7:
        late_w = 1 if allow_late else 0
        r["delays"] = [rng.choices([0, 1, 2], [5, 4, late_w])[0] for _ in range(rng.randint(1, 6))]
    return r


FORMS = [["fg", None], ["fg", True], ["fg", False], ["nv"]]


def gen_calls(rng):
    """the calls of one cache epoch: the colour getter in its three argument forms (no
    positional form exists: `hex` is keyword-only) and the name/version getter, 2-7 calls
    in varying order with repetitions"""
    n = rng.randint(2, 7)
    w = rng.choice([[3, 3, 3, 2], [1, 4, 4, 1], [4, 4, 1, 1], [2, 2, 2, 4]])
    calls = [copy.deepcopy(rng.choices(FORMS, w)[0]) for _ in range(n)]
    if rng.random() < 0.5:  # make sure both explicit keyword values meet in most epochs
        i = rng.randrange(n)
        calls[i:i] = [["fg", rng.random() < 0.5], ["fg", rng.random() < 0.5]]
    return calls


def gen_init(rng):
    """an initial state: one of the usual attribute sets (sometimes with other VMIN / VTIME, or
    an arbitrary combination of the flags) x unread input (the named kinds, or arbitrary bytes
    that are safe to write to a tty)"""
    u = rng.random()
    if u < 0.8:
        a = dict(ATTRS[rng.choice(list(ATTRS))])
    else:
        a = A(rng.random() < 0.5, rng.random() < 0.5, rng.random() < 0.7, rng.random() < 0.7)
    if rng.random() < 0.2:
        a["vmin"], a["vtime"] = rng.choice([(0, 0), (0, 1), (1, 0), (1, 2), (3, 0), (255, 0)])
    u = rng.random()
    if u < 0.15:
        t = b""
    elif u < 0.75:
        t = TYPEAHEAD[rng.choice([k for k in TYPEAHEAD if k != "none"])]
    elif u < 0.9:
        t = bytes(rng.choice(SAFE) for _ in range(rng.randint(1, 12)))
    else:  # several things queued up
        t = b"".join(TYPEAHEAD[rng.choice(list(TYPEAHEAD))] for _ in range(rng.randint(2, 3)))
    return mk_init(a, t)


def gen_pty(rng, op=None):
    c = gen_pty0(rng, op)
    if rng.random() < 0.45:
        c["init"] = gen_init(rng)
    if rng.random() < 0.4:
        c["place"] = rng.choice(PLACES)
    return c


def gen_pty0(rng, op=None):
    op = op or rng.choices(OPS + ["raw", "session"], [4, 4, 4, 4, 2, 4, 2, 6])[0]
    if op == "raw":
        more = rng.choice(["csi", "c"])
        units = [mangle(rng, rng.choice([b"\x1b[?62;c", b"\x1bP>|foot(1.1)\x1b\\", b"abc", b"\x1b]10;rgb:1/2/3\x07"]), True)
                 if rng.random() < 0.5 else rng.choice([b"\x1b[?62;c", b"\x1b[4;480;800t", b"xyz", b"\x1b["])
                 for _ in range(rng.randint(0, 3))]
        units = [[x for x in u if x in P.PTY_SAFE] or [120] for u in units]
        req = rng.choice([b"\x1b[c", b"\x1b[5n", b"\x1b[>q\x1b[c", b"\x1b]4;1;?\x07"])
        cfg, cache = gen_cfg(rng, op)
        return {"kind": "pty", "op": "raw", "more": more, "request": list(req), "stream_units": units,
                "cfg": cfg, "cache": cache, "sp": dict.fromkeys(SLOTS), "recipes": [gen_recipe(rng)]}
    cfg, cache = gen_cfg(rng, op)
    allow_late = rng.random() < (0.15 if op == "session" else 0.35)
    c = {"kind": "pty", "op": op, "cfg": cfg, "cache": cache, "sp": gen_sp(rng, op, safe=True),
         "recipes": [gen_recipe(rng, allow_late), gen_recipe(rng, allow_late)]}
    if op == "session":
        c["calls"] = gen_calls(rng)
    return c


def gen_fast(rng):
    op = rng.choices(OPS + ["session"], [4, 4, 5, 5, 3, 4, 6])[0]
    cfg, cache = gen_cfg(rng, op)
    sp = gen_sp(rng, op, safe=False)
    pr = printed(sp)
    r1, r2 = exp_resp1(op, pr), exp_resp2(pr)
    if op == "session":  # resp1: to the colour query, resp2: to the XTVERSION query
        r1, r2 = exp_resp1("fgbg", pr), exp_resp1("namever", pr)
    if rng.random() < 0.22:
        r1 = mangle(rng, r1, False) if r1 else bytes(rng.randrange(128) for _ in range(rng.randint(0, 6)))
    if rng.random() < 0.15:
        r2 = mangle(rng, r2, False) if r2 else b"c"
    c = {"kind": "fast", "op": op, "cfg": cfg, "cache": cache, "sp": sp, "resp1": list(r1), "resp2": list(r2)}
    if op == "session":
        c["calls"] = gen_calls(rng)
    return c


def gen_x(rng):
    u = rng.random()
    if u < 0.7:
        w = gen_rgb(rng, odd=rng.random() < 0.1)
        spec = b"rgb:" + bytes(w["r"]) + b"/" + bytes(w["g"]) + b"/" + bytes(w["b"])
    elif u < 0.85:
        # malformed on purpose.  (Only characters for which int(s, 16) fails iff s has a
        # non-hex character: no sign, blank, underscore, "x" — the reply regex never lets
        # those through and the model does not describe int()'s extras.)
        spec = bytes(rng.choice(b"0123456789abcdefABCDEF//::grGz") for _ in range(rng.randint(0, 14)))
    else:
        spec = b"rgb:" + b"/".join(bytes(gen_comp(rng)) for _ in range(rng.choice([0, 1, 2, 4])))
    return {"kind": "x", "spec": list(spec)}


def full_sp(name=b"kitty", ver=b"0.26.5", kmsg=b"OK"):
    return {"xtv": {"wf": {"name": list(name), "open": True, "ver": list(ver), "close": True, "bel": False}},
            "fg": {"wf": {"r": list(b"ffff"), "g": list(b"8"), "b": list(b"00"), "bel": True}},
            "bg": {"wf": {"r": list(b"1"), "g": list(b"fff"), "b": list(b"ABCD"), "bel": False}},
            "cell": {"wf": {"h": list(b"17"), "w": list(b"8")}},
            "area": {"wf": {"h": list(b"480"), "w": list(b"800")}},
            "kitty": {"wf": {"id": list(b"31"), "num": None, "msg": list(kmsg)}},
            "da1": {"wf": list(b"62;")}}


CFG0 = {"enabled": True, "swap": False, "termux": False, "env_name": None, "env_version": None,
        "cols": 80, "rows": 24, "xpix": 0, "ypix": 0}
WHOLE = {"mode": "whole", "delays": []}
UNITS1 = {"mode": "units", "delays": [0, 1]}


def pty_case(op, sp, cfg=None, recipes=None, cache=None, calls=None, init=None, place=None):
    c = {"kind": "pty", "op": op, "cfg": dict(CFG0, **(cfg or {})), "cache": cache or [0, 0, 0, 0], "sp": sp,
         "recipes": recipes or [UNITS1, UNITS1]}
    if calls is not None:
        c["calls"] = calls
    if init is not None:
        c["init"] = init
    if place is not None:
        c["place"] = place
    return c


# the moment a reply ARRIVES relative to the library's own steps (c12_pty.py, "REPLY PLACEMENT")
PLACES = ["window", "read", "split"]
UNITS0 = {"mode": "units", "delays": []}


def place_cases(full):
    """every getter x every placement point of the replies {right after the request has been
    fully written - before the library's next tty call -, during the read, split across both},
    one write() per reply; a few from a non-default initial state; the raw query too"""
    out = []
    for op, calls, prof in INIT_GETTERS:
        sp = full_sp(b"Konsole", b"22.04.0") if prof == "kons" else full_sp()
        for pl in PLACES:
            out.append(pty_case(op, sp, calls=calls, recipes=[UNITS0, UNITS0], place=pl))
            if full:
                out.append(pty_case(op, sp, calls=calls, recipes=[WHOLE, WHOLE], place=pl))
                out.append(pty_case(op, dict(sp, da1=None), calls=calls, recipes=[UNITS0, UNITS0], place=pl))
    out += [pty_case("namever", full_sp(), recipes=[UNITS0], place="window", init=mk_init("cbreak", "printable")),
            pty_case("fgbg", full_sp(), recipes=[UNITS0], place="split", init=mk_init("raw", "stale-DA1-reply")),
            pty_case("cellsize", full_sp(), recipes=[UNITS0], place="window", init=mk_init("cooked", "key-escape-sequence")),
            pty_case("kitty", full_sp(), recipes=[UNITS0, UNITS0], place="read", init=mk_init("cbreak", "none")),
            # a held-back last reply (beyond the timeout) after the others arrived in the window
            pty_case("namever", full_sp(), recipes=[{"mode": "units", "delays": [0, 2]}], place="window")]
    for pl in PLACES:
        out.append({"kind": "pty", "op": "raw", "more": "c", "request": list(b"\x1b[>q\x1b[c"),
                    "stream_units": [list(b"\x1bP>|foot(1.1)\x1b\\"), list(b"\x1b[?62;c")], "cfg": dict(CFG0),
                    "cache": [0, 0, 0, 0], "sp": dict.fromkeys(SLOTS), "recipes": [UNITS0], "place": pl})
    return out


INIT_GETTERS = [  # every getter: (op, calls, profile)
    ("fgbg", None, None), ("session", [["fg", True], ["fg", False]], None), ("namever", None, None),
    ("cellsize", None, None), ("kitty", None, None), ("iterm2", None, "kons"), ("auto", None, None),
    ("auto", None, "kons"),
]


def init_cases(full):
    """every getter from the initial states {attribute sets} x {unread input}: the whole
    product in the thorough tier; in the quick tier cooked / cbreak / raw with the kinds of
    unread input rotating so that every getter meets every attribute set, and every kind of
    input every attribute set"""
    out = []
    names = list(ATTRS) if full else ["cooked", "cbreak", "raw"]
    kinds = list(TYPEAHEAD) if full else ["printable", "key-escape-sequence", "stale-DA1-reply",
                                          "partial-escape-sequence", "stale-XTVERSION-reply"]
    for i, (op, calls, prof) in enumerate(INIT_GETTERS):
        sp = full_sp(b"Konsole", b"22.04.0") if prof == "kons" else full_sp()
        for j, an in enumerate(names):
            for k, tk in enumerate(kinds):
                if full or (i + j) % len(kinds) == k:
                    out.append(pty_case(op, sp, calls=calls, recipes=[UNITS1, WHOLE], init=mk_init(an, tk)))
    if not full:
        out += [pty_case("namever", full_sp(), init=mk_init("cbreak", "none")),
                pty_case("cellsize", full_sp(), init=mk_init("raw", "none")),
                # no query is made: the unread input is none of the library's business
                pty_case("cellsize", full_sp(), cfg={"xpix": 800, "ypix": 480}, init=mk_init("cbreak", "printable")),
                pty_case("namever", full_sp(), cfg={"enabled": False}, init=mk_init("raw", "key-escape-sequence")),
                pty_case("fgbg", dict.fromkeys(SLOTS), init=mk_init("cbreak", "stale-colour-reply")),
                pty_case("kitty", full_sp(), init=mk_init("raw-vmin0-vtime1", "lone-CSI"))]
    return out


def fast_case(op, sp, cfg=None, cache=None, calls=None):
    pr = printed(sp)
    c = {"kind": "fast", "op": op, "cfg": dict(CFG0, **(cfg or {})), "cache": cache or [0, 0, 0, 0], "sp": sp,
         "resp1": list(exp_resp1(op, pr)), "resp2": list(exp_resp2(pr))}
    if op == "session":
        c.update(resp1=list(exp_resp1("fgbg", pr)), resp2=list(exp_resp1("namever", pr)), calls=calls)
    return c


def corpus():
    silent = dict.fromkeys(SLOTS)
    no_da1 = dict(full_sp(), da1=None)
    f7 = dict(full_sp(), fg={"wf": {"r": list(b"f"), "g": list(b"ff"), "b": list(b"fff"), "bel": False}})
    f10 = full_sp(kmsg=b"ENOENT:could not cache")
    kons = full_sp(b"Konsole", b"22.04.0")
    pty = [
        pty_case("fgbg", f7), pty_case("fgbg", full_sp(), recipes=[WHOLE]), pty_case("fgbg", no_da1),
        pty_case("fgbg", silent), pty_case("fgbg", full_sp(), cfg={"enabled": False}),
        pty_case("namever", full_sp()), pty_case("namever", silent, cfg={"env_name": "WezTerm", "env_version": "2023"}),
        pty_case("namever", full_sp(), recipes=[{"mode": "cuts", "cuts": [-4], "delays": [0, 2]}]),
        pty_case("cellsize", full_sp()), pty_case("cellsize", dict(full_sp(), cell=None), cfg={"swap": True}),
        pty_case("cellsize", dict(full_sp(), cell=None), cfg={"termux": True}),
        pty_case("cellsize", full_sp(), cfg={"xpix": 800, "ypix": 480}), pty_case("cellsize", silent),
        pty_case("cellsize", full_sp(), cfg={"enabled": False}),
        pty_case("kitty", full_sp()), pty_case("kitty", f10), pty_case("kitty", full_sp(b"kitty", b"0.19.3")),
        pty_case("kitty", kons), pty_case("kitty", full_sp(b"iTerm2", b"3.4.19")), pty_case("kitty", silent),
        pty_case("iterm2", kons), pty_case("iterm2", full_sp(b"konsole", b"22.03.9")),
        pty_case("auto", full_sp()), pty_case("auto", f10), pty_case("auto", kons),
        pty_case("auto", dict(kons, kitty=None)), pty_case("auto", full_sp(b"WezTerm", b"20230408")),
        pty_case("auto", full_sp(b"XTerm", b"370")), pty_case("auto", silent),
        pty_case("auto", full_sp(), cfg={"enabled": False, "env_name": "iTerm2"}),
        # one cache epoch, several argument forms (the memo key includes keyword VALUES)
        pty_case("session", full_sp(), calls=[["fg", False], ["fg", True]]),
        pty_case("session", full_sp(), calls=[["fg", True], ["fg", False], ["fg", None], ["fg", True], ["nv"], ["nv"]]),
        pty_case("session", f7, calls=[["fg", None], ["fg", True], ["fg", False], ["fg", True]], recipes=[WHOLE, WHOLE]),
        pty_case("session", dict(full_sp(), fg=None), calls=[["nv"], ["fg", True], ["nv"], ["fg", False], ["fg", True]]),
        pty_case("session", silent, calls=[["fg", True], ["fg", False]], cfg={"env_name": "WezTerm"}),
        pty_case("session", full_sp(), calls=[["fg", False], ["nv"], ["fg", True]], cfg={"enabled": False}),
    ]
    # boundary of "every subset of unsupported queries": a terminal that answers DA1 and nothing else
    only_da1 = dict(silent, da1=full_sp()["da1"])
    pty += [pty_case(op, only_da1, recipes=[WHOLE, WHOLE]) for op in ("fgbg", "namever", "cellsize", "kitty", "auto")]
    pty += [pty_case("session", only_da1, calls=[["fg", True], ["nv"], ["fg", False]], recipes=[WHOLE, WHOLE])]
    fast = [fast_case(c["op"], c["sp"], c["cfg"], c["cache"], c.get("calls")) for c in pty]
    fast += [fast_case("kitty", full_sp(b"kitty", v)) for v in (b"0.20.0", b"0.19.99", b"0.20", b"1", b"0.20.x")]
    fast += [fast_case("iterm2", full_sp(b"konsole", v)) for v in (b"22.04.0", b"22.3.99", b"22.4", b"22", b"23", b"22.04.a")]
    fast += [fast_case("iterm2", dict(silent), cfg={"env_name": "konsole"})]  # version None -> AttributeError
    fast += [fast_case("cellsize", full_sp(), cfg={"cols": 0, "rows": 24}),
             fast_case("cellsize", dict(full_sp(), cell=None), cfg={"cols": 0, "rows": 24}),
             fast_case("cellsize", full_sp(), cfg={"cols": 80, "rows": 24}, cache=[80, 24, 9, 0])]
    xs = [{"kind": "x", "spec": list(s)} for s in (
        b"rgb:f/ff/fff", b"rgb:ffff/ffff/ffff", b"rgb:0/00/0000", b"rgb:8/80/800", b"rgb:F/f/0", b"rgb:1/2",
        b"rgb:1/2/3/4", b"rgb://", b"rgb:12345/1/1", b"rgb:g/1/1", b"", b"1/2/3", b"x:y:1/2/3")]
    return xs, fast, pty


def sweep_cases(step=1, late=False):
    """every split position of the whole reply stream into two bursts (the second delayed, or
    held back beyond the timeout), for one full profile and every query function"""
    out = []
    sp = full_sp()
    pr = printed(sp)
    for op, n in (("namever", len(exp_resp1("namever", pr)) + 5), ("fgbg", len(exp_resp1("fgbg", pr)) + 5),
                  ("cellsize", len(exp_resp1("cellsize", pr))), ("kitty", len(exp_resp2(pr)))):
        for p in range(1, n, step):
            rec = {"mode": "cuts", "cuts": [p], "delays": [0, 2 if late else 1]}
            # for the two-round function the sweep is over the second round
            out.append(pty_case(op, sp, recipes=[WHOLE, rec] if op == "kitty" else [rec]))
    return out


# -------------------------------------------------------------- running and judging


def impl_common(c, T):
    cfg = c["cfg"]
    env = {"SHELL": "/data/data/com.termux/files/usr/bin/bash" if cfg["termux"] else "/bin/sh"}
    if cfg["env_name"] is not None:
        env["TERM_PROGRAM"] = cfg["env_name"]
    if cfg["env_version"] is not None:
        env["TERM_PROGRAM_VERSION"] = cfg["env_version"]
    d = {"op": c["op"], "timeout": T, "enabled": cfg["enabled"], "swap": cfg["swap"], "env": env,
         "cache": c["cache"], "winsize": [cfg["rows"], cfg["cols"], cfg["xpix"], cfg["ypix"]]}
    if c["op"] == "session":
        d["calls"] = c["calls"]
    if c.get("init"):
        d["init"] = c["init"]
    return d


def impl_pty(c, T):
    d = impl_common(c, T)
    d["profile"] = printed(c["sp"])
    d["recipes"] = c["recipes"]
    if c.get("place"):
        d["place"] = c["place"]
    if c["op"] == "raw":
        d.update(more=c["more"], request=c["request"], stream_units=c["stream_units"])
    return d


def impl_fast(c):
    d = impl_common(c, 0.1)
    first = {"fgbg": REQ_FGBG, "cellsize": REQ_CELL, "session": REQ_FGBG}.get(c["op"], REQ_XTV)
    second = REQ_XTV if c["op"] == "session" else REQ_KITTY
    d["responses"] = [[list(first), c["resp1"]], [list(second), c["resp2"]]]
    return d


def play_all(cases, T, workers=None):
    """plays every pty case (each worker owns one implementation process on its own pty)"""
    n = len(cases)
    recs = [None] * n
    nxt = [0]
    lock = threading.Lock()

    def work():
        s = None
        while True:
            with lock:
                i = nxt[0]
                nxt[0] += 1
            if i >= n:
                break
            rec = None
            for attempt in range(4):
                Ta = T if attempt < 2 else max(2.5 * T, T_SLOW)
                try:
                    if s is None:
                        s = P.Session()
                    rec = s.play(impl_pty(cases[i], Ta))
                    rec["attempts"] = attempt + 1
                    if rec["timing_ok"]:
                        break
                except P.Blocked as e:
                    rec = {"blocked": str(e)[-300:], "attempts": attempt + 1}
                    if s is not None:
                        s.close(kill=True)
                    s = None
                    break
                except Exception as e:  # the driver died / protocol error: new process, try again
                    rec = {"error": f"{type(e).__name__}: {e}"[-400:], "attempts": attempt + 1}
                    if s is not None:
                        s.close(kill=True)
                    s = None
            recs[i] = rec
        if s is not None:
            s.close()

    ths = [threading.Thread(target=work) for _ in range(min(workers or core.NCPU, max(n, 1)))]
    for t in ths:
        t.start()
    for t in ths:
        t.join()
    return recs


def nto_bounds(rec):
    T, el = rec["timeout"], rec["elapsed"]
    nmax = int(math.floor((el + 1e-4) / T))
    nmin = max(0, int(math.ceil((el - rec["play_time"] - T / 2) / T)))
    return nmin, nmax


def pcase_term(c, rec):
    res = rec["result"]
    op = c["op"]
    opk = opk_term(c)
    rounds = core.coq_list(rec["rounds"], lambda r: "(%s, %s)" % (
        bl(r["request"]), core.coq_list(r["bursts"], lambda x: "(%d%%nat, %s)" % (x[0], bl(x[1])))))
    nmin, nmax = nto_bounds(rec)
    return ("{| pc_op := %s; pc_cfg := %s; pc_cache := %s; pc_profile := %s; pc_raw_request := %s; pc_rounds := %s; "
            "pc_obs := %s; pc_left := %s; pc_attr := %s; pc_q0 := %s; pc_restored := %s; "
            "pc_nto_min := %d; pc_nto_max := %d |}" % (
                opk, cfg_term(c["cfg"]), cache_term(c["cache"]), profile_term(c["sp"]),
                bl(c.get("request", [])), rounds, obs_term(op, res, c.get("calls")), bl(rec["leftover"]),
                attr_term(init_of(c)["attrs"]), bl(init_of(c)["typeahead"]), b(rec["attr_restored"]), nmin, nmax))


def fcase_term(c, res):
    return ("{| fc_op := %s; fc_cfg := %s; fc_cache := %s; fc_profile := %s; fc_resp1 := (Some %s); fc_resp2 := (Some %s); "
            "fc_obs := %s; fc_requests := %s; fc_drains := %d%%nat |}" % (
                opk_term(c), cfg_term(c["cfg"]), cache_term(c["cache"]), profile_term(c["sp"]), bl(c["resp1"]),
                bl(c["resp2"]), obs_term(c["op"], res, c.get("calls")), core.coq_list(res["requests"], bl),
                res["drains"]))


def xcase_term(c, res):
    return "{| xc_spec := %s; xc_obs := %s |}" % (bl(c["spec"]), ocol(res.get("ok")))


def coq_bits(tag, terms, ctype, expr, shard):
    """-> (bits per case, errors)"""
    if not terms:
        return [], []
    rep, errors = core.coq_shards(tag, HEADER, terms, ctype, expr, shard=shard)
    bits = [None] * len(terms)
    for idx, v in rep:
        bits[idx] = v
    if not errors and any(x is None for x in bits):
        errors.append(f"{tag}: Coq reported {len(rep)} results for {len(terms)} cases")
    return [(-1 if x is None else x) for x in bits], errors


def shard_size(n, lo, hi):
    return max(lo, min(hi, (n + core.NCPU - 1) // core.NCPU))


def eval_x(cases, tag="c12x"):
    res = core.run_impl_parallel("impl_c12.py", [{"op": "xparse", "spec": c["spec"]} for c in cases],
                                 chunk=max(400, (len(cases) + core.NCPU - 1) // core.NCPU))
    bits, errors = coq_bits(tag, [xcase_term(c, r) for c, r in zip(cases, res)], "xcase", "report_x cases",
                            shard_size(len(cases), 100, 400))
    return bits, errors, res


def eval_fast(cases, tag="c12f"):
    res = core.run_impl_parallel("impl_c12.py", [impl_fast(c) for c in cases],
                                 chunk=max(150, (len(cases) + core.NCPU - 1) // core.NCPU))
    bits, errors = coq_bits(tag, [fcase_term(c, r) for c, r in zip(cases, res)], "fcase", "report_fast cases",
                            shard_size(len(cases), 70, 150))
    return bits, errors, res


def eval_pty(cases, T, tag="c12p", workers=None):
    """-> (bits, errors, recs).  bits: pty_bits, or -2 = blocked, -3 = inconclusive (timing
    margins violated in every attempt / driver error)"""
    recs = play_all(cases, T, workers)
    idx = [i for i, r in enumerate(recs) if r and "result" in r and r["timing_ok"]]
    b2, errors = coq_bits(tag, [pcase_term(cases[i], recs[i]) for i in idx], "pcase", "report_pty cases",
                          shard_size(len(idx), 4, 40))
    bits = [(-2 if (r and "blocked" in r) else -3) for r in recs]
    for i, v in zip(idx, b2):
        bits[i] = v
    return bits, errors, recs


def bad(v):
    """a discrepancy (any of the bits 1 2 4 8), blocked, or a Coq failure"""
    return v == -2 or v == -1 or (v >= 0 and v & 15)


def property_bits(v):
    return v == -2 or (v >= 0 and v & 10)


def confirm_pty(case, v0):
    """re-run a discrepancy twice, alone, with a longer timeout: it must reproduce (same
    class) both times.  -> (confirmed bits or None, last record)"""
    rec, seen = None, []
    for _ in range(2):
        bits, errors, recs = eval_pty([case], T_SLOW, tag="c12c", workers=1)
        rec = recs[0]
        if errors or not bad(bits[0]) or bits[0] == -1:
            return None, rec
        if bool(property_bits(bits[0])) != bool(property_bits(v0)):
            return None, rec
        seen.append(bits[0])
    return seen[-1], rec


# --------------------------------------------------------------------- shrinking


def shrink_candidates(c):
    out = []
    if c["kind"] == "pty" and any(r != WHOLE for r in c["recipes"]):
        out.append(dict(c, recipes=[WHOLE for _ in c["recipes"]]))
        out.append(dict(c, recipes=[{"mode": "units", "delays": []} for _ in c["recipes"]]))
    for slot in SLOTS:
        if c["sp"].get(slot) is not None:
            out.append(dict(c, sp=dict(c["sp"], **{slot: None})))
    for k, v in (("swap", False), ("termux", False), ("env_name", None), ("env_version", None)):
        if c["cfg"][k] != v:
            out.append(dict(c, cfg=dict(c["cfg"], **{k: v})))
    if c.get("place"):
        # does it depend on WHEN the reply arrives?  (on sight = in practice during the read)
        out.append({k: v for k, v in c.items() if k != "place"})
        if c["place"] != "window":
            out.append(dict(c, place="window"))
    if c.get("init"):
        i0 = c["init"]
        out.append({k: v for k, v in c.items() if k != "init"})
        if len(i0["typeahead"]) > 1:
            out.append(dict(c, init=dict(i0, typeahead=i0["typeahead"][:1])))
            out.append(dict(c, init=dict(i0, typeahead=[97])))
        for name in ("cbreak", "cooked"):
            if i0["attrs"] != ATTRS[name] and (i0["attrs"]["echo"] == ATTRS[name]["echo"]):
                out.append(dict(c, init=dict(i0, attrs=dict(ATTRS[name]))))
    if c["op"] == "session":
        for k in range(len(c["calls"])):
            if len(c["calls"]) > 1:
                out.insert(0, dict(c, calls=c["calls"][:k] + c["calls"][k + 1:]))
    if c["kind"] == "fast":  # keep the canned responses in step with the profile
        out = [fast_case(x["op"], x["sp"], x["cfg"], x["cache"], x.get("calls")) for x in out]
    return out


def shrink(c):
    if c["kind"] not in ("pty", "fast") or c.get("op") == "raw":
        return c
    cur = c
    for it in range(10):
        if core.over_budget():
            break
        cands = shrink_candidates(cur)
        if not cands:
            break
        if cur["kind"] == "pty":
            bits, errors, _ = eval_pty(cands, T_SLOW, tag="c12s")
        else:
            bits, errors, _ = eval_fast(cands, tag="c12s")
        nxt = next((x for x, v in zip(cands, bits) if property_bits(v) and v != -1), None)
        if nxt is None or errors:
            break
        cur = nxt
        if -2 in bits and it >= 2:  # every blocked candidate costs the full cap
            break
    return cur


# ------------------------------------------------------------------ descriptions


def txt(x):
    return "".join(chr(v) if 32 <= v < 127 else {27: "<ESC>", 7: "<BEL>"}.get(v, "<%02x>" % v) for v in x)


PLACE_TEXT = {
    "window": "window: every timely reply arrives right after the request has been fully written, before the "
              "library's next tty call",
    "read": "read: every timely reply arrives after the library has switched the tty to its reading mode",
    "split": "split: all timely bursts but the last arrive right after the request has been fully written, the last "
             "one during the read",
}


def describe(c):
    if c["kind"] == "x":
        return "x_parse_color(%r)" % txt(c["spec"])
    cfg = c["cfg"]
    flags = ",".join([k for k in ("swap", "termux") if cfg[k]] + ([] if cfg["enabled"] else ["queries-disabled"]))
    head = "%s %s [%dx%d cells, %dx%d px%s%s%s]" % (
        c["kind"], c["op"], cfg["cols"], cfg["rows"], cfg["xpix"], cfg["ypix"], "," + flags if flags else "",
        ", TERM_PROGRAM=%r/%r" % (cfg["env_name"], cfg["env_version"]) if cfg["env_name"] is not None else "",
        ", cache=%s" % c["cache"] if any(c["cache"]) else "")
    if c.get("init"):
        head += " INITIAL STATE{attributes=%s, unread input=%r (%s)}" % (
            attrs_name(c["init"]["attrs"]), txt(c["init"]["typeahead"]), typeahead_kind(c["init"]["typeahead"]))
    if c.get("place"):
        head += " REPLY PLACEMENT{%s}" % PLACE_TEXT[c["place"]]
    if c["op"] == "raw":
        return head + " request=%r more=%s replies=%s recipe=%s" % (
            txt(c["request"]), c["more"], [txt(u) for u in c["stream_units"]], c["recipes"])
    pr = printed(c["sp"])
    prof = " ".join("%s=%s" % (k, "-" if pr[k] is None else txt(pr[k])) for k in SLOTS)
    if c["op"] == "session":
        head += " one cache epoch: " + ", ".join(
            "get_terminal_name_version()" if k[0] == "nv" else
            "get_fg_bg_colors(%s)" % ("" if k[1] is None else "hex=%s" % bool(k[1])) for k in c["calls"]) + ";"
    if c["kind"] == "fast":
        return head + " terminal{" + prof + "} response=%r / %r" % (txt(c["resp1"]), txt(c["resp2"]))
    return head + " terminal{" + prof + "} schedule=%s" % c["recipes"]


def sig_of(c):
    keep = {k: c[k] for k in ("kind", "op", "cfg", "cache", "sp", "recipes", "spec", "more", "request",
                              "stream_units", "resp1", "resp2", "calls", "init", "place") if k in c}
    return core.sig(keep)


def what_of(c, v, rec):
    if v == -2:
        return ("the query function did not return (blocked: more than %.0f s with a query timeout of %.1f s): %s"
                % (P.call_cap(T_SLOW), T_SLOW, describe(c)))
    parts = []
    if v & 2:
        parts.append("reported values / unread bytes differ from what the terminal said")
    if v & 8:
        parts.append("waited longer than one timeout per query")
    obs = ""
    if rec is not None:
        r = rec.get("result", rec)
        if c.get("op") == "session" and isinstance(r.get("ok"), list):
            def pretty(call, x):
                if "exc" in x:
                    return x["exc"]
                if call[0] == "nv":
                    return tuple(None if v is None else txt(v) for v in x["ok"])
                return tuple(None if v is None else bytes(v[1:]).decode() if v[0] == "hex" else tuple(v[1:])
                             for v in x["ok"])
            obs = " -- observed, call by call: %s" % [pretty(k, x) for k, x in zip(c["calls"], r["ok"])]
        else:
            obs = " -- observed %s" % ({k: r[k] for k in ("ok", "exc", "cache") if k in r})
        if "leftover" in rec:
            obs += ", left unread %r, elapsed %.3f s (timeout %.2f s)" % (txt(rec["leftover"]), rec["elapsed"], rec["timeout"])
        if c.get("place") and r.get("tty_calls"):
            obs += (", the library's tty calls in order %s (S<n> = tcsetattr with action n: 0 NOW, 1 DRAIN, 2 FLUSH; D = tcdrain "
                    "returned, the placement point 'window'; F<q> = tcflush; S = the placement point 'read')" % " ".join(r["tty_calls"]))
    return "; ".join(parts) + ": " + describe(c) + obs


# ------------------------------------------------------------------------- run


BURST_CLASS = ["on-sight,back-to-back", "on-sight,delayed", "late(beyond timeout)",
               "placed:after-request-written,before-next-tty-call", "placed:during-read"]


def bump(h, k, n=1):
    h[k] = h.get(k, 0) + n


def run(ctx):
    rng = ctx.rng
    quick = ctx.quick
    if ctx.replay:
        rc = ctx.replay["replay"]["case"]
        xs = [rc] if rc["kind"] == "x" else []
        fs = [rc] if rc["kind"] == "fast" else []
        ps = [rc] if rc["kind"] == "pty" else []
        n_corpus = (0, 0, 0)
    else:
        cx, cf, cp = corpus()
        n_corpus = (len(cx), len(cf), len(cp))
        xs = cx + [gen_x(rng) for _ in range(300 if quick else 6000)]
        fs = cf + [gen_fast(rng) for _ in range(500 if quick else 9000)]
        ps = cp + init_cases(full=not quick) + place_cases(full=not quick)
        ps += sweep_cases(step=4 if quick else 1) + (sweep_cases(step=3, late=True) if not quick else [])
        ps += [gen_pty(rng) for _ in range(70 if quick else 1400)]
    errors, mismatches, failures = [], [], []
    hist = {"layer": {"x_parse_color": len(xs), "fast(parsers+decisions)": len(fs), "pty(real time)": len(ps)},
            "op": {}, "in_hypothesis(spec judged)": {"x": 0, "fast": 0, "pty": 0}, "pty_bursts_per_round": {},
            "pty_burst_class": {c: 0 for c in BURST_CLASS},
            "pty_reply_placement": {},
            "pty_timeouts_waited": {}, "pty_rounds": {}, "pty_leftover_nonempty": 0, "pty_attempts": {},
            "pty_initial_attributes": {}, "pty_unread_input_at_call": {}, "pty_initial_state(attrs x input)": 0,
            "rgb_component_widths": {}, "identity": {}, "replies_present": {}, "queries_disabled": 0,
            "exceptions_observed": {}}
    distinct = set()
    extra = {"unreproduced_discrepancies": 0, "pty_inconclusive(timing margins)": 0, "pty_attr_restored": 0}

    def add_failure(c, v, rec, confirmed_rec=None):
        small = shrink(copy.deepcopy(c)) if len(failures) < 2 else c
        rec2, v2 = confirmed_rec or rec, v
        if small is not c:
            if small["kind"] == "pty":
                bb, _, rr = eval_pty([small], T_SLOW, tag="c12r", workers=1)
            else:
                bb, _, rr = eval_fast([small], tag="c12r")
            if property_bits(bb[0]):
                v2, rec2 = bb[0], rr[0]
            else:
                small = c
        failures.append({"signature": sig_of(small), "what": what_of(small, v2, rec2),
                         "replay": {"case": small, "observed": rec2, "bits": v2}})

    phase, t_ph = {}, time.time()
    # the two pty-less layers are evaluated side by side (the real-time layer runs alone)
    from concurrent.futures import ThreadPoolExecutor
    with ThreadPoolExecutor(max_workers=2) as ex:
        fut_x = ex.submit(eval_x, xs) if xs else None
        fut_f = ex.submit(eval_fast, fs) if fs else None
        out_x = fut_x.result() if fut_x else None
        out_f = fut_f.result() if fut_f else None
    phase["x+fast"] = round(time.time() - t_ph, 1)
    # ---- x_parse_color
    if xs:
        bits, err, res = out_x
        errors += err
        for c, v, r in zip(xs, bits, res):
            if v >= 16:
                hist["in_hypothesis(spec judged)"]["x"] += 1
                distinct.add(sig_of(c))
                for comp in bytes(c["spec"])[4:].split(b"/"):
                    bump(hist["rgb_component_widths"], len(comp))
            if "exc" in r:
                bump(hist["exceptions_observed"], "x_parse_color:" + r["exc"])
            if not bad(v):
                continue
            if property_bits(v):
                failures.append({"signature": sig_of(c), "what": "x_parse_color: a component is not scaled into 0..255 by its own "
                                 "width: " + describe(c) + " -> %s" % r, "replay": {"case": c, "observed": r, "bits": v}})
            else:
                mismatches.append({"case": describe(c), "bits": v, "observed": r})
    # ---- fast
    if fs:
        bits, err, res = out_f
        errors += err
        for c, v, r in zip(fs, bits, res):
            bump(hist["op"], "fast:" + c["op"])
            if "exc" in r:
                bump(hist["exceptions_observed"], c["op"] + ":" + r["exc"])
            if not c["cfg"]["enabled"]:
                hist["queries_disabled"] += 1
            if v >= 16:
                hist["in_hypothesis(spec judged)"]["fast"] += 1
            if c["resp1"] or c["resp2"]:
                distinct.add(sig_of(c))
            if c["sp"]["xtv"] and "wf" in c["sp"]["xtv"]:
                w = c["sp"]["xtv"]["wf"]
                bump(hist["identity"], txt(w["name"]).lower() + " " + txt(w["ver"]))
            if not bad(v):
                continue
            if property_bits(v):
                add_failure(c, v, r)
            else:
                mismatches.append({"case": describe(c), "bits": v, "observed": r})
        ids = hist["identity"]
        hist["identity"] = dict(sorted(ids.items(), key=lambda kv: -kv[1])[:25], **{"(distinct)": len(ids)})
    # ---- pty
    if ps:
        t_ph = time.time()
        bits, err, recs = eval_pty(ps, T_QUICK)
        phase["pty"] = round(time.time() - t_ph, 1)
        errors += err
        conclusive = 0
        init_pairs = set()
        for c, v, rec in zip(ps, bits, recs):
            bump(hist["op"], "pty:" + c["op"])
            bump(hist["pty_attempts"], (rec or {}).get("attempts", 0))
            bump(hist["pty_initial_attributes"], attrs_name(init_of(c)["attrs"], short=True))
            bump(hist["pty_unread_input_at_call"], typeahead_kind(init_of(c)["typeahead"]))
            bump(hist["pty_reply_placement"], c.get("place") or "on-sight")
            init_pairs.add((attrs_name(init_of(c)["attrs"]), typeahead_kind(init_of(c)["typeahead"])))
            if v == -3:
                # margins violated in all attempts (or the driver died): once more, alone
                b1, e1, r1 = eval_pty([c], T_SLOW, tag="c12q", workers=1)
                errors += e1
                v, rec = b1[0], r1[0]
                if v == -3:
                    extra["pty_inconclusive(timing margins)"] += 1
                    if rec and "error" in rec:
                        errors.append("pty driver: " + rec["error"])
                    continue
            conclusive += 1
            if rec and "result" in rec:
                present = sum(1 for k in SLOTS if c["sp"].get(k) is not None)
                bump(hist["replies_present"], present)
                bump(hist["pty_rounds"], len(rec["rounds"]))
                bump(hist["pty_timeouts_waited"], nto_bounds(rec)[1])
                hist["pty_leftover_nonempty"] += bool(rec["leftover"])
                extra["pty_attr_restored"] += bool(rec["attr_restored"])
                for r in rec["rounds"]:
                    bump(hist["pty_bursts_per_round"], min(len(r["bursts"]), 10))
                    for cls, data in r["bursts"]:
                        hist["pty_burst_class"][BURST_CLASS[cls]] += 1
                if "exc" in rec["result"]:
                    bump(hist["exceptions_observed"], c["op"] + ":" + rec["result"]["exc"])
                if any(r["bursts"] for r in rec["rounds"]):
                    distinct.add(sig_of(c))
                if v >= 16:
                    hist["in_hypothesis(spec judged)"]["pty"] += 1
            if not c["cfg"]["enabled"]:
                hist["queries_disabled"] += 1
            if not bad(v):
                continue
            if v == -1:
                continue  # Coq evaluation failed: already in `errors`
            if (len(failures) >= 4) if property_bits(v) else (len(failures) + len(mismatches) >= 6):
                # the verdict is a violation already; do not spend minutes re-running the rest
                # (a discrepancy that contradicts the SPECIFICATION is still re-run while there
                # are few confirmed failures: a concrete failing input is worth more than a
                # list of model mismatches of another layer)
                bump(extra, "further_discrepancies_not_rerun")
                continue
            cv, crec = confirm_pty(c, v)
            if cv is None:
                extra["unreproduced_discrepancies"] += 1
                continue
            if property_bits(cv):
                add_failure(c, cv, rec, crec)
            else:
                mismatches.append({"case": describe(c), "bits": cv,
                                   "observed": {k: crec.get(k) for k in ("result", "rounds", "leftover", "attr_restored",
                                                                         "elapsed", "timeout")}})
        hist["pty_initial_state(attrs x input)"] = len(init_pairs)
        if conclusive == 0:
            errors.append("no pty case could be played within the timing margins")
    extra["phase_seconds"] = phase
    samples = [describe(c) for c in (xs[n_corpus[0]:n_corpus[0] + 1] + fs[n_corpus[1]:n_corpus[1] + 2]
                                     + ps[:1] + [c for c in ps if c.get("init")][:2] + ps[-2:])]
    return {
        "corr_name": "Query.v / QueryInit.v (x_parse_color; parsers + decision rules of the six getters on canned responses; "
                     "the six getters + query_terminal against a real pty in real time from a generated initial state "
                     "(attribute set, unread input) with the replies placed at exact points of the exchange: value, requests, "
                     "unread bytes, attributes left, timeouts waited) == "
                     "term_image; QuerySpec.v (what must be reported for the terminal profile) == observed",
        "evaluations": len(xs) + len(fs) + len(ps),
        "distinct_nontrivial": len(distinct),
        "rule": "corpus (F7/F10 regressions, version boundaries 0.20.0 / 22.04.0, silent / DA1-less / disabled / swap / "
                "termux / cache-hit / ioctl cases) + generated: x_parse_color specs (1-4 hex digits per component "
                "independently, boundary values, malformed); terminal profiles (each of XTVERSION, OSC 10, OSC 11, "
                "XTWINOPS 16t, 14t, kitty graphics, DA1 answered or not; ~38 real-world and odd identity/version "
                "strings + random ones, '(' or ' ' form, ST or BEL; 6% raw/mangled and 4% ill-formed replies) x "
                "configurations (queries on/off, swap, termux, TERM_PROGRAM*, window size in cells/pixels incl. zeros, "
                "cell-size cache hit/miss); fast layer additionally mangled responses over all 7-bit bytes; pty layer "
                "burst schedules (whole / one burst per reply / groups of replies / arbitrary byte cuts / every byte "
                "its own write) x per-burst class (back-to-back, delayed T/25, held back beyond the timeout) and a "
                "sweep over split positions of the full reply stream (every position in the thorough tier); pty layer "
                "INITIAL STATE of the terminal when the call is made: attribute set (cooked, cooked without echo, "
                "cbreak, cbreak with echo, raw, raw with other VMIN/VTIME, random flag combinations) x unread input in "
                "the queue (none, printable type-ahead, a key's escape sequence, a complete stale DA1 / XTVERSION / "
                "colour reply, a partial escape sequence, a lone CSI, random safe bytes, several of them): every getter "
                "x {cooked, cbreak, raw} with the kinds of input rotating in the quick tier, the full product (7 "
                "attribute sets x 8 inputs x every getter) in the thorough tier, and ~45% of the generated pty cases; pty layer "
                "REPLY PLACEMENT = the moment a reply arrives relative to the library's own steps, controlled without a "
                "clock: every getter and the raw query x {all timely replies right after the request has been fully "
                "transmitted and before the library's next tty call, after the library has switched the tty to its "
                "reading mode, split across both}, some from non-default initial states (thorough: also whole-stream and "
                "DA1-less variants), and ~40% of the generated pty cases (the others are answered 'on sight').  "
                "Non-trivial: x spec inside the XParseColor grammar; fast case with a non-empty response; pty case in "
                "which at least one request was answered; distinct by full case hash.",
        "samples": samples,
        "histogram": hist,
        "mismatches": mismatches,
        "failures": failures,
        "errors": errors,
        "assumptions": [
            "real time: a burst the harness wrote within T/2 of the request is readable before the deadline; a burst held "
            "back until the call has returned stands for 'later than the timeout' (scheduling jitter and the kernel's tty "
            "queue are the OS, not modelled; one write() of < 1 KiB to the pty master becomes readable atomically)",
            "the terminal answers in order, each reply written as one unit, replies are 7-bit (property hypothesis); "
            "pty runs use only ESC, BEL and printable bytes (others are interpreted by the tty line discipline)",
            "bytes written in a separate write() after the point where the reader stops are outside what the property "
            "determines (race between the terminal and the drain): the harness glues them to the stopping burst or holds them back",
            "initial state: the unread input consists of bytes that are safe to write to a tty (ESC, BEL, printable); it "
            "is in the line discipline's queue (counted with FIONREAD) before the call starts; in the canonical modes it is "
            "queued as a pushed line (the attribute set is applied with TCSANOW after the bytes are in); documented "
            "behaviour judged against: 'Any unread input is discarded before the query' (query_terminal docstring; "
            "guide/concepts, Terminal Queries, step 1) — so after a call that wrote a request NOTHING is readable; a "
            "call that wrote no request leaves the unread input alone (model), which the specification side does not judge",
            "reply placement: 'the request has been fully transmitted' = the library's termios.tcdrain has returned; a "
            "reply written at a placement point is in the tty's input queue (counted with FIONREAD, in non-canonical "
            "counting mode) before the library makes its next step; the library is assumed to reach the terminal through "
            "termios.tcdrain / tcsetattr / tcflush module attributes (a change that transmits without tcdrain is answered on sight)",
            "int(s, 16) extras (sign, blanks, underscores, 0x) cannot reach x_parse_color through the reply pattern and are "
            "not generated for the stand-alone comparison",
        ],
        "trusted": [
            "pty fake terminal (harness/props/c12_pty.py) and the driver's leftover/sentinel protocol (impl_c12.py)",
            "fast layer: utils.query_terminal / utils.read_tty replaced by canned responses; everything above is the real code",
            "a pass-through wrapper around utils.write_tty records the time of each request (pty layer)",
            "the staging protocol that enters a case's initial state (impl_c12.enter_initial_state: termios + FIONREAD)",
            "placed cases: pass-through wrappers around termios.tcdrain / tcsetattr / tcflush (impl_c12.Gates: real call "
            "first, then a go/FIONREAD handshake with the terminal side; ICANON toggled with TCSANOW around the count)",
            "every discrepancy must reproduce in two quiet re-runs to be reported (see extra.unreproduced_discrepancies)",
        ],
        "extra": extra,
    }
