"""C06, draws that TALK TO THE TERMINAL (helper module of props/c06.py).

The first render in a process asks the terminal for its default colours and its name (Block
style), for the cell size (graphics styles on a window whose pixel size the ioctl does not tell),
or whatever a new-API renderable's `_render_` asks; `draw()` does that AFTER it has hidden the
cursor and BEFORE it writes the picture.  The terminal's replies arrive at the tty at a moment the
library does not control, and whatever arrives while the tty's ECHO flag is on is echoed by the
line discipline onto the screen -- into the region being drawn.

Every case runs in a fresh process (cold query caches) on a pty whose master side is played by
harness/impl/impl_c06_tty.py from a terminal profile (format of props/c12_pty.py / c12.gen_sp:
query name -> reply bytes) and a reply schedule ("window" = between the transmission of the request
and the library's next termios call, "read" = after that call, "split" = both, "immediate" = as
soon as the request is seen); all synchronisation is by pipes.  The SCREEN's stream is what the
master receives (the recognised query requests taken out): it goes through the lexer and, inside
Coq (model/DrawQueryTie.v), is compared with DrawQuery.screen of the model's run and judged by the
final-state predicate like every other draw.
"""
from __future__ import annotations

import time

import core
import lexer

HEADER = ("From Coq Require Import List ZArith.\nImport ListNotations.\n"
          "From TI Require Import lib.Term lib.RectCheck model.Padding model.Draw model.DrawTie model.DrawQuery "
          "model.DrawQueryTie.\nOpen Scope Z_scope.\n")

ST, BEL = b"\x1b\\", b"\x07"


def _p(fg=None, bg=None, xtv=None, da1=b"\x1b[?62;22c", cell=None, area=None, kitty=None):
    return {k: (None if v is None else list(v)) for k, v in
            dict(fg=fg, bg=bg, xtv=xtv, da1=da1, cell=cell, area=area, kitty=kitty).items()}


def profiles():
    """a few terminals as they really answer"""
    return {
        "xterm": _p(b"\x1b]10;rgb:ffff/ffff/ffff" + ST, b"\x1b]11;rgb:0000/0000/0000" + ST, b"\x1bP>|XTerm(380)" + ST,
                    b"\x1b[?64;1;2;6;9;15;16;17;18;21;22;28c", b"\x1b[6;20;10t", b"\x1b[4;400;800t"),
        "kitty": _p(b"\x1b]10;rgb:dddd/dddd/dddd" + ST, b"\x1b]11;rgb:0000/0000/0000" + ST, b"\x1bP>|kitty(0.30.0)" + ST,
                    b"\x1b[?62;c", b"\x1b[6;20;10t", b"\x1b[4;400;800t"),
        "vte": _p(b"\x1b]10;rgb:d0d0/cfcf/cccc" + BEL, b"\x1b]11;rgb:2e2e/3434/3636" + BEL, None,
                  b"\x1b[?65;1;9c", None, b"\x1b[4;380;730t"),
        "wezterm": _p(b"\x1b]10;rgb:b2b2/b2b2/b2b2" + ST, b"\x1b]11;rgb:0000/0000/0000" + ST,
                      b"\x1bP>|WezTerm 20230712-072601-f4abf8fd" + ST, b"\x1b[?65;4;6;18;22c", b"\x1b[6;18;9t", b"\x1b[4;432;720t"),
        "konsole": _p(b"\x1b]10;rgb:fcfc/fcfc/fcfc" + ST, b"\x1b]11;rgb:2323/2626/2727" + ST, b"\x1bP>|Konsole 23.08.1" + ST,
                      b"\x1b[?62;1;4c", None, b"\x1b[4;384;640t"),
        "da1-only": _p(),
        "silent": _p(da1=None),
    }


PROFILE_NAMES = ["xterm", "kitty", "vte", "wezterm", "konsole", "da1-only", "silent"]
WHENS = ["window", "read", "split", "immediate"]


def timeout_for(profile):
    """the library's query timeout: with a DA1 reply every read stops on the reply (the timeout --
    generous -- is never reached, whatever the machine load); a terminal that answers NOTHING makes
    every read wait for the whole timeout, which is then kept short (nothing is ever written to
    the tty in that case: nothing can come late)"""
    return 100.0 if profile.get("da1") else 0.05


def answering(profile):
    """every terminal answers DA1 (that is why the library ends every request with it): a profile
    that answers anything answers DA1"""
    if any(v is not None for v in profile.values()) and not profile.get("da1"):
        profile = dict(profile, da1=list(b"\x1b[?62;22c"))
    return profile


def with_io(c, profile, when, echo0=True, pixels=(0, 0), asks=None, pname="?", redirected=False):
    c = dict(c)
    c["tty"] = not redirected   # False: standard output is a pipe; the active terminal is still there
    profile = answering(profile)
    io = {"profile": profile, "pname": pname, "when": list(when), "echo0": echo0, "pixels": list(pixels),
          "timeout": timeout_for(profile)}
    if asks is not None:
        io["asks"] = asks
    c["term_io"] = io
    return c


def corpus(quick):
    """both APIs x still / animated x block / kitty / iterm2 (old) and text / block / erase-skip
    frames (new) x every schedule, on a terminal found with ECHO on; + ECHO found off, a terminal
    that answers nothing, BEL-terminated replies, a draw that must scroll"""
    P = profiles()
    cs = []
    blk3 = {"n_frames": 3, "size": [4, 4], "seed": 1}
    one = {"n_frames": 1, "size": [6, 6], "seed": 2}
    olds = [
        ("block", {}, {}, one, [6, 3], [20, 5], [40, 12]),
        ("block", {}, {}, blk3, [2, 2], [4, 3], [10, 8]),
        ("kitty", {"kitty_version": [0, 30, 0]}, {"method": "lines"}, blk3, [2, 2], [4, 3], [10, 8]),
        ("kitty", {"kitty_version": [0, 25, 0]}, {"method": "whole"}, one, [2, 2], [4, 3], [10, 8]),
        ("iterm2", {"term": "konsole"}, {"method": "lines"}, one, [2, 2], [4, 3], [10, 8]),
        ("iterm2", {"term": "wezterm"}, {"method": "whole"}, blk3, [2, 2], [4, 3], [10, 8]),
    ]
    whens = WHENS if not quick else ["window", "immediate", "split"]
    for i, (style, extra, args, img, cells, pad, term) in enumerate(olds):
        for j, when in enumerate(whens if (style == "block" or not quick) else ["window", "immediate"]):
            c = {"api": "old", "style": style, "term_size": term, "img": img, "cells": cells, "pad": pad,
                 "ha": (i + j) % 3, "va": j % 3, "repeat": 1, "cached": False, "args": dict(args)}
            c.update(extra)
            pname = ["xterm", "kitty", "wezterm", "vte"][(i + j) % 4] if style == "block" else ["xterm", "wezterm"][j % 2]
            cs.append(with_io(c, P[pname], [when], pname=pname))
    ex = {"kind": "exact", "l": 1, "t": 1, "r": 0, "b": 2}
    for kind, n, echo_input in (("text", 2, True), ("block", 1, True), ("gfx", 3, True), ("text", 2, False)):
        for j, when in enumerate(["window", "immediate"] if quick else WHENS):
            c = {"api": "new", "term_size": [9, 7], "size": [3, 2], "frames": n, "frame_kind": kind, "seed": 1,
                 "padding": ex, "fill": "star", "animate": True, "loops": 1, "cache": False, "echo_input": echo_input,
                 "hide_cursor": j % 2 == 0}
            pname = ["xterm", "konsole"][j % 2]
            cs.append(with_io(c, P[pname], [when], asks=[["colors", "name"], ["colors", "name", "cell"], ["cell"]][j % 3], pname=pname))
    # ECHO found off; a silent terminal; a terminal that answers DA1 only; start rows that scroll
    c0 = {"api": "old", "style": "block", "term_size": [12, 6], "img": one, "cells": [4, 2], "pad": [6, 4],
          "ha": 1, "va": 1, "args": {}}
    cs.append(with_io(c0, P["xterm"], ["window"], echo0=False, pname="xterm"))
    cs.append(with_io(c0, P["silent"], ["window"], pname="silent"))
    cs.append(with_io(c0, P["da1-only"], ["read", "window"], pname="da1-only"))
    cs.append(with_io(dict(c0, pad=[12, 6], va=2), P["vte"], ["split"], pname="vte"))
    # standard output redirected: the terminal is still asked; its screen must receive nothing
    cs.append(with_io(c0, P["xterm"], ["window"], pname="xterm", redirected=True))
    cs.append(with_io({"api": "old", "style": "kitty", "kitty_version": [0, 30, 0], "term_size": [10, 8], "img": blk3,
                       "cells": [2, 2], "pad": [4, 3], "ha": 1, "va": 1, "repeat": 1, "args": {}}, P["wezterm"], ["split"],
                      pname="wezterm", redirected=True))
    cs.append(with_io({"api": "new", "term_size": [9, 7], "size": [3, 2], "frames": 2, "frame_kind": "text", "seed": 1,
                       "padding": ex, "fill": "star", "animate": True, "loops": 1, "cache": False},
                      P["konsole"], ["window", "read"], asks=["colors", "name", "cell"], pname="konsole", redirected=True))
    # the window's pixel size is known: the graphics styles do not ask
    cs.append(with_io({"api": "old", "style": "kitty", "kitty_version": [0, 30, 0], "term_size": [10, 8], "img": one,
                       "cells": [2, 2], "pad": [4, 3], "ha": 1, "va": 1, "args": {}}, P["kitty"], ["window"],
                      pixels=(100, 160), pname="kitty"))
    return cs


def gen(rng, c06):
    """a random draw of either API on a random terminal"""
    P = profiles()
    r = rng.random()
    if r < 0.55:
        pname = rng.choice(PROFILE_NAMES[:5] * 3 + PROFILE_NAMES[5:])
        profile = P[pname]
    else:  # C12's generator of terminal profiles (well-formed replies, any subset of the queries answered)
        from props import c12 as C12
        pname = "generated"
        profile = C12.printed(C12.gen_sp(rng, "fgbg", safe=True, p_raw=0.0, p_odd=0.0))
        profile["kitty"] = None
    when = [rng.choice(WHENS + ["window"]) for _ in range(rng.randint(1, 3))]
    echo0 = rng.random() < 0.85
    if rng.random() < 0.6:
        c = c06.gen_old(rng)
        if c["style"] != "block" and rng.random() < 0.2:
            c["style"] = "block"
            c["args"] = {}
        c.pop("real_term", None)
        tw, th = c["term_size"]
        pixels = (0, 0) if (c["style"] == "block" or rng.random() < 0.85) else (tw * 10, th * 20)
        asks = None
    else:
        c = c06.gen_new(rng)
        c["echo_input"] = rng.random() < 0.7
        pixels = (0, 0)
        asks = rng.choice([["colors", "name"], ["colors"], ["name"], ["cell"], ["colors", "name", "cell"], ["cell", "colors"]])
    if pname == "generated":
        # C12's cell / text-area sizes are boundary values of the parser (a 60000-pixel cell makes a
        # gigabyte of graphics payload): WHICH of the two the terminal answers is kept, the sizes are
        # those of a terminal with this window
        tw, th = c["term_size"]
        cw, ch = rng.choice([(10, 20), (8, 16), (9, 18), (7, 15), (12, 24), (5, 11)])
        if profile.get("cell") is not None:
            profile["cell"] = list(b"\x1b[6;%d;%dt" % (ch, cw))
        if profile.get("area") is not None:
            profile["area"] = list(b"\x1b[4;%d;%dt" % (ch * th + rng.choice([0, 3]), cw * tw + rng.choice([0, 5])))
    return with_io(c, profile, when, echo0, pixels, asks, pname=pname, redirected=rng.random() < 0.15)


def bl(xs):
    return "[" + "; ".join(str(int(x)) for x in xs) + "]"


def qcase_term(c06, c, r):
    """(Coq term, token counts of the requests) -- raises lexer.LexError on an unlexable screen"""
    io = c["term_io"]
    redirected = not c.get("tty", True)
    out = r["out"]
    cuts = []
    for ex in r["exchanges"]:
        # (redirected: the own stream does not go to the terminal; the position is that in the
        # terminal's stream, empty if the property holds)
        prefix = c06.toks((r["term"] if redirected else out)[:ex["cpos"]])
        if prefix and prefix[-1][0] == "cut":
            raise lexer.LexError(f"a query request interrupts a control sequence at character {ex['cpos']} of the screen's stream")
        w = [p[1] for p in ex["pieces"] if p[0] != 1]
        rd = [p[1] for p in ex["pieces"] if p[0] == 1]
        cuts.append((len(prefix), w, rd))
    q_self = c["api"] == "new" and not c.get("echo_input", False) and not redirected
    term = ("{| q_c := " + c06.case_term(c, r) + f"; q_e0 := {c06.b(io.get('echo0', True))}; q_self := {c06.b(q_self)}; q_cuts := "
            + core.coq_list(cuts, lambda t: f"({t[0]}%nat, ({core.coq_list(t[1], bl)}, {core.coq_list(t[2], bl)}))")
            + f"; q_redirected := {c06.b(redirected)}; q_term := {lexer.coq_toks(c06.toks(r['term']) if redirected else [])}" + " |}")
    return term, [k for k, _, _ in cuts]


def describe(c06, c):
    io = c["term_io"]
    answered = [k for k, v in io["profile"].items() if v is not None]
    return (c06.describe0(c) + f" ON A TERMINAL THAT ANSWERS {answered} (profile {io.get('pname')}), replies written at {io['when']}, "
            f"tty found with ECHO {'on' if io.get('echo0', True) else 'off'}, window pixels {io.get('pixels')}"
            + ("" if c.get("tty", True) else ", STANDARD OUTPUT REDIRECTED to a pipe (the terminal is still asked)")
            + (f", echo_input={c.get('echo_input', False)}, the render asks {io.get('asks')}" if c["api"] == "new" else ""))


def visible(s, n=700):
    return s[:n].encode("unicode_escape").decode()


def run(c06, cases, quick):
    """-> dict(failures, mismatches, errors, hist, distinct, seconds)"""
    t0 = time.time()
    # a driver process costs ~1 s to start (the library is compiled from source), a case ~0.1 s
    chunk = max(8, (len(cases) + core.NCPU - 1) // core.NCPU)
    impl = core.run_impl_parallel("impl_c06_tty.py", cases, chunk=chunk)
    t_impl = time.time() - t0
    failures, mismatches, errors = [], [], []
    hist = {"stdout": {"terminal": 0, "redirected": 0}, "api": {}, "style": {}, "profile": {}, "schedule": {}, "exchanges_per_draw": {}, "queries": {}, "echo_found": {},
            "reply_pieces_at": {"window": 0, "read": 0, "no-termios-call-followed": 0}, "raised": 0, "accepted": 0,
            "animated": 0, "self_echo_off(new API, echo_input=False)": 0, "draws_that_asked": 0}
    distinct = set()
    terms, owner = [], []
    for i, (c, r) in enumerate(zip(cases, impl)):
        io = c["term_io"]
        if "infra" in r:
            errors.append(f"tty driver: {r['infra']} -- {describe(c06, c)}")
            continue
        st = c.get("style", c.get("frame_kind"))
        hist["api"][c["api"]] = hist["api"].get(c["api"], 0) + 1
        hist["style"][st] = hist["style"].get(st, 0) + 1
        hist["profile"][io.get("pname")] = hist["profile"].get(io.get("pname"), 0) + 1
        hist["echo_found"][str(io.get("echo0", True))] = hist["echo_found"].get(str(io.get("echo0", True)), 0) + 1
        hist["stdout"]["terminal" if c.get("tty", True) else "redirected"] += 1
        replay = {"case": c, "screen_stream": visible(r.get("term", r.get("out", "")), 3000), "exchanges": [
            {k: ex.get(k) for k in ("names", "when", "cpos", "echo_at_send")} | {"reply": visible(bytes(ex.get("reply", [])).decode("latin-1"), 200),
                                                                                 "pieces_at": [p[0] for p in ex.get("pieces", [])]}
            for ex in r.get("exchanges", [])]}
        if "error" in r:
            failures.append({"signature": core.sig(["tty-raise", c06.failure_class(c, {"size": [0, 0]})]),
                             "what": f"draw() on a terminal that answers its queries raised {r['error'][:300]} -- {describe(c06, c)}",
                             "replay": replay})
            continue
        if r.get("n_requests_in_stream") != len(r["exchanges"]):
            errors.append(f"tty driver: {r.get('n_requests_in_stream')} requests in the stream, {len(r['exchanges'])} exchanges played -- {describe(c06, c)}")
            continue
        if r.get("seen") != list(c["term_size"]):
            errors.append(f"tty driver: get_terminal_size() = {r.get('seen')} on a {c['term_size']} window")
            continue
        try:
            term, ks = qcase_term(c06, c, r)
        except lexer.LexError as e:
            failures.append({"signature": core.sig(["tty-lex", c06.failure_class(c, r)]),
                             "what": (f"the screen received something that is not part of a drawing: {e} -- the stream: {visible(r.get('term', r['out']))} -- {describe(c06, c)}"),
                             "replay": replay})
            continue
        terms.append(term)
        owner.append(i)
        n = len(r["exchanges"])
        hist["exchanges_per_draw"][n] = hist["exchanges_per_draw"].get(n, 0) + 1
        hist["draws_that_asked"] += n > 0
        for ex in r["exchanges"]:
            hist["schedule"][ex["when"]] = hist["schedule"].get(ex["when"], 0) + 1
            key = "+".join(ex["names"])
            hist["queries"][key] = hist["queries"].get(key, 0) + 1
            for p in ex["pieces"]:
                hist["reply_pieces_at"][["window", "read", "no-termios-call-followed"][p[0]]] += 1
        hist["raised"] += r["raised"] == 1
        hist["accepted"] += r["raised"] == 0
        anim, frames = c06.frames_of(c, r)
        hist["animated"] += bool(anim)
        hist["self_echo_off(new API, echo_input=False)"] += c["api"] == "new" and not c.get("echo_input", False)
        if r["raised"] == 0 and n > 0 and any(ex["reply"] for ex in r["exchanges"]):
            distinct.add(core.sig([c.get("padding", c.get("pad")), c.get("size", c.get("cells")), st, c["term_size"], len(frames),
                                   c.get("args"), io["when"], io.get("pname"), io.get("echo0", True), [ex["names"] for ex in r["exchanges"]]]))
    t1 = time.time()
    if terms:
        bad, errs = core.coq_shards("c06q", HEADER, terms, "qcase", "qbad cases", shard=12 if quick else 40)
        errors += errs
        for idx, code in bad:
            i = owner[idx]
            c, r = cases[i], impl[i]
            why = ""
            if len(failures) + len(mismatches) < 4:
                text = HEADER + f"Set Printing Width 100000.\nEval vm_compute in (qexplain ({terms[idx]})).\n"
                rc, out = core.coq_eval_file(f"c06q_explain_{i}", text)
                vals = core.parse_evals(out)
                why = vals[0][:900] if vals else out[-300:]
            if code & 2:
                echoed = [ex for ex in r["exchanges"] if any(p[2] for p in ex["pieces"])]
                failures.append({
                    "signature": core.sig(["tty-final-state", c06.failure_class(c, r), sorted({"+".join(ex["names"]) for ex in r["exchanges"]})]),
                    "what": ("draw() on a terminal that ANSWERS the queries the draw makes: what the screen received violates the property "
                             f"({len(r['exchanges'])} exchange(s): " + "; ".join(
                                 f"{'+'.join(ex['names'])} answered at {ex['when']} with the tty's ECHO {'ON' if any(p[2] for p in ex['pieces']) else 'off'} at the arrival"
                                 for ex in r["exchanges"]) + f"; {len(echoed)} reply(ies) arrived while ECHO was on). "
                             + ("STANDARD OUTPUT IS REDIRECTED and the terminal's screen received: " + visible(r.get("term", ""), 400) if not c.get("tty", True)
                                else f"The screen's stream begins: {visible(r['out'], 400)} ") +
                             "-- (((box), raised, rule holds, (first token difference with the plain model, lengths), per start row the clauses [row, col, sgr, visible, clean, scroll, "
                             f"inside-box, content, no-stale-placements]), redirected, tokens the terminal received when redirected, (first difference with DrawQuery.screen of the model's run, length)) = {why} -- {describe(c06, c)}"),
                    "replay": replay})
            else:
                mismatches.append({"case": c, "code": code, "explain": why, "screen_stream": visible(r["out"], 600)})
    return {"failures": failures, "mismatches": mismatches, "errors": errors, "hist": hist, "distinct": distinct,
            "seconds_impl": round(t_impl, 1), "seconds_coq": round(time.time() - t1, 1), "n": len(cases)}
