"""C09 — frame caching is invisible except for speed.

Correspondence: every generated history (generator of C08, biased towards caching
configurations and towards setting changes that revisit a frame after changing exactly
one of size / duration / arguments / padding) is run twice on the real `RenderIterator`
over the deterministic instrumented renderable — once with its `cache` argument, once
with `cache=False`.  model/IterTie.v [check9] judges the pair inside Coq: both runs
against the code model, and — specification side, on the observations alone — identical
frames / countdown / errors, every uncached frame freshly rendered, no frame rendered
twice in a row under unchanged settings when caching is on, caching never renders more.
model/IterWrapTie.v [check9w] adds, for BOTH runs, the history-level oracle of model/IterWrap.v:
every yielded frame (cache hit or fresh render) has the padded size / padding dimensions of
the padding and render size in force at its next(), and was rendered at the size, duration
and arguments in force at its next() — a function of the history and the observations alone.

Round trips: a cache hit is only interesting when something changed between the render that
filled the entry and the hit.  `roundtrip_case` builds histories in which one setting (render
size / duration / render arguments / padding) goes A -> B (-> C) -> back to A with a PARTIAL pass
rendered under B, and frames cached under A are then revisited (next loop or backward seek): the
hit happens while everything the iterator derives from its settings was last refreshed under B.

Values: the cache is validated by comparing (size, duration, render arguments) with the current
ones, so transparency quantifies over the VALUES of those settings, not only over when they change.
`collide_case` / `collide_sweep` build round trips between UNEQUAL values with EQUAL CPython hashes
(-1 / -2; x / x +- (2**61 - 1) for argument fields, static durations and the render width) and
to / from an UNHASHABLE but valid argument field value (a list; impl/impl_c09_iter.py); a share of
the random histories has its argument values remapped onto -1 / -2.  Theorems
C09_hashed_cache_transparent_iff / C09_py_hashed_cache_refuted (model/IterHash.v) say why: a cache
validated through any digest h of the key is invisible iff h separates the valid keys.

The image-iterator half (`ImageIterator._animate` / `_generate_frames`, model/ImgIter.v owned by C11,
model/ImgIterSrc.v — the iterator over a stateful SOURCE — owned by C09): paired caching / non-caching
`ImageIterator` runs (impl/impl_c09_img.py) of one history over two instances of the same source,
judged inside Coq by model/ImgIterSrcTie.v [check9i]: both runs against the model (outcomes and the
RENDER REQUESTS of every operation: which frame was rendered at which size during that operation), and,
specification side, on the observations alone: the two runs agree in every outcome (an exception in one
run where the other yields a frame is a difference like any other), and the render requests of the
caching run are, operation by operation, a sub-list of those of the non-caching run
(C09_imgiter_cached_requests_sub).  The SOURCE KIND is a dimension of the generator: a PIL image decoded
from bytes, a PIL image the caller opened from a file, a file path (the iterator holds an open image of
its own) and a URL (temp file), GIF and WebP, crossed with WHERE the image size changes: in the first
loop, and in the later, cached loops after the first loop rendered every frame (`late_case`).

Round 9: every image pair is judged by model/ImgIterRszTie.v [check9e]: the history is given as changes of
the size SETTING (fixed / a Size member) and of the ENVIRONMENT env3 = (terminal size, cell ratio, cell
size), the rendered size under (setting, environment) is the observed table, the model runs on the history
lowered through it.  `env_case` / `env_corpus`: in a cached loop one component of the environment changes
alone under a dynamic setting, or the setting changes KIND (fixed <-> dynamic, member -> member) and the
environment changes some frames later."""
from __future__ import annotations

import copy
import json

import core
from props import c08 as base

LEVEL = "proof"
EXTRA_TARGETS = ["model/IterTie.vo", "model/IterWrapTie.vo", "model/ImgIterSrcTie.vo", "model/ImgIterRszTie.vo"]
N = ["next"]
HEADER = ("From Coq Require Import List ZArith.\nImport ListNotations.\n"
          "From TI Require Import model.Iter model.IterSpec model.IterTie model.IterWrap model.IterWrapTie.\n"
          "Open Scope nat_scope.\n")


def gen_case(rng, i):
    c = base.gen_case(rng, 25 if i % 4 else 40, fault_p=0.0, cached_bias=rng.random() < 0.8,
                      setting_bias=True)
    c["stamp"] = True
    c["faults"] = {}
    if c["cache"] in (0, -1) and c["cache"] is not False:  # invalid values are C08's business
        c["cache"] = True
    if c["n"] and rng.random() < 0.12:
        c["ffaults"] = {str(rng.randrange(c["n"])): rng.choice([0, 1, 2, 4])}
    if rng.random() < 0.7:
        c["loops"] = rng.choice([-1, 2, 3])
    return c


def revisit(n, what, loops=3, cache=True):
    """render every frame, change exactly one setting, revisit, change it back, revisit"""
    change = {"size": ["size", [3, 2]], "dur": ["dur", None], "args": ["args", 2], "pad": ["pad", ["E", 1, 1, 0, 0]]}[what]
    back = {"size": ["size", [1, 1]], "dur": ["dur", 1], "args": ["args", 0], "pad": ["pad", ["E", 0, 0, 0, 0]]}[what]
    return base.base_case(n=n, loops=loops, cache=cache, stamp=True,
                          ops=[N] * n + [change] + [N] * n + [back] + [N] * (n + 1))


# ----------------------------------------------------------------- setting round trips

RT_SIZES = [[1, 1], [2, 1], [3, 2], [2, 3], [4, 2]]
RT_PADS = [["E", 0, 0, 0, 0], ["E", 1, 1, 1, 1], ["E", 0, 1, 2, 0], ["A", 5, 4, 0, 0], ["A", 6, 4, 2, 2],
           ["A", 1, 1, 1, 1], ["A", 0, 0, 1, 1], ["A", -70, -25, 0, 2]]
RT_VALUES = {"size": RT_SIZES, "dur": [1, 7, 40, None], "args": [0, 1, 2], "pad": RT_PADS}
RT_MODES = ("loop", "seek0", "back")

# ----------------------------------------------------------------- the VALUES of the settings

PY_M = 2 ** 61 - 1   # CPython (64-bit): hash(int x) = sign(x) * (|x| mod PY_M), and -1 -> -2
LIST_BASE = 7000000  # impl/impl_c09_iter.py writes the argument field value [k] as LIST_BASE + k
DRIVER = "impl_c09_iter.py"


def twin(v):
    """an int UNEQUAL to the int v with the SAME CPython hash"""
    t = {-1: -2, -2: -1}.get(v, v + PY_M if v >= 0 else v - PY_M)
    assert t != v and hash(t) == hash(v), (v, t)
    return t


def is_list_arg(a):
    return isinstance(a, list) and len(a) == 2 and a[0] == "L"


def arg_code(a):
    """the integer the instrumented renderable writes for an argument field value (model side: [Z])"""
    return LIST_BASE + a[1] if is_list_arg(a) else a


def enc_case(c):
    """the case as the Coq side sees it: argument field values as integers (equal values <-> equal codes)"""
    e = copy.deepcopy(c)
    e["args"] = arg_code(e["args"])
    e["ops"] = [["args", arg_code(o[1])] if o[0] == "args" else o for o in e["ops"]]
    return e


def py_value(what, v):
    """the Python value the iterator compares / a digest would hash (None: no such value)"""
    if what == "args":
        return None if v in ("none", "base", "bad") else (tuple(v) if is_list_arg(v) else v)
    if what == "size":
        return tuple(v)
    return v if what == "dur" and v is not None else None


def value_stats(c, r):
    """(accepted setter operations that change a setting to an UNEQUAL value with an EQUAL hash,
    frames yielded after such a change, accepted setters to / from an unhashable argument value)"""
    cur = {"args": 0 if c["args"] in ("none", "base") else c["args"], "size": c["size"], "dur": c["dur"]}
    coll = after = unhash = 0
    seen = False
    for o, x in zip(c["ops"], r["ops"]):
        if o[0] in cur and x[0][0] == "K":
            a, b = py_value(o[0], cur[o[0]]), py_value(o[0], o[1])
            if o[0] == "args" and (is_list_arg(o[1]) or is_list_arg(cur[o[0]])):
                unhash += 1
            elif a is not None and b is not None and a != b and hash(a) == hash(b):
                coll += 1
                seen = True
            if o[0] != "args" or o[1] != "base":
                cur[o[0]] = o[1]
            else:
                cur[o[0]] = 0
        elif o[0] == "next" and x[0][0] == "F" and seen:
            after += 1
    return coll, after, unhash


def value_family(c):
    """which kind of setting values a history contains (for choosing the failing inputs to shrink)"""
    if any(is_list_arg(a) for a in [c["args"]] + [o[1] for o in c["ops"] if o[0] == "args"]):
        return "unhashable"
    cur = {"args": 0 if c["args"] in ("none", "base") else c["args"], "size": c["size"], "dur": c["dur"]}
    fam = set()
    for o in c["ops"]:
        if o[0] in cur:
            a, b = py_value(o[0], cur[o[0]]), py_value(o[0], o[1])
            if a is not None and b is not None and a != b and hash(a) == hash(b):
                fam.add(o[0])
            cur[o[0]] = 0 if o[0] == "args" and o[1] == "base" else o[1]
    return "collide:" + ",".join(sorted(fam)) if fam else "plain"


ARG_VALUES = [0, 1, 2, -1, -2, -1, -2, 5, -7]


def collide_case(rng, i):
    """A round trip (shape of `rt_leg`) over ONE setting between values the iterator must tell apart
    although a digest may not: A -> twin(A) (-> twin of that) -> A for an argument field, a static
    duration or the render width; or to / from / between list-valued (unhashable) argument fields."""
    n = rng.choice([2, 3, 3, 4])
    loops = rng.choice([2, 3, -1, -1, 1])
    what = ("args", "args", "dur", "size", "args")[i % 5]
    unhashable = what == "args" and i % 5 == 4
    cfg = {"size": list(rng.choice(RT_SIZES)), "dur": rng.choice([1, 7, 40] if what == "dur" else RT_VALUES["dur"]),
           "args": rng.choice(ARG_VALUES),
           # a width beyond 2**61 cannot be padded (the padding lines would be that long): no padding there
           "pad": ["E", 0, 0, 0, 0] if what == "size" or rng.random() < 0.4 else list(rng.choice(RT_PADS))}
    if unhashable and rng.random() < 0.5:
        cfg["args"] = ["L", rng.choice([3, 4])]
    c = base.base_case(n=n, loops=loops, cache=rng.choice([True, True, n, n + 1, 100]), stamp=True, **cfg)
    a = cfg[what]
    if unhashable:
        b = ["L", rng.choice([3, 4])] if not is_list_arg(a) or rng.random() < 0.6 else rng.choice(ARG_VALUES)
        via = rng.choice([None, ["L", 3], 0])
    elif what == "size":
        b, via = [twin(a[0]), a[1]], None
    else:
        b = twin(a)
        via = rng.choice([None, None, a + 2 * PY_M if a >= 0 else a - 2 * PY_M])
    if via is not None and via in (a, b):
        via = None
    h = _Hist(n, loops)
    mode = rng.choice(RT_MODES) if loops != 1 else rng.choice(RT_MODES[1:])
    rt_leg(h, what, a, b, rng.randint(1, n), min(rng.choice([1, 1, 1, 2, 0]), n - 1), mode, via=via,
           seek_first=rng.randrange(n) if rng.random() < 0.4 else None, how=rng.choice([0, 0, 1, 2]),
           tail=rng.choice([None, 0, 1]))
    if rng.random() < 0.3:  # an ordinary round trip of another setting afterwards
        w2 = rng.choice([w for w in ("dur", "args") if w != what])
        a2 = h_current(c, h.ops, w2)
        if not is_list_arg(a2):
            rt_leg(h, w2, a2, _other(rng, w2, a2), rng.randint(0, 2), 1, mode, how=0, tail=0)
    c["ops"] = h.ops
    return c


def h_current(c, ops, what):
    v = c[what]
    for o in ops:
        if o[0] == what:
            v = o[1]
    return 0 if what == "args" and v in ("none", "base") else v


def collide_sweep():
    """Thorough tier: every (frame count, frames under A, frames under B, way of revisiting, finite or
    infinite loops) for each kind of colliding / unhashable change."""
    kinds = [("args", -1, -2), ("args", 5, 5 + PY_M), ("args", 0, PY_M), ("args", 0, ["L", 3]), ("args", ["L", 3], ["L", 4]),
             ("dur", 7, 7 + PY_M), ("size", [2, 1], [2 + PY_M, 1])]
    out = []
    for what, a, b in kinds:
        for n in (2, 3, 4):
            for k1 in range(1, n + 1):
                for j in range(0, n):
                    for mode in RT_MODES:
                        for loops in (2, -1):
                            cfg = {"size": [2, 1], "args": 1, "dur": 7, "pad": ["E", 0, 0, 0, 0] if what == "size" else ["E", 1, 0, 2, 1]}
                            cfg[what] = a
                            out.append(rt_case(n, what, b, k1, j, mode, loops=loops, **cfg))
    return out


def remap_values(c, rng):
    """the same history with its argument values 1 / 2 replaced by -1 / -2 (or 5 / 5 + PY_M)"""
    m = rng.choice([{1: -1, 2: -2}, {1: -1, 2: -2}, {1: 5, 2: 5 + PY_M}, {0: -2, 1: -1}])
    c = copy.deepcopy(c)
    if isinstance(c["args"], int):
        c["args"] = m.get(c["args"], c["args"])
    c["ops"] = [["args", m.get(o[1], o[1])] if o[0] == "args" and isinstance(o[1], int) else o for o in c["ops"]]
    return c


class _Hist:
    """History builder that knows which frame is rendered next (`pos` = frame_offset, n = at the
    end-of-pass boundary) and never lets a finite loop count run out: where the next pass would
    exhaust the iterator it seeks to frame 0 instead (a seek does not consume a loop)."""

    def __init__(self, n, loops):
        self.n, self.loops, self.ops, self.pos, self.passes = n, loops, [], 0, 0

    def nexts(self, k):
        for _ in range(k):
            if self.pos >= self.n:
                if 0 < self.loops <= self.passes + 1:
                    self.seek_to(0)
                else:
                    self.passes += 1
                    self.pos = 0
            self.ops.append(["next"])
            self.pos += 1

    def seek_to(self, t, how=0):
        if how == 0:
            self.ops.append(["seek", t, 0, True])
        elif how == 1:
            self.ops.append(["seek", t - self.pos, 1, True])
        else:
            self.ops.append(["seek", t - (self.n - 1), 2, True])
        self.pos = t

    def set(self, what, v):
        self.ops.append([what, copy.deepcopy(v)])


def rt_leg(h, what, a, b, k1, j, mode, via=None, seek_first=None, how=0, tail=None):
    """k1 frames under A; B; j frames under B (optionally after a seek); (C; one frame;) back to A;
    revisit frames rendered under A: rest of this pass and the whole next one / seek(0) and a whole
    pass / seek back to an earlier frame and `tail` frames."""
    n = h.n
    h.nexts(k1)
    h.set(what, b)
    if seek_first is not None:
        h.seek_to(seek_first, how)
    h.nexts(j)
    if via is not None:
        h.set(what, via)
        h.nexts(1)
    h.set(what, a)
    if mode == "loop":
        h.nexts((n - h.pos) + n)
    elif mode == "seek0":
        h.seek_to(0, how)
        h.nexts(n)
    else:
        h.seek_to(max(0, min(h.pos, n) - (tail or 1) - 1), how)
        h.nexts(n if tail is None else tail + 1)


def rt_case(n, what, b, k1, j, mode, loops=2, cache=True, via=None, seek_first=None, how=0, tail=None, **cfg):
    c = base.base_case(n=n, loops=loops, cache=cache, stamp=True, **cfg)
    h = _Hist(n, loops)
    rt_leg(h, what, c[what] if what != "args" or is_list_arg(c[what]) or c[what] not in ("none", "base") else 0, b, k1, j, mode,
           via=via, seek_first=seek_first, how=how, tail=tail)
    c["ops"] = h.ops
    return c


def _other(rng, what, *avoid):
    return copy.deepcopy(rng.choice([v for v in RT_VALUES[what] if v not in avoid]))


def roundtrip_case(rng, i):
    """A random history made of 1-2 round trips (the first over setting number i mod 4)."""
    n = rng.choice([2, 3, 3, 4])
    loops = rng.choice([2, 3, -1, -1, 1])
    cfg = {"size": list(rng.choice(RT_SIZES)), "dur": rng.choice(RT_VALUES["dur"]), "args": rng.choice([0, 1, 2, "none"]),
           "pad": list(rng.choice(RT_PADS)) if rng.random() < 0.6 else ["E", 0, 0, 0, 0]}
    c = base.base_case(n=n, loops=loops, cache=rng.choice([True, True, n, n + 1, 100]), stamp=True, **cfg)
    h = _Hist(n, loops)
    cur = {k: (0 if k == "args" and v == "none" else v) for k, v in cfg.items()}
    order = ["size", "dur", "args", "pad"]
    first = order[i % 4]
    for leg in range(rng.choice([1, 1, 2])):
        what = first if leg == 0 else rng.choice(order)
        a = cur[what]
        b = _other(rng, what, a)
        via = _other(rng, what, a, b) if rng.random() < 0.2 else None
        k1 = rng.randint(1, n) if leg == 0 else rng.randint(0, 2)
        j = min(rng.choice([1, 1, 1, 2, 0]), n - 1)
        mode = rng.choice(RT_MODES) if loops != 1 else rng.choice(RT_MODES[1:])
        seek_first = rng.randrange(n) if rng.random() < 0.3 else None
        if rng.random() < 0.25:  # an unrelated setting changes for good somewhere inside the round trip
            w2 = rng.choice([w for w in order if w != what])
            cur[w2] = _other(rng, w2, cur[w2])
            h.nexts(rng.randint(0, 1))
            h.set(w2, cur[w2])
        rt_leg(h, what, a, b, k1, j, mode, via=via, seek_first=seek_first, how=rng.choice([0, 0, 1, 2]),
               tail=rng.choice([None, 0, 1]))
    c["ops"] = h.ops
    return c


def roundtrip_sweep():
    """Thorough tier: every (setting, frame count, frames under A, frames under B, way of revisiting,
    padding or none, finite or infinite loops) for fixed values A / B."""
    other = {"size": [3, 2], "dur": 40, "args": 2, "pad": ["A", 6, 4, 2, 2]}
    out = []
    for what in ("size", "dur", "args", "pad"):
        for n in (2, 3, 4):
            for k1 in range(1, n + 1):
                for j in range(0, n):
                    for mode in RT_MODES:
                        for pad in (["E", 0, 0, 0, 0], ["E", 1, 0, 2, 1]):
                            for loops in (2, -1):
                                out.append(rt_case(n, what, other[what], k1, j, mode, loops=loops, pad=pad,
                                                   size=[2, 1], args=1, dur=7))
    return out


RT_CORPUS = (
    # size round trip with ONE frame rendered under B, revisit in the next loop (no padding / padding)
    [rt_case(3, "size", [4, 2], 2, 1, "loop", pad=p) for p in (["E", 0, 0, 0, 0], ["E", 1, 1, 1, 1], ["A", 6, 4, 1, 1])]
    # the same shape for the other three settings
    + [rt_case(3, w, b, 2, 1, "loop", pad=["E", 1, 0, 0, 1]) for w, b in (("dur", None), ("args", 2), ("pad", ["A", 5, 4, 0, 0]))]
    # revisit by a backward seek inside a single loop; by seek(0); through a third value
    + [rt_case(4, w, b, 3, 1, "back", loops=1, tail=2) for w, b in (("size", [3, 2]), ("dur", 40), ("args", 1), ("pad", ["E", 2, 1, 1, 3]))]
    + [rt_case(2, "size", [2, 3], 1, 1, "seek0", loops=-1, cache=2),
       rt_case(3, "size", [2, 3], 3, 1, "loop", loops=3, via=[1, 1], pad=["A", 0, 0, 1, 1]),
       rt_case(3, "pad", ["A", 0, -2, 1, 1], 3, 2, "seek0", loops=2, via=["E", 0, 0, 0, 0], pad=["E", 1, 1, 1, 1])]
)


VAL_CORPUS = [
    # one pass, the argument field goes -1 -> -2 (equal hashes), the next pass; and back
    base.base_case(n=3, loops=3, cache=True, stamp=True, args=-1, ops=[N] * 3 + [["args", -2]] + [N] * 3 + [["args", -1]] + [N] * 3),
    # x -> x + (2**61 - 1): argument field, static duration, render width
    rt_case(3, "args", 5 + PY_M, 2, 1, "loop", args=5, pad=["E", 1, 0, 0, 1]),
    rt_case(2, "args", PY_M, 2, 1, "seek0", loops=-1, args=0),
    rt_case(3, "dur", 7 + PY_M, 2, 1, "loop", dur=7),
    rt_case(3, "dur", 1 + PY_M, 3, 1, "back", loops=1, tail=1, dur=1, pad=["A", 6, 4, 1, 1]),
    rt_case(3, "size", [2 + PY_M, 1], 2, 1, "loop", size=[2, 1]),
    rt_case(2, "size", [1 + PY_M, 1], 2, 1, "seek0", loops=3, size=[1, 1]),
    # unhashable (list-valued) argument field: from the start; set mid-iteration; list -> equal list
    # (no re-render) -> another list -> back to an int
    base.base_case(n=2, loops=2, cache=True, stamp=True, args=["L", 3], ops=[N] * 5),
    base.base_case(n=2, loops=3, cache=True, stamp=True, args=0,
                   ops=[N, N, ["args", ["L", 3]], N, N, ["args", ["L", 3]], N, ["args", ["L", 4]], N, ["seek", 0, 0, True],
                        N, ["args", 0], N, N]),
    rt_case(3, "args", ["L", 4], 2, 1, "back", loops=1, tail=1, args=["L", 3], pad=["E", 0, 1, 0, 0]),
]


CORPUS = (
    [revisit(n, w) for n in (2, 3) for w in ("size", "dur", "args", "pad")]
    + [revisit(3, "args", cache=c) for c in (2, 3, 4, False)]
    + [revisit(2, "size", loops=-1, cache=100)]
    + [
        # seek back within a pass: the cached frame is reused, also after a rejected setter
        base.base_case(n=5, loops=2, cache=5, stamp=True,
                       ops=[N, N, N, ["seek", 0, 0, True], N, N, ["dur", 0], ["seek", -2, 1, True], N, N, N, N, N]),
        # equal-by-value arguments / size / duration set again: no re-render
        base.base_case(n=2, loops=3, cache=True, stamp=True, args=1, size=[2, 1], dur=7,
                       ops=[N, N, ["args", 1], ["size", [2, 1]], ["dur", 7], N, N, ["args", "base"], N, N]),
        # INDEFINITE is never cached
        base.base_case(n=None, total=6, loops=2, cache=True, stamp=True, ops=[N, N, ["seek", 0, 0, True], N, N]),
        # deterministic failure of one frame
        dict(base.base_case(n=3, loops=3, cache=True, stamp=True, ops=[N] * 5), ffaults={"1": 1}),
        dict(base.base_case(n=3, loops=3, cache=True, stamp=True, ops=[N, ["seek", 2, 0, True], N, N, N, N]),
             ffaults={"1": 0}),
        # draw()'s rule is exercised by C10's draw cases; here loops = 1 with an explicit cache
        base.base_case(n=3, loops=1, cache=True, stamp=True, ops=[N, N, ["seek", 0, 0, True], N, N, N, N]),
    ]
    + RT_CORPUS
    + VAL_CORPUS
)


def uncached(c):
    u = copy.deepcopy(c)
    u["cache"] = False
    return u


def evaluate(cases, tag="c09"):
    both = []
    for c in cases:
        both += [c, uncached(c)]
    impl = core.run_impl_parallel(DRIVER, both)
    terms = []
    for k, c in enumerate(cases):
        e = enc_case(c)
        terms.append(f"({base.case_t(e, impl[2 * k])}, {base.case_t(uncached(e), impl[2 * k + 1])})")
    codes = [0] * len(cases)
    res, errors = core.coq_shards(tag, HEADER, terms, "tcase * tcase", "bad9w cases", shard=100)
    for idx, code in res:
        codes[idx] = code
    return codes, errors, [{"cached": impl[2 * k], "uncached": impl[2 * k + 1]} for k in range(len(cases))]


def fails_spec9(cands, tag="c09s"):
    codes, errors, _ = evaluate(cands, tag=tag)
    return [code >= 2 and not errors for code in codes]


def doc_enabled(c):
    if c["n"] is None:
        return False
    return c["cache"] if isinstance(c["cache"], bool) else c["n"] <= c["cache"]


def roundtrip_hits(c, r):
    """(cache hits, hits on an entry filled before a render under another (size, duration, arguments)
    value that has since been restored, hits on an entry filled under the padding in force now with
    renders under another padding in between) of the cached run; needs call stamps."""
    if r["ctor"][0] != "ok" or not c.get("stamp") or c["n"] is None:
        return 0, 0, 0
    log, calls, pad_now, pad_at = r["log"], 0, c["pad"], []
    hits = key_rt = pad_rt = 0
    for o, x in zip(c["ops"], r["ops"]):
        out = x[0]
        if o[0] == "pad" and out[0] == "K":
            pad_now = o[1]
        if o[0] != "next":
            continue
        if out[0] == "E":
            calls += 1
            pad_at.append(pad_now)
        elif out[0] == "F" and len(out[5]) == 8:
            st = out[5][7]
            if st == calls:
                calls += 1
                pad_at.append(pad_now)
            elif 0 <= st < calls <= len(log):
                hits += 1
                key_rt += any(l[2:6] != log[st][2:6] for l in log[st + 1:calls])
                pad_rt += pad_at[st] == pad_now and any(p != pad_now for p in pad_at[st + 1:calls])
    return hits, key_rt, pad_rt


def run(ctx):
    rng = ctx.rng
    image_only = None
    if ctx.replay:
        rp = ctx.replay.get("replay") or {}
        if "image_case" in rp:  # a failing ImageIterator pair: re-run that pair only
            image_only, cases = rp["image_case"], []
        else:
            cases = [rp["case"]]
    else:
        ngen = 450 if ctx.quick else 6000
        nrt = 160 if ctx.quick else 2400
        ncol = 60 if ctx.quick else 900
        # a generator of their own (derived from the run's seed): the round trips do not shift the
        # random stream of the other generators of this plugin
        import random
        rt_rng = random.Random(ctx.seed * 1000003 + 9)
        val_rng = random.Random(ctx.seed * 1000003 + 10)
        cases = ([copy.deepcopy(c) for c in CORPUS]
                 + [remap_values(c, val_rng) if val_rng.random() < 0.25 else c
                    for c in (gen_case(rng, i) for i in range(ngen))]
                 + [roundtrip_case(rt_rng, i) for i in range(nrt)]
                 + [collide_case(val_rng, i) for i in range(ncol)])
        if not ctx.quick:
            cases += roundtrip_sweep() + collide_sweep()
    # the draw() decisions and the image-iterator pairs are judged concurrently with the histories above
    # (their cases are drawn first, on this thread: the random stream is the same as when run in sequence)
    from concurrent.futures import ThreadPoolExecutor
    side = ThreadPoolExecutor(max_workers=2)
    img_list = [image_only] if image_only is not None else img_cases(ctx)
    fut_img = side.submit(run_image_pairs, ctx, img_list, image_only is not None)
    fut_draw = side.submit(run_draw_decisions, ctx) if image_only is None else None
    codes, errors, impl = evaluate(cases) if cases else ([], [], [])
    failing = [cases[i] for i, code in enumerate(codes) if code >= 2]
    failures = []
    if failing:
        failing.sort(key=lambda c: len(c["ops"]))  # shrink the smallest ones: fewer, cheaper rounds
        # ... one per family of setting values first (unhashable argument value / change between hash-equal
        # unequal values of arguments, duration, size / neither), so that each kind of failing input is shown
        first, seen_fam = [], set()
        for c in failing:
            if value_family(c) not in seen_fam:
                seen_fam.add(value_family(c))
                first.append(c)
        failing = first + [c for c in failing if not any(c is f for f in first)]
        minimal = [base.shrink(c, fails_spec9, "c09s") if k < max(2, min(len(first), 4)) else c
                   for k, c in enumerate(failing)]
        uniq = {}
        for m in minimal:
            uniq.setdefault(base.signature(m), m)
        keys = list(uniq)
        c2, _, impl2 = evaluate([uniq[k] for k in keys], "c09r")
        for k, code, obs in zip(keys, c2, impl2):
            failures.append({
                "signature": k,
                "what": "cached and uncached iterators differ, or a cached frame was rendered again under "
                        "unchanged settings: " + base.describe(uniq[k]) + " -> cached "
                        + json.dumps([x[0] for x in obs["cached"].get("ops", [])])[:400] + " / uncached "
                        + json.dumps([x[0] for x in obs["uncached"].get("ops", [])])[:400],
                "replay": {"case": uniq[k], "observed": obs, "code": code},
            })
    mismatches = [{"case": cases[i], "code": code} for i, code in enumerate(codes) if code == 1]
    # distribution
    hist = base.histogram(cases, [r["cached"] for r in impl])
    saved, hits, revisits, enabled, setting_changes_then_revisit = 0, 0, 0, 0, 0
    rt_hits = [0, 0, 0, 0]
    vals = {"accepted_changes_to_an_unequal_value_with_equal_hash": 0, "frames_yielded_after_such_a_change": 0,
            "histories_with_such_a_change": 0, "accepted_changes_to_or_from_an_unhashable_argument_value": 0,
            "histories_with_an_unhashable_argument_value": 0, "histories_with_negative_or_huge_argument_values": 0}
    for c, r in zip(cases, impl):
        if r["cached"]["ctor"][0] != "ok":
            continue
        vs = value_stats(c, r["cached"])
        vals["accepted_changes_to_an_unequal_value_with_equal_hash"] += vs[0]
        vals["frames_yielded_after_such_a_change"] += vs[1]
        vals["histories_with_such_a_change"] += vs[0] > 0
        vals["accepted_changes_to_or_from_an_unhashable_argument_value"] += vs[2]
        allargs = [c["args"]] + [o[1] for o in c["ops"] if o[0] == "args"]
        vals["histories_with_an_unhashable_argument_value"] += any(is_list_arg(a) for a in allargs)
        vals["histories_with_negative_or_huge_argument_values"] += any(isinstance(a, int) and not 0 <= a <= 2 for a in allargs)
        hk = roundtrip_hits(c, r["cached"])
        rt_hits = [rt_hits[0] + hk[0], rt_hits[1] + hk[1], rt_hits[2] + hk[2], rt_hits[3] + (hk[1] + hk[2] > 0)]
        lc, lu = len(r["cached"]["log"]), len(r["uncached"]["log"])
        saved += lu - lc
        if doc_enabled(c):
            enabled += 1
            hits += 1 if lc < lu else 0
            seen = set()
            changed = False
            for o, x in zip(c["ops"], r["cached"]["ops"]):
                if o[0] in ("size", "dur", "args", "pad") and x[0][0] == "K":
                    changed = True
                if o[0] == "next" and x[0][0] == "F":
                    if x[0][1] in seen:
                        revisits += 1
                        setting_changes_then_revisit += changed
                    seen.add(x[0][1])
    hist["c09"] = {"pairs_with_caching_enabled_by_the_documented_rule": enabled,
                   "pairs_where_the_cache_saved_renders": hits, "renders_saved_total": saved,
                   "frame_revisits": revisits, "frame_revisits_after_a_setting_change": setting_changes_then_revisit,
                   "cache_hits": rt_hits[0],
                   "cache_hits_after_a_round_trip_of_size_duration_or_arguments_with_renders_under_the_other_value": rt_hits[1],
                   "cache_hits_after_a_padding_round_trip_with_renders_under_the_other_padding": rt_hits[2],
                   "histories_with_such_a_round_trip_hit": rt_hits[3],
                   "deterministic_frame_faults": sum(1 for c in cases if c.get("ffaults")),
                   "setting_values": vals}
    extra = {}
    if fut_draw is not None:
        dd = fut_draw.result()
        extra["draw_cache_decisions"] = dd["summary"]
        failures += dd["failures"]
        errors += dd["errors"]
    img = fut_img.result()
    side.shutdown()
    if img is not None:
        extra["image_iterator_pairs"] = img["summary"]
        failures += img["failures"]
        mismatches += img["mismatches"]
        errors += img["errors"]
    distinct = {base.signature(c) for c, r in zip(cases, impl)
                if doc_enabled(c) and base.nontrivial(c, r["cached"]) and len(r["cached"]["log"]) < len(r["uncached"]["log"])}
    return {
        "corr_name": "paired RenderIterator runs (cache argument vs cache=False) on the deterministic instrumented "
                     "renderable == Iter model; observations judged by the history-level C09 oracle (check9)",
        "evaluations": len(cases),
        "distinct_nontrivial": len(distinct),
        "rule": "corpus (render all frames, change exactly one of size/duration/arguments/padding, revisit, change "
                "back, revisit; cache limits n-1/n/n+1; INDEFINITE; deterministic per-frame failures) + random "
                "histories of the C08 generator biased to caching configurations and setter operations, loops "
                "in {-1,2,3} mostly, call stamps on; round-trip histories (one of size / duration / arguments / padding "
                "goes A -> B (-> C) -> A with a partial pass rendered under B, then the frames cached under A are "
                "revisited by the next loop, seek(0) or a backward seek; 2-4 frames, loops {1,2,3,-1}, with and "
                "without padding, 1-2 round trips per history; thorough adds the full sweep over setting x frame "
                "count x frames under A x frames under B x way of revisiting); VALUES: round trips between UNEQUAL "
                "values with EQUAL CPython hashes (-1 / -2, x / x +- (2**61 - 1)) of an argument field, a static "
                "duration or the render width, and to / from / between list-valued (unhashable) argument fields "
                "(collide_case; thorough adds the sweep over kind of change x frame count x frames under A x "
                "frames under B x way of revisiting), a quarter of the random histories with argument values "
                "remapped onto -1 / -2 / 5 / 5 + 2**61 - 1; each history run with its cache "
                "argument and with cache=False; both runs also judged by the history-level oracle (wrap_okb / "
                "current_okb: every yielded frame is sized, padded and rendered for the settings in force). "
                "Non-trivial: caching enabled by the documented rule, >= 4 ops, >= 2 frames, a seek or setter, and "
                "the cache actually saved at least one render; distinct by full case hash. "
                "Image iterators: paired caching / non-caching ImageIterator runs of one history (next / seek / "
                "set_size / terminal resize with a dynamic size / close) over two instances of the same 2-4 frame "
                "source, SOURCE KIND in {PIL image from bytes, PIL image opened from a file by the caller, file path, "
                "URL (temp file)} x {GIF, WebP} x 3 styles x format specifiers; random histories, size patterns "
                "A/B/A per pass, and histories whose FIRST LOOP COMPLETES with every frame cached before the size "
                "changes in a later loop (late_case: 0-2 passes served from the cache, then A -> B (-> A / C), seeks, "
                "a frame whose rendering fails at B); judged in Coq (check9e = check9i on the history lowered from "
                "setting / environment changes through the observed rendered-size table) on outcomes AND on the render "
                "requests (frame, size) of every operation.  ENVIRONMENT x SETTING KIND (env_case): after the first loop "
                "filled the cache, in a cached loop one of terminal size / cell ratio / cell size changes alone under a "
                "dynamic setting, or the setting changes kind (fixed <-> dynamic, member -> member) and the environment "
                "changes some frames later; frames cached since are revisited.",
        "samples": [base.describe(c) for c in cases[:2] + cases[len(CORPUS):len(CORPUS) + 2] + cases[-2:]],
        "histogram": hist,
        "mismatches": mismatches,
        "failures": failures,
        "errors": errors,
        "extra": extra,
        "assumptions": [
            "cache_transparent assumes the renderable deterministic (render_det): the result of _render_ depends only "
            "on the frame offset, whence, size, duration and arguments it is handed; true of the instrumented "
            "renderable once call stamps are erased; no_rerender_unchanged needs no such assumption",
            "cache keys are compared by value ((size, duration, render_args) tuple equality), arguments are "
            "identified with their field values (a list-valued field [k] with the integer 7000000 + k: equal values "
            "<-> equal codes); hashed_cache_transparent_iff: comparing any digest h of the key instead is "
            "transparent iff h separates valid keys - CPython's hash does not (py_int_hash, 64-bit builds)",
            "wrap_current assumes the contract of _render_ (render_honours_size: the returned frame has the "
            "requested size; true of the instrumented renderable, lemma wex_honours); padded_is_current and "
            "settings_by_history assume nothing about the renderable",
            "image iterator half: imgiter_cache_transparent / cached_requests_sub assume renderer_ok (frames 0..n-1 "
            "render or fail, frame n raises EOFError), deterministic rendering (fmt_frame a function of frame number "
            "and size) and that hash() separates the rendered sizes that occur (checked at run time); the source "
            "theorems (source_erased, kept_source_transparent) assume a source whose renders, while its invariant "
            "holds, are that pure function; the ImgIter model is tied to the code by C11's correspondence and by "
            "check9i here",
            "image iterator half, round 9: the rendered size is rsize(setting, env3 = terminal size, cell ratio, cell "
            "size); the resolution of a dynamic size is a Section variable (C04); that nothing else enters the rendered "
            "size is validated per pair (the observed table must be a function).  The theorems take a frame to be a "
            "function of (frame number, rendered size): for graphics-based styles the cell size also enters the frame "
            "itself (pixel size of the render) - KNOWN FINDING C09_imgiter_cell_size_only_change_refuted, "
            "pending_fixes/C09_imageiterator_cache_cell_size.diff; pairs in which the cell size changed under an "
            "unchanged rendered size AND the runs differ are counted in the summary, not reported",
        ],
        "trusted": ["impl driver (impl_c09_iter.py = impl_c08.py, shared with C08, plus list-valued argument fields): "
                    "call stamps written into the render output identify the _render_ invocation that produced a "
                    "delivered frame; a list-valued field is written by the renderable as an integer code",
                    "the harness interpreter and the library's interpreter agree on hash() of ints (both CPython 64-bit; "
                    "asserted for every colliding pair generated)",
                    "impl_c09_img.py: render requests are observed by wrapping the instance's _render_image (frame = "
                    "_seek_position, size = rendered_size at the call); the renderer table handed to the model is what the "
                    "NON-caching run obtained; opened / closed PIL images are counted by wrapping Image.open / Image.close; "
                    "from_url is served by a stub of requests.get; the environment is changed by patching "
                    "common.get_terminal_size, term_image.set_cell_ratio() and the test-suite's get_cell_size stub"],
    }


def run_draw_decisions(ctx):
    """draw()/_animate_'s caching decision (theorems C09_animate_cache, C09_cache_decision): an
    animation is cached iff it is not a single loop and cache is True or an integer >= the frame
    count; with the cache in force no frame is rendered a second time, without it every pass
    renders every frame again.  The render log of the real draw() is compared with that rule."""
    cases = []
    for n in (2, 3, 5):
        for loops in (-1, 1, 2, 3):
            for cache in (True, False, n - 1, n, n + 1):
                c = {"n": n, "loops": loops, "cache": cache}
                if loops < 0:
                    c["stop"] = 3 * n + 1  # infinite: Ctrl-C during the (3n+1)-th wait
                cases.append(c)
    try:
        res = core.run_impl_parallel("impl_c09_draw.py", cases)
    except Exception as e:  # noqa: BLE001
        return {"summary": {}, "failures": [], "errors": [f"draw-decision driver failed: {e}"[:800]]}
    failures = []
    for c, r in zip(cases, res):
        n, loops, cache = c["n"], c["loops"], c["cache"]
        cached = loops != 1 and (cache is True or (not isinstance(cache, bool) and n <= cache))
        shown = n * loops if loops > 0 else c["stop"] + 1  # frames requested from the iterator
        want = [i % n for i in range(shown)]
        if cached:
            want = want[:n]
        if r["ended"] != "returned" or r["renders"] != want:
            failures.append({"signature": core.sig(["draw-cache", c]),
                             "what": f"draw(loops={loops}, cache={cache}) of a {n}-frame animation rendered frames {r['renders']} "
                                     f"({r['ended']}); the documented caching decision (cached={cached}) gives {want}",
                             "replay": {"draw_case": c, "observed": r}})
    return {"summary": {"draw_calls": len(cases), "cached_by_rule": sum(1 for c in cases if c["loops"] != 1 and (c["cache"] is True or (not isinstance(c["cache"], bool) and c["n"] <= c["cache"])))},
            "failures": failures, "errors": []}


# ----------------------------------------------------------------- image iterators

IMG_HEADER = ("From Coq Require Import List ZArith.\nImport ListNotations.\n"
              "From TI Require Import model.ImgIter model.ImgIterEnv model.ImgIterSrc model.ImgIterSrcTie "
              "model.ImgIterRsz model.ImgIterRszTie.\n"
              "Open Scope nat_scope.\n")
IMG_STYLES = ["block", "kitty", "iterm2"]
IMG_SIZES = [[4, 2], [6, 3], [2, 1], [8, 4]]
IMG_SPECS = {"block": ["", "1.1", "<10.^5"], "kitty": ["+W", "+Lz5", "+Wc9m1", "1.1+W"],
             "iterm2": ["+W", "+L", "+Wm1c9", "+A"]}
IMG_SOURCES = ["file", "file", "file", "url", "pil_file", "pil", "pil"]
UNKNOWN_FRAME = 900000  # identity of a (frame, size) the non-caching run never rendered


def img_source(rng, c):
    """the SOURCE KIND dimension: who opened the image the iterator renders from, and from what"""
    c["source"] = rng.choice(IMG_SOURCES)
    c["fmt"] = rng.choice(["GIF", "GIF", "WEBP"])
    return c


def late_case(rng, i):
    """The first loop renders every frame under size A (so every frame is cached) and nothing else
    happens in it; the size changes only in a LATER loop: after j further frames to B, m frames, then
    back to A or on to C, optionally a seek, and on to the end of that loop and into the next."""
    n = rng.choice([2, 2, 3, 4])
    a, b, c3 = rng.sample(IMG_SIZES, 3)
    ops = [["size", a]] if rng.random() < 0.5 else []
    if not ops:
        a = [4, 2]
        b = b if b != a else c3
    ops += [["next"]] * n                       # the first loop, complete
    ops += [["next"]] * rng.randint(0, 2 * n)   # 0 .. 2 loops served from the cache
    ops += [["size", b]]
    ops += [["next"]] * rng.randint(1, n + 1)
    if rng.random() < 0.3:
        ops += [["seek", rng.randrange(n)], ["next"]]
    if rng.random() < 0.7:
        ops += [["size", a if rng.random() < 0.6 else c3]]
        ops += [["next"]] * rng.randint(1, n + 1)
    if rng.random() < 0.15:
        ops += [["close"], ["next"]]
    style = IMG_STYLES[i % 3]
    c = {"frames": n, "repeat": rng.choice([-1, -1, 4, 5, 7]), "style": style,
         "cached": rng.choice([True, True, n, n + 1, 100]), "ops": ops}
    if rng.random() < 0.4:
        c["spec"] = rng.choice(IMG_SPECS[style])
    if rng.random() < 0.15:  # rendering one frame fails at size B: both runs must end there alike
        c["fail"] = [rng.randrange(n), b[0]]
    return img_source(rng, c)


# the ENVIRONMENT of a rendered size (round 9): terminal size, cell ratio, cell size; and the KIND of the setting
ENV_TERMS = [[40, 12], [30, 8], [24, 10], [50, 9]]
ENV_RATIOS = [[1, 2], [1, 1], [1, 4], [3, 4]]
ENV_CELLS = [[10, 20], [5, 20], [3, 4], [6, 6]]  # pairwise different aspect ratios: a dynamic size moves with them
ENV_MEMBERS = ["FIT", "FIT_TO_WIDTH", "ORIGINAL", "AUTO"]
ENV0 = {"term": [80, 30], "ratio": [1, 2], "cell": [10, 20]}


def env_change(rng, style, env, g=None):
    """one component of the environment changes, alone; mostly a component the rendered size of the style and
    of the setting in force [g] depends on (a fixed size depends on none: rarely, as a negative case)"""
    own, other = ("ratio", "cell") if style == "block" else ("cell", "ratio")
    dyn = g is None or g[0] == "D"
    frame_bound = dyn and (g is None or g[1] in ("FIT", "FIT_TO_WIDTH"))
    # graphics style + fixed size + cell-size change = the known finding (pixel size of the render): kept rare
    comp = rng.choices([own, "term", other], [5 if dyn else 0.6, 3 if frame_bound else 0.5, 0.4])[0]
    pool = {"term": ENV_TERMS, "ratio": ENV_RATIOS, "cell": ENV_CELLS}[comp]
    v = rng.choice([x for x in pool if x != env[comp]])
    env[comp] = v
    return [comp, v]


def setting_change(rng, cur):
    """-> (op, new setting): a change of KIND (fixed -> dynamic, dynamic -> fixed) or within the kind"""
    if rng.random() < (0.75 if cur[0] == "F" else 0.4):
        m = rng.choice([x for x in ENV_MEMBERS if cur != ["D", x]])
        return ["dsize", m], ["D", m]
    w = rng.choice([x for x in (3, 4, 5, 6, 7, 8) if cur != ["F", x]])
    return ["size", [w, 0]], ["F", w]


def env_case(rng, i):
    """The first loop fills the cache; in a later (cached) loop: (a) ONE component of the environment
    changes under a dynamic setting, or (b) the setting changes KIND and, some frames later, the environment
    changes; then on through the rest of that loop and the next one (every frame cached since is revisited)."""
    n = rng.choice([2, 2, 3])
    style = IMG_STYLES[i % 3]
    env = dict(ENV0, term=rng.choice(ENV_TERMS))
    c = {"frames": n, "repeat": rng.choice([-1, -1, 6, 8]), "style": style, "cached": rng.choice([True, True, n, n + 1]),
         "term0": env["term"]}
    mode = rng.choice(["env", "kind", "kind", "mixed"])
    g = ["D", rng.choice(ENV_MEMBERS)] if mode == "env" or rng.random() < 0.2 else ["F", rng.choice([3, 4, 6, 8])]
    c["size0"] = g
    ops = [["next"]] * n + [["next"]] * rng.randint(0, n)
    nexts = lambda lo, hi: [["next"]] * rng.randint(lo, hi)
    if mode == "env":
        for _ in range(rng.randint(1, 2)):
            ops += [env_change(rng, style, env, g)] + nexts(1, 2 * n)
    elif mode == "kind":
        o, g = setting_change(rng, g)
        ops += [o] + nexts(1, n + 1)
        if rng.random() < 0.25:
            o, g = setting_change(rng, g)
            ops += [o] + nexts(1, n)
        ops += [env_change(rng, style, env, g)] + nexts(n, 2 * n + 1)
    else:
        for _ in range(rng.randint(2, 4)):
            if rng.random() < 0.45:
                o, g = setting_change(rng, g)
                ops += [o]
            else:
                ops += [env_change(rng, style, env, g)]
            ops += nexts(1, n + 1)
            if rng.random() < 0.2:
                ops += [["seek", rng.randrange(n)], ["next"]]
        ops += nexts(n, n + 1)
    c["ops"] = ops
    if rng.random() < 0.3:
        c["spec"] = rng.choice(IMG_SPECS[style][:2])
    c["source"], c["fmt"] = rng.choice(["pil", "pil", "file"]), "GIF"
    if rng.random() < 0.6:  # a source large enough for ORIGINAL / AUTO to differ from one cell under graphics styles
        c["px"] = [48, 24]
    return c


def env_corpus():
    """boundary cases: per component of the environment, a change ALONE in the cached loop of a dynamically
    sized image; per kind transition, the change followed by a terminal resize / a cell-ratio (cell-size) change"""
    out = []
    base = lambda style, g, ops, **kw: dict({"frames": 2, "repeat": -1, "style": style, "cached": True, "source": "pil",
                                             "fmt": "GIF", "term0": [40, 12], "size0": g, "ops": ops}, **kw)
    N3, N5 = [["next"]] * 3, [["next"]] * 5
    for style, comp, v in [("block", "term", [30, 8]), ("block", "ratio", [1, 1]), ("kitty", "cell", [5, 20]),
                           ("iterm2", "term", [24, 10]), ("kitty", "ratio", [1, 1]), ("block", "cell", [5, 20])]:
        out.append(base(style, ["D", "FIT"], N3 + [[comp, v]] + N5))
    own = {"block": ["ratio", [1, 1]], "kitty": ["cell", [5, 20]], "iterm2": ["cell", [6, 6]]}
    for style in IMG_STYLES:
        out.append(base(style, ["F", 4], N3 + [["dsize", "FIT"]] + N3 + [["term", [30, 8]]] + N5))
        out.append(base(style, ["F", 6], N3 + [["dsize", "ORIGINAL"]] + N3 + [own[style]] + N5, px=[48, 24]))
        out.append(base(style, ["D", "FIT"], N3 + [["size", [5, 0]]] + N3 + [own[style]] + N5))
        out.append(base(style, ["D", "AUTO"], N3 + [["dsize", "FIT_TO_WIDTH"]] + N3 + [own[style]] + N5, repeat=7, cached=2, px=[48, 24]))
    return out


def env_of_case(c):
    """-> (initial environment, environment after every operation)"""
    env = dict(ENV0, term=c.get("term0", ENV0["term"]))
    e0, out = dict(env), []
    for o in c["ops"]:
        if o[0] in ("term", "ratio", "cell"):
            env[o[0]] = list(o[1])
        out.append(dict(env))
    return e0, out


def coq_env(e):
    pr = lambda p: f"({core.z(p[0])}, {core.z(p[1])})"
    return "{| term_size := %s; cell_ratio := %s; cell_size := %s |}" % (pr(e["term"]), pr(e["ratio"]), pr(e["cell"]))


def coq_setting(g):
    return f"(Fixed {core.z(g[1])} {core.z(g[2])})" if g[0] == "F" else f"(Dyn {g[1]})"


def img_term(c, r):
    """the Coq term of one image case (model/ImgIterRszTie.v c9env): the c9img term of the two observed runs,
    the history as setting / environment changes and the observed (setting, environment) -> rendered size"""
    base = img_term_base(c, r)
    if base is None:
        return None
    a, b = r["runs"]["cached"], r["runs"]["uncached"]
    e0, envs = env_of_case(c)
    eops, table, seen = [], [], set()

    def note(g, e, z):
        key = (json.dumps(g), json.dumps(e, sort_keys=True), z)
        if key not in seen:
            seen.add(key)
            table.append(f"({coq_setting(g)}, {coq_env(e)}, {z})")
    note(a["g0"], e0, a["z0"])
    note(b["g0"], e0, b["z0"])
    for o, g, e in zip(c["ops"], a["settings"], envs):
        eops.append("ENext" if o[0] == "next" else f"ESeek {core.z(o[1])}" if o[0] == "seek" else "EClose" if o[0] == "close"
                    else f"ESetSize {coq_setting(g)}" if o[0] in ("size", "dsize") else f"ESetEnv {coq_env(e)}")
    for run in (a, b):
        for row, g, e in zip(run["rows"], run["settings"], envs):
            note(g, e, row[5])
    sizes = core.coq_list([f"({core.z(s[0])}, {core.z(s[1])})" for s in r["sizes"]])
    return ("{| e9_base := %s; e9_g0 := %s; e9_e0 := %s; e9_ops := %s; e9_rsz := %s; e9_sizes := %s |}"
            % (base, coq_setting(a["g0"]), coq_env(e0), core.coq_list(eops), core.coq_list(table), sizes))


def img_corpus():
    """boundary cases, run first: for every source kind, one complete loop, a size change in the second
    (cached) loop, back in the third; the same with the change in the FIRST loop; a dynamic size with a
    terminal resize after the first loop"""
    out = []
    for k, (src, fmt) in enumerate([("file", "GIF"), ("file", "WEBP"), ("url", "GIF"), ("pil_file", "GIF"), ("pil", "WEBP")]):
        style = IMG_STYLES[k % 3]
        n = 2 + k % 2
        out.append({"frames": n, "repeat": -1, "style": style, "cached": True, "source": src, "fmt": fmt,
                    "ops": [["next"]] * (n + 1) + [["size", [6, 3]]] + [["next"]] * n + [["size", [4, 2]]] + [["next"]] * n})
        out.append({"frames": n, "repeat": 3, "style": style, "cached": n, "source": src, "fmt": fmt,
                    "ops": [["next"], ["size", [6, 3]]] + [["next"]] * (n - 1) + [["size", [4, 2]]] + [["next"]] * (2 * n + 1)})
    out.append({"frames": 2, "repeat": 4, "style": "block", "cached": True, "source": "file", "fmt": "GIF", "dyn": True,
                "ops": [["next"]] * 3 + [["term", [40, 12]]] + [["next"]] * 3 + [["term", [80, 30]]] + [["next"]] * 3})
    return out


def img_cases(ctx):
    rng = ctx.rng
    nframes = [2, 3, 4]
    cases = []
    for i in range(24 if ctx.quick else 200):
        n = rng.choice(nframes)
        ops = []
        for _ in range(rng.randint(3, 14)):
            k = rng.choices(["next", "size", "seek"], [6, 2, 1.5])[0]
            if k == "next":
                ops.append(["next"])
            elif k == "size":
                ops.append(["size", rng.choice(IMG_SIZES)])
            else:
                ops.append(["seek", rng.randrange(n)])
        cases.append({"frames": n, "repeat": rng.choice([1, 2, 3, -1]), "style": rng.choice(IMG_STYLES),
                      "cached": rng.choice([True, n - 1 if n > 1 else 1, n, n + 1]), "ops": ops})
    # size histories that RETURN to an earlier size (A, B, A, ...) once per pass, so that a cache
    # entry rewritten for another size is consulted again under the first one
    for i in range(9 if ctx.quick else 60):
        n = rng.choice([2, 2, 3])
        a, b = rng.sample(IMG_SIZES, 2)
        pattern = rng.choice([[a, b, a, b], [a, b, a, a], [a, b, b, a], [a, a, b, a]])
        ops = []
        for sz in pattern:
            ops.append(["size", sz])
            ops += [["next"]] * n
            if rng.random() < 0.3:
                ops += [["seek", rng.randrange(n)], ["next"]]
        cases.append({"frames": n, "repeat": rng.choice([-1, 4, 5]), "style": rng.choice(IMG_STYLES),
                      "cached": rng.choice([True, n, n + 1]), "ops": ops})
    # non-default style arguments in the iterator's format specifier (a re-rendered stale entry must
    # be rendered with them too), and DYNAMIC image sizes with terminal resizes between passes
    for c in cases:
        if rng.random() < 0.5:
            c["spec"] = rng.choice(IMG_SPECS[c["style"]])
    for i in range(8 if ctx.quick else 60):
        n = rng.choice([2, 2, 3])
        style = rng.choice(IMG_STYLES)
        ta, tb = rng.sample([[80, 30], [40, 12], [60, 20], [30, 30]], 2)
        ops = []
        for t in rng.choice([[ta, tb, ta, tb], [ta, tb, tb, ta], [ta, ta, tb, ta]]):
            ops.append(["term", t])
            ops += [["next"]] * n
        cases.append({"frames": n, "repeat": rng.choice([-1, 4, 5]), "style": style, "dyn": True,
                      "spec": rng.choice(IMG_SPECS[style] + [""]), "cached": rng.choice([True, n, n + 1]), "ops": ops})
    # the SOURCE KIND of every case above, and the histories whose size changes come only after the
    # first loop completed (a generator of their own: the stream of the cases above is as it was)
    import random
    src_rng = random.Random(ctx.seed * 1000003 + 11)
    for c in cases:
        img_source(src_rng, c)
        if src_rng.random() < 0.1:
            c["ops"] = c["ops"] + [["close"], ["next"], ["seek", 0]]
    cases += [late_case(src_rng, i) for i in range(30 if ctx.quick else 400)]
    env_rng = random.Random(ctx.seed * 1000003 + 12)
    cases += [env_case(env_rng, i) for i in range(36 if ctx.quick else 600)]
    return img_corpus() + env_corpus() + cases


def img_term_base(c, r):
    """the c9img term of one image case with its two observed runs (None: a constructor failed)"""
    if r.get("ctor") != ["ok", "ok"]:
        return None
    a, b = r["runs"]["cached"], r["runs"]["uncached"]
    n, nsz = a["n"], max(1, len(r["sizes"]))
    table = [[UNKNOWN_FRAME + 1000 * z + k for k in range(n)] for z in range(nsz)]
    for row, rq in zip(b["rows"], b["reqs"]):
        if row[0] == 0 and 0 <= row[2] < n and row[5] < nsz:
            table[row[5]][row[2]] = row[1]
        elif row[0] == 2 and rq and rq[-1][0] < n and rq[-1][1] < nsz:
            table[rq[-1][1]][rq[-1][0]] = -1
    ops = []
    for o, row in zip(c["ops"], a["rows"]):
        ops.append("Next" if o[0] == "next" else f"Seek {core.z(o[1])}" if o[0] == "seek" else "Close" if o[0] == "close"
                   else f"SetImageSize {row[5]}")
    zl = lambda l: core.coq_list(l, core.z)
    rows = lambda run: core.coq_list([zl(x[:5]) for x in run["rows"]])
    reqs = lambda run: core.coq_list([core.coq_list([f"({q[0]}, {q[1]})" for q in rq]) for rq in run["reqs"]])
    cached = c["cached"]
    return ("{| i9_n := %d; i9_repeat := %s; i9_cached := %s; i9_cache_on := %s; i9_file := %s; i9_table := %s; "
            "i9_hashes := %s; i9_z0 := %d; i9_ops := %s; i9_obs_c := %s; i9_obs_u := %s; i9_req_c := %s; i9_req_u := %s |}"
            % (n, core.z(c["repeat"]),
               ("inl true" if cached else "inl false") if isinstance(cached, bool) else f"inr {core.z(cached)}",
               "true" if a["cache_on"] else "false",
               "true" if c.get("source", "pil") in ("file", "url") else "false",
               core.coq_list([zl(x) for x in table]), zl([s[2] for s in r["sizes"]] or [0]), a["z0"],
               core.coq_list(ops), rows(a), rows(b), reqs(a), reqs(b)))


# KNOWN FINDING (round 9, reported to the coordinator): with a graphics-based style a frame is rendered for the
# rendered size (cells) AND the terminal's cell size (pixel size of the render = cells x cell size), but the cache
# stamp is hash(rendered_size): a cell-size change that leaves the rendered size alone (always so for a fixed
# size) leaves stale entries valid.  Such a case is OUTSIDE the hypothesis hash_separates of the theorems (two
# distinct things a frame is rendered for share a stamp; modelled faithfully: the model predicts the stale
# frames, C09_imgiter_cell_size_only_change_refuted).  Pairs that differ AND in which that happened are counted
# (summary: cell_size_only_changes...) instead of reported, unless this is set.
CELLPIX_IS_FAILURE = False


def pixel_blind(r):
    """two different pixel sizes of the render under one rendered size occurred in this pair"""
    seen = {}
    for z in r.get("sizes", []):
        if len(z) >= 5 and seen.setdefault((z[0], z[1]), (z[3], z[4])) != (z[3], z[4]):
            return True
    return False


def img_evaluate(cases, tag="c09i"):
    """-> (codes, errors, results): code per case as check9i gives it (2 / 3 also when the two runs did
    not even agree on whether the iterator can be constructed)"""
    res = core.run_impl_parallel("impl_c09_img.py", cases)
    terms, where, codes = [], [], [0] * len(cases)
    for k, (c, r) in enumerate(zip(cases, res)):
        t = img_term(c, r)
        if t is None:
            codes[k] = 0 if r["equal"] else 2
        else:
            where.append(k)
            terms.append(t)
    errors = []
    if terms:
        out, errors = core.coq_shards(tag, IMG_HEADER, terms, "c9env", "bad9e cases", shard=40)
        for idx, code in out:
            codes[where[idx]] = code
    for k, r in enumerate(res):
        if codes[k] >= 2 and pixel_blind(r) and not CELLPIX_IS_FAILURE:
            r["cell_size_only_code"], codes[k] = codes[k], 0
    return codes, errors, res


def img_shrink(c, tag="c09is"):
    """greedy: drop one operation / simplify one parameter at a time while check9i still says >= 2"""
    def variants(c):
        out = []
        for k in range(len(c["ops"])):
            out.append(dict(c, ops=c["ops"][:k] + c["ops"][k + 1:]))
        for key in ("spec", "fail", "dyn", "term0", "px"):
            if key in c:
                out.append({k: v for k, v in c.items() if k != key})
        if c["style"] != "block":
            out.append(dict({k: v for k, v in c.items() if k != "spec"}, style="block"))
        if c["cached"] is not True:
            out.append(dict(c, cached=True))
        if c.get("fmt") != "GIF":
            out.append(dict(c, fmt="GIF"))
        return out
    for _ in range(40):
        cands = variants(c)
        if not cands:
            break
        try:
            codes, errors, _ = img_evaluate(cands, tag)
        except Exception:  # noqa: BLE001 — a candidate the driver cannot set up: keep what we have
            break
        if errors:
            break
        nxt = next((v for v, code in zip(cands, codes) if code >= 2), None)
        if nxt is None:
            break
        c = nxt
    return c


def img_describe(c, r):
    runs = r.get("runs")
    if not runs:
        return "constructor outcomes " + json.dumps(r.get("ctor"))
    def show(run):
        out = []
        for row, exc, rq in zip(run["rows"], run["exc"], run["reqs"]):
            what = {0: f"frame#{row[1]}", 1: "StopIteration", 2: f"raises {exc}", 4: "ok", 5: "ValueError", 6: "not-started",
                    7: "closed", 8: "closed()", 9: "-"}[row[0]]
            out.append(what + ("" if not rq else " renders " + ",".join(f"{q[0]}@{q[1]}" + ("(source closed)" if q[2] else "") for q in rq)))
        return json.dumps(out)
    return "caching run " + show(runs["cached"]) + " / non-caching run " + show(runs["uncached"])


def run_image_pairs(ctx, cases, replaying=False):
    """Paired caching / non-caching ImageIterator runs, judged by model/ImgIterSrcTie.v [check9i]."""
    only = cases[0] if replaying else None
    try:
        codes, errors, res = img_evaluate(cases)
    except Exception as e:  # noqa: BLE001
        return {"summary": {}, "failures": [], "mismatches": [], "errors": [f"image iterator driver failed: {e}"[:800]]}
    failures, frames, pairs_ok = [], 0, 0
    # hypothesis [hash_separates] of C09_imgiter_cache_transparent, validated on the rendered sizes that
    # occurred (and, in the driver, on every size of a 400 x 200 box): distinct sizes have distinct hashes.
    # Colliding rendered sizes are not reachable: a size component is positive and far below 2**61 - 1,
    # where hash(int) is the identity (C09_py_int_hash_small_inj); -1 / -2 cannot be components at all.
    sizes = {}
    for r in res:
        for w, h, hv, *_ in r.get("sizes", []):
            sizes[(w, h)] = hv
    hash_ok = len(set(sizes.values())) == len(sizes) and all(r.get("hash_box_injective", True) for r in res)
    if not hash_ok:
        errors.append("hash(rendered_size) does not separate the rendered sizes that occur: the hypothesis of "
                      f"C09_imgiter_cache_transparent fails on {sorted(sizes)[:20]}")
    failing = sorted((k for k, code in enumerate(codes) if code >= 2), key=lambda k: len(cases[k]["ops"]))
    minimal = {}
    for j, k in enumerate(failing):
        m = img_shrink(cases[k]) if j < 2 and only is None and not errors else cases[k]
        minimal.setdefault(core.sig(m), m)
    if minimal:
        keys = list(minimal)
        c2, _, r2 = img_evaluate([minimal[s] for s in keys], "c09ir")
        for s, code, r in zip(keys, c2, r2):
            failures.append({"signature": s,
                             "what": "ImageIterator with and without caching differ (or the caching one renders what the "
                                     "other does not): " + json.dumps(minimal[s]) + " first difference at op "
                                     + str(r.get("first_diff")) + "; " + img_describe(minimal[s], r)[:1500],
                             "replay": {"image_case": minimal[s], "observed": r, "code": code}})
    mismatches = [{"image_case": cases[k], "code": code} for k, code in enumerate(codes) if code == 1]
    pix = [k for k, r in enumerate(res) if r.get("cell_size_only_code")]
    # distribution
    by_source, late, late_file, rer_late, closed_src = {}, 0, 0, 0, 0
    # ENVIRONMENT / KIND dimension: per change that comes after the first cache-served frame and changes the
    # rendered size with at least one frame yielded afterwards: which component / which kind transition
    env_hist = {}
    for c, r in zip(cases, res):
        frames += r["frames"]
        pairs_ok += bool(r["equal"])
        src = c.get("source", "pil") + "/" + c.get("fmt", "GIF")
        by_source[src] = by_source.get(src, 0) + 1
        runs = r.get("runs")
        if not runs:
            continue
        a = runs["cached"]
        closed_src += a["closed_src"] + runs["uncached"]["closed_src"]
        served0 = next((i for i, (row, rq) in enumerate(zip(a["rows"], a["reqs"])) if row[0] == 0 and not rq), None)
        if served0 is not None and a.get("settings"):
            prev_g, kind_changed = a["g0"], None
            for i, (o, row, g) in enumerate(zip(c["ops"], a["rows"], a["settings"])):
                later = any(x[0] == 0 for x in a["rows"][i + 1:])
                moved = i > 0 and row[5] != a["rows"][i - 1][5]
                if o[0] in ("size", "dsize"):
                    tr = {"F": "fixed", "D": "dynamic"}[prev_g[0]] + "->" + {"F": "fixed", "D": "dynamic"}[g[0]]
                    if i > served0 and later:
                        env_hist["setting " + tr] = env_hist.get("setting " + tr, 0) + 1
                        kind_changed = tr
                elif o[0] in ("term", "ratio", "cell") and i > served0 and later and moved:
                    key = o[0] + " alone, " + ("dynamic" if g[0] == "D" else "fixed") + " setting"
                    env_hist[key] = env_hist.get(key, 0) + 1
                    if kind_changed:
                        key = "setting " + kind_changed + " then " + o[0]
                        env_hist[key] = env_hist.get(key, 0) + 1
                prev_g = g
        # a re-render in a cached loop = a request of the caching run after the operation at which it
        # first yielded without rendering (served from the cache)
        served = next((i for i, (row, rq) in enumerate(zip(a["rows"], a["reqs"])) if row[0] == 0 and not rq), None)
        if served is not None:
            n_rer = sum(1 for rq in a["reqs"][served + 1:] for q in rq if q[0] < a["n"])
            rer_late += n_rer
            first_size = next((i for i, o in enumerate(c["ops"]) if o[0] in ("size", "term", "dsize", "ratio", "cell") and i > 0
                               and a["rows"][i][5] != a["rows"][i - 1][5]), None)
            if n_rer and first_size is not None and first_size > served:
                late += 1
                late_file += c.get("source", "pil") in ("file", "url")
    return {"summary": {"pairs": len(cases), "pairs_equal": pairs_ok, "frames_compared": frames,
                        "by_source_kind_and_format": dict(sorted(by_source.items())),
                        "re_renders_in_cached_loops": rer_late,
                        "pairs_whose_first_size_change_comes_after_the_first_cache_served_frame_and_forces_a_re_render": late,
                        "...of_which_file_or_url_sourced": late_file,
                        "render_requests_that_found_their_source_closed": closed_src,
                        "pairs_ending_in_a_render_failure": sum(1 for r in res if r.get("runs") and any(row[0] == 2 for row in r["runs"]["uncached"]["rows"])),
                        "environment_and_setting_kind_changes_in_cached_loops_that_move_the_rendered_size": dict(sorted(env_hist.items())),
                        "pairs_in_which_the_cell_size_changed_under_an_unchanged_rendered_size_(graphics_styles)": sum(1 for r in res if pixel_blind(r)),
                        "...of_which_the_two_runs_differ_(KNOWN_FINDING_cell_size_only_change,_not_reported)": len(pix),
                        "...example": json.dumps(cases[min(pix, key=lambda k: len(cases[k]["ops"]))]) if pix else None,
                        "distinct_rendered_sizes_seen": len(sizes), "size_hash_separates_them": hash_ok},
            "failures": failures, "mismatches": mismatches, "errors": errors}
