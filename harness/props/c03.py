"""C03 — graphics renders transmit exactly the image, in well-formed protocol framing.

Correspondence: generated render cases (kitty LINES/WHOLE, iterm2 LINES/WHOLE/ANIM, and
Transmission.get_chunks driven directly) run on the real classes (impl/impl_c03.py, which
DECODES the real output: escape sequences, control keys, base64, zlib, PNG/JPEG through
Pillow, and compares pixels with Pillow's own conversion + BOX resize of a fresh copy of
the source) and on model/KittyChunks.v inside Coq (model/KittyChunksTie.v: [check_*]
compares the observed token list with the model's AND with the specification written
from the property text, which is the property oracle).  Only lengths, flags and keys go
to Coq — never payload bytes.

Round 4 — two more dimensions of the property's quantifier are generated, modelled
(model/GfxPlan.v) and judged:
 * the render method as TWO independent inputs: the method set with set_render_method()
   (instance or class level, any letter case) and the per-render override (+L/+W/+A of a
   format specifier, method= of the renderer entry), every pair x up-/down-scaled x
   source heights not divisible by the number of lines;
 * the terminal environment CHANGING DURING ONE RENDER: the image modules' get_cell_size /
   get_terminal_size / get_cell_ratio answer the old environment to the first n reads and
   the new one afterwards, for EVERY n up to the number of reads of that render
   (fixed and dynamic sizes, kitty and iterm2, LINES and WHOLE).  The specification never
   looks at the cell size: every output must be self-consistent (s x v x bytes-per-pixel,
   strip count, strips stitching to the pixels Pillow gives at the transmitted
   resolution); the model side replays the render plan on the recorded answers and
   demands the plan's number of reads (geometry from a single read).

Round 4 (b) — two more:
 * WHICH FRAME: histories over animated sources (PIL-sourced: ONE PIL object shared by the
   instance, its renders, its iterators and its owner; file-sourced: re-opened per render) made
   of image.seek(n), pil.seek(k) by the owner, ImageIterators closed early or exhausted, iterm2
   native-animation renders (Pillow's save(save_all) moves the object), the PIL image on any
   frame when it is wrapped, and renders through str / format / _renderer for kitty LINES /
   WHOLE and iterm2 LINES / WHOLE.  Every render of a history is judged: expected pixels =
   frame image.tell() (read just before the render) of a fresh copy of the source at the
   transmitted resolution (model/GfxFrames.v: [frames_ok_spec]; model side: the code's render
   after that history, [frames_ok_model]).
 * PAYLOAD SIZE and the payload as ONE base64 text: iterm2 WHOLE read-from-file of PNG files of
   EXACTLY 2^16, 3*2^18, 2^20, 2^21 ... -1/+0/+1 bytes, native animation of APNG files of such
   sizes and of a ~1.9 MB GIF, re-encoded PNGs above 1 and 2 MiB (incompressible noise), kitty
   WHOLE transmissions above 1 MiB (hundreds of chunks).  Only lengths go to Coq (as Z): the
   length of the text, the number of characters from the first '=' to the end, and whether it is
   [alphabet]*=* — judged by [shape_wf] / [shape_declen] (length % 4 = 0, padding only at the
   very end, decoded length = size=)."""
from __future__ import annotations

import json

import core

LEVEL = "proof"
EXTRA_TARGETS = ["model/KittyChunksTie.vo"]

HEADER = ("From Coq Require Import String.\nFrom Coq Require Import List ZArith Bool.\nImport ListNotations.\n"
          "From TI Require Import gen.Consts model.KittyChunks model.GfxFrames model.KittyChunksTie.\n"
          "Local Open Scope string_scope.\nLocal Open Scope nat_scope.\n")
METHOD = {"lines": "Lines", "whole": "Whole", "anim": "Anim"}


def set_over(c):
    """(method set on the image/class or None, per-render override or None), lower case —
    the same derivation as impl_c03.set_over."""
    if "override" in c or "set_method" in c:
        sm = c.get("set_method")
        return (sm.lower() if sm else None), c.get("override")
    if c.get("via", "format") in ("setmethod", "str"):
        return c["method"], None
    return None, c["method"]


def effective(setm, over):
    """the documented effective method (only used to label cases; the judgement is Coq's)"""
    return over or setm or "lines"


def mopt(m):
    return f"(Some {METHOD[m]})" if m else "None"
Z = core.z
INT32_MAX = 2**31 - 1

# ------------------------------------------------------------------ generators


def factor3(T, rng, max_ch=40, max_rw=40):
    """T = rw * cw * ch with 1 <= ch <= 40, 1 <= rw <= 40 (cw unconstrained)."""
    opts = []
    for ch in range(1, max_ch + 1):
        if T % ch:
            continue
        for rw in range(1, max_rw + 1):
            if (T // ch) % rw == 0:
                opts.append((rw, T // ch // rw, ch))
    return rng.choice(opts)


def factor2(T, rng):
    opts = [(a, T // a) for a in range(1, int(T**0.5) + 1) if T % a == 0]
    a, b = rng.choice(opts)
    return (a, b) if rng.random() < 0.5 else (b, a)


def alpha_code(alpha):
    return 0 if alpha is None else (1 if isinstance(alpha, list) else 2)


def rand_alpha(rng):
    return rng.choice([None, [0.5], [0.0], [0.9], "#", "#ffffff", "#1a2b3c"])


def rand_z(rng):
    return rng.choice([0, 0, 1, -1, 5, -7, INT32_MAX, -INT32_MAX, -(2**30) - 1, 1234567])


def new_src(rng, mode, w, h, fmt=None, frames=1, style=None):
    return {"kind": "new", "mode": mode, "w": w, "h": h, "seed": rng.randrange(1 << 30), "fmt": fmt,
            "frames": frames, "style": rng.choice([0, 1, 2, 3, 4, 4]) if style is None else style}


FILE_FMTS = {"RGB": ["PNG", "JPEG", "WEBP"], "RGBA": ["PNG", "WEBP"], "L": ["PNG", "JPEG"], "LA": ["PNG"],
             "P": ["PNG", "GIF"], "1": ["PNG"], "CMYK": ["JPEG"]}
MODES_PIL = ["RGB", "RGBA", "L", "LA", "P", "1", "CMYK", "HSV"]


def rand_source(rng, w, h, want_file=None):
    """(src, source-kind)"""
    kind = want_file or rng.choice(["pil", "pil", "file", "file", "pil_file"])
    if kind == "pil" and rng.random() < 0.7:
        return new_src(rng, rng.choice(MODES_PIL), w, h), "pil"
    mode = rng.choice(list(FILE_FMTS))
    return new_src(rng, mode, w, h, fmt=rng.choice(FILE_FMTS[mode])), kind


def kitty_boundary_case(rng, method, bpp, P):
    """compress 0, pixel count per transmission = P (base64 length 4*ceil(P*bpp/3))."""
    mode, alpha = ("RGB", None) if bpp == 3 else ("RGBA", [0.5])
    c = {"style": "kitty", "method": method, "z": rand_z(rng), "mix": rng.random() < 0.3, "blend": True,
         "compress": 0, "alpha": alpha, "via": "format", "term": rng.choice(["kitty", "konsole"])}
    if method == "lines":
        rw, cw, ch = factor3(P, rng)
        rh = rng.choice([1, 1, 2, 3])
        c.update(size=[rw, rh], cell=[cw, ch])
        c["src"], c["source"] = new_src(rng, mode, rng.randint(1, 9), rng.randint(1, 9)), "pil"
    else:
        ow, oh = factor2(P, rng)
        # render area >= original area so that the original resolution is transmitted
        rw, rh = rng.randint(1, 4), rng.randint(1, 3)
        cw = -(-ow // rw) + rng.randint(0, 2)
        ch = -(-oh // rh) + rng.randint(0, 2)
        c.update(size=[rw, rh], cell=[cw, ch])
        fmt = rng.choice([None, "PNG"])
        c["src"] = new_src(rng, mode, ow, oh, fmt=fmt)
        c["source"] = "pil" if fmt is None else rng.choice(["file", "pil_file"])
    if rng.random() < 0.25:
        c.update(via="renderer", blend=rng.random() < 0.5)
    return c


def kitty_random_case(rng):
    method = rng.choice(["lines", "whole"])
    rw, rh = rng.randint(1, 10), rng.randint(1, 6)
    cw, ch = rng.randint(1, 14), rng.randint(1, 40)
    r = rng.random()
    if r < 0.2:  # original area around the render area (the WHOLE decision boundary)
        area = rw * cw * rh * ch + rng.choice([-1, 0, 0, 1])
        ow, oh = factor2(max(area, 1), rng)
        if ow > 3000 or oh > 3000:
            ow, oh = rng.randint(1, 40), rng.randint(1, 40)
    else:
        ow, oh = rng.randint(1, 48), rng.randint(1, 48)
    src, kind = rand_source(rng, ow, oh)
    c = {"style": "kitty", "method": method, "size": [rw, rh], "cell": [cw, ch], "src": src, "source": kind,
         "alpha": rand_alpha(rng), "z": rand_z(rng), "mix": rng.random() < 0.4, "blend": True,
         "compress": rng.randint(0, 9), "via": rng.choice(["format", "format", "setmethod"]),
         "term": rng.choice(["kitty", "konsole"]), "bg": rng.choice([(0, 0, 0), (200, 30, 90), False])}
    if rng.random() < 0.25:
        c.update(via="renderer", blend=rng.random() < 0.5)
    elif rng.random() < 0.1:
        c.update(via="str", alpha=[40 / 255], z=0, mix=False, compress=4)
    rand_set_over(rng, c, ["lines", "whole"])
    rand_envchg(rng, c)
    if rng.random() < 0.08:
        c["size"] = rng.choice(["FIT", "ORIGINAL", "AUTO", "FIT_TO_WIDTH"])
        c["cell"] = [rng.randint(4, 12), rng.randint(8, 24)]
        if src.get("kind") == "new" and (src["h"] > 4 * src["w"] or src["w"] > 400 or src["h"] > 400):
            # an automatic size keeps the aspect ratio: a 1 x 2221 source fitted to the terminal's
            # width is tens of thousands of lines (a 50 MB case term) — keep the source moderate
            src["w"], src["h"] = rng.randint(4, 48), rng.randint(4, 48)
    return c


def anim_src(rng):
    r = rng.random()
    if r < 0.25:
        return {"kind": "fixture", "name": "lion.gif"}
    if r < 0.3:
        return {"kind": "fixture", "name": "anim.webp"}
    if r < 0.7:
        return new_src(rng, "P", rng.randint(2, 30), rng.randint(2, 30), fmt="GIF", frames=rng.randint(2, 5), style=0)
    return new_src(rng, rng.choice(["RGB", "RGBA"]), rng.randint(2, 30), rng.randint(2, 30), fmt="WEBP",
                   frames=rng.randint(2, 4), style=0)


def kitty_anim_case(rng):
    c = kitty_random_case(rng)
    c["src"], c["source"] = anim_src(rng), rng.choice(["file", "pil_file", "pil"])
    c["seek"] = rng.randint(0, 7)
    if isinstance(c["size"], str):
        c["size"] = [rng.randint(1, 6), rng.randint(1, 4)]
    return c


def iterm2_case(rng, animated=False):
    method = rng.choice(["lines", "whole", "whole", "anim"])
    rw, rh = rng.randint(1, 8), rng.randint(1, 5)
    cw, ch = rng.randint(1, 12), rng.randint(1, 40)
    r = rng.random()
    if r < 0.45:  # the read-from-file decision boundary: original area <= render area
        area = rw * cw * rh * ch + rng.choice([-1, 0, 0, 1, 1])
        ow, oh = factor2(max(area, 1), rng)
        if ow > 2000 or oh > 2000:
            ow, oh = rng.randint(1, 30), rng.randint(1, 30)
    elif r < 0.7:
        ow, oh = rng.randint(1, max(1, rw * cw)), rng.randint(1, max(1, rh * ch))  # smaller than the render
    else:
        ow, oh = rng.randint(1, 60), rng.randint(1, 60)
    c = {"style": "iterm2", "method": method, "size": [rw, rh], "cell": [cw, ch],
         "alpha": rand_alpha(rng), "mix": rng.random() < 0.4, "compress": rng.randint(0, 9),
         "jq": rng.choice([None, None, -1, -5, 0, 50, 95]), "rff": rng.choice([None, None, True, False]),
         "term": rng.choice(["iterm2", "wezterm", "konsole"]), "via": rng.choice(["format", "format", "setmethod"]),
         "bg": rng.choice([(0, 0, 0), (200, 30, 90), False]), "z": 0, "blend": True}
    if animated:
        c["src"], c["source"] = anim_src(rng), rng.choice(["file", "pil_file", "pil"])
        c["seek"] = rng.randint(0, 7)
        if c["src"].get("name") == "anim.webp" and method == "anim":
            c["method"] = "whole"  # 800 kB native payload: kept for the thorough tier corpus only
    else:
        c["src"], c["source"] = rand_source(rng, ow, oh, want_file=rng.choice([None, "file", "pil_file"]))
    if rng.random() < 0.1:
        c.update(via="str", alpha=[40 / 255], mix=False, compress=4)
    if c["src"].get("name") != "anim.webp":  # (800 kB native payload: see above)
        rand_set_over(rng, c, ["lines", "whole", "anim"])
    rand_envchg(rng, c)
    return c


def spell(rng, m):
    """set_render_method() accepts any letter case"""
    return m if m is None else rng.choice([m, m, m.upper(), m.capitalize()])


def rand_set_over(rng, c, methods):
    """half of the random cases: the set method and the override chosen INDEPENDENTLY"""
    if rng.random() < 0.5:
        return
    setm = rng.choice([None] + methods)
    over = None if c.get("via") == "str" else rng.choice([None] + methods)
    c.update(set_method=spell(rng, setm), set_level=rng.choice(["instance", "instance", "class"]), override=over,
             method=effective(setm, over))
    if c.get("via") == "setmethod":
        c["via"] = "format"


def rand_envchg(rng, c, p=0.2):
    """some random cases: the environment changes after the n-th read of the render"""
    if rng.random() < p and not isinstance(c["size"], str):
        cw, ch = c["cell"]
        c["envchg"] = {"at": rng.randint(1, 3), "cell": [max(1, cw + rng.randint(-3, 3)), max(1, ch + rng.choice([-7, -2, -1, 1, 2, 9]))],
                       "term": [rng.randint(20, 100), rng.randint(8, 40)], "ratio": rng.choice([0.4, 0.5, 1.0])}


def gfx(style, rng, **kw):
    c = {"style": style, "alpha": None, "z": 0, "mix": False, "blend": True, "compress": rng.choice([0, 4]),
         "via": "format", "term": {"kitty": "kitty", "iterm2": "iterm2"}[style], "jq": None, "rff": None}
    c.update(kw)
    return c


def method_pair_cases(rng):
    """(set method, per-render override) as independent choices x (up-scaled / down-scaled) x source
    heights that are not a multiple of the number of lines (and one smaller than it)."""
    cs = []
    for style, methods in (("kitty", [None, "lines", "whole"]), ("iterm2", [None, "lines", "whole", "anim"])):
        for setm in methods:
            for over in methods:
                for scale in ("up", "down", "tiny"):
                    rh = rng.randint(2, 5)
                    rw = rng.randint(1, 4)
                    cw, ch = rng.randint(3, 12), rng.randint(5, 24)
                    if scale == "up":      # render area >= source area: WHOLE transmits the source resolution
                        ow = rng.randint(1, rw * cw)
                        oh = rng.choice([h for h in range(rh + 1, rh * ch + 1) if h % rh] or [rh + 1])
                    elif scale == "tiny":  # fewer source rows than lines
                        ow, oh = rng.randint(1, rw * cw), rng.randint(1, rh - 1)
                    else:                  # source larger than the render
                        ow = rw * cw + rng.randint(1, 20)
                        oh = rng.choice([h for h in range(rh * ch + 1, rh * ch + 30) if h % rh])
                    mode = rng.choice(["RGB", "RGBA"])
                    via = rng.choice(["format", "format", "renderer"]) if over else rng.choice(["format", "renderer", "str"])
                    c = gfx(style, rng, method=effective(setm, over), set_method=spell(rng, setm),
                            set_level=rng.choice(["instance", "instance", "class"]), override=over,
                            size=[rw, rh], cell=[cw, ch], via=via,
                            src=new_src(rng, mode, ow, oh, style=rng.choice([0, 1, 4])), source="pil",
                            alpha=[0.5] if mode == "RGBA" and via != "str" else None)
                    if via == "str":
                        c.update(alpha=[40 / 255], compress=4)
                    cs.append(c)
    return cs


def env_change_cases(rng, quick):
    """The environment changes DURING one render, at every position ("at": "each" = after the
    n-th read, for every n up to the number of reads of that render): cell size smaller / larger /
    narrower, together with another terminal size and cell ratio.  Fixed sizes and dynamic sizes
    (re-computed by _renderer at the start of the render: more reads), kitty and iterm2, LINES and
    WHOLE; for iterm2 WHOLE a readable file at the read-from-file boundary (the gate reads the
    cell size once more)."""
    cs = []
    changes = [([10, 20], [8, 16]), ([8, 16], [10, 20]), ([9, 18], [9, 17]), ([7, 15], [11, 15])]
    for style in ("kitty", "iterm2"):
        for method in ("lines", "whole"):
            for k, (a, b) in enumerate(changes):
                for dynamic in (False, True):
                    if quick and dynamic and k >= 2:
                        continue
                    rw, rh = rng.randint(2, 5), rng.randint(2, 4)
                    setm, over = rng.choice([(method, None), (None, method), (rng.choice(["lines", "whole"]), method)])
                    c = gfx(style, rng, method=method, set_method=setm, override=over, cell=a,
                            size=rng.choice(["FIT", "AUTO", "FIT_TO_WIDTH", "ORIGINAL"]) if dynamic else [rw, rh],
                            via="renderer" if dynamic else rng.choice(["format", "renderer"]),
                            envchg={"at": "each", "cell": b, "term": rng.choice([[30, 12], [16, 8]]), "ratio": 0.4})
                    if dynamic:
                        c.update(dynamic=True, term_size=[24, 10])
                    if style == "iterm2" and method == "whole":
                        # area of the source between the render areas of the two environments
                        lo, hi = sorted((rw * a[0] * rh * a[1], rw * b[0] * rh * b[1]))
                        ow, oh = factor2(max(1, rng.randint(lo, hi)), rng) if not dynamic else (rng.randint(20, 60), rng.randint(20, 60))
                        c.update(src=new_src(rng, "RGB", ow, oh, fmt="PNG"), source="file", rff=True)
                    else:
                        mode = rng.choice(["RGB", "RGBA"])
                        c.update(src=new_src(rng, mode, rng.randint(20, 60), rng.randint(20, 90)), source="pil",
                                 alpha=[0.5] if mode == "RGBA" else None)
                    cs.append(c)
    return cs


# ---- histories over animated sources (which frame is transmitted)

HISTORIES = [
    # (pre, ops) — "render" entries are the judged renders
    (0, [["iter", 2], ["render"], ["seek", 0], ["render"]]),          # iterator closed early, back to frame 0
    (0, [["pilseek", 3], ["render"]]),                                 # the owner left the PIL image elsewhere
    (0, [["render"], ["seek", 2], ["render"], ["pilseek", 1], ["render"], ["seek", 0], ["render"],
         ["iter", 99], ["render"]]),                                   # ... and an exhausted iterator
    (2, [["render"], ["seek", 0], ["render"]]),                        # wrapped while on frame 2
    (0, [["native"], ["render"], ["seek", 0], ["render"]]),            # iterm2 native re-encoding moves it
    (0, [["seek", 3], ["render"], ["iter", 0], ["render"], ["pilseek", 2], ["render"]]),
]


def anim_new_src(rng):
    r = rng.random()
    # (no APNG here: Pillow 11.1 itself fails on seek(2); load(); seek(1) of an APNG —
    # "APNG contains frame sequence errors" — so a backward seek is not available to anyone)
    if r < 0.6:
        return new_src(rng, "P", rng.randint(4, 14), rng.randint(4, 14), fmt="GIF", frames=rng.randint(4, 6), style=0)
    return new_src(rng, rng.choice(["RGB", "RGBA"]), rng.randint(4, 14), rng.randint(4, 14), fmt="WEBP",
                   frames=rng.randint(4, 5), style=0)


def hist_case(rng, style, method, source, pre, ops, via=None):
    via = via or rng.choice(["format", "format", "str", "renderer", "setmethod"])
    rw, rh = rng.randint(1, 4), rng.randint(1, 3)
    c = gfx(style, rng, method=method, size=[rw, rh], cell=[rng.randint(2, 8), rng.randint(2, 12)], via=via,
            src=anim_new_src(rng), source=source, pre=pre, ops=[list(o) for o in ops],
            term=rng.choice({"kitty": ["kitty", "konsole"], "iterm2": ["iterm2", "wezterm", "konsole"]}[style]))
    if via == "str":
        c.update(alpha=[40 / 255], compress=4, set_method=method, override=None)
    elif via == "setmethod":
        c.update(via="format", set_method=spell(rng, method), override=None)
    else:
        c.update(set_method=rng.choice([None, "lines", "whole"]), override=method)
        if c["src"]["mode"] == "RGBA":
            c["alpha"] = rng.choice([None, [0.5], "#"])
    return c


def rand_history(rng, style, nf=6):
    ops = []
    for _ in range(rng.randint(2, 7)):
        r = rng.random()
        if r < 0.3:
            ops.append(["seek", rng.choice([0, 0, rng.randrange(nf)])])
        elif r < 0.5:
            ops.append(["pilseek", rng.randrange(nf)])
        elif r < 0.65:
            ops.append(["iter", rng.choice([0, 1, 2, rng.randrange(nf), 99])])
        elif r < 0.72 and style == "iterm2":
            ops.append(["native"])
        else:
            ops.append(["render"])
    return rng.choice([0, 0, 0, rng.randrange(nf)]), ops + [["render"]]


def hist_cases(rng, quick):
    """Every committed history x kitty LINES/WHOLE, iterm2 LINES/WHOLE (PIL-sourced, with and
    without a file behind the PIL image), each also once file-sourced; then random histories."""
    cs = []
    combos = [("kitty", "lines"), ("kitty", "whole"), ("iterm2", "lines"), ("iterm2", "whole")]
    for k, (pre, ops) in enumerate(HISTORIES):
        for j, (style, method) in enumerate(combos):
            if ["native"] in ops and style != "iterm2":
                continue
            source = "pil" if ["native"] in ops else ["pil_file", "pil"][(k + j) % 2]
            cs.append(hist_case(rng, style, method, source, pre, ops,
                                via=["format", "str", "renderer", "setmethod"][(k + j) % 4]))
        style, method = combos[k % 4]
        if ["native"] not in ops:
            cs.append(hist_case(rng, style, method, "file", 0, ops))
    for _ in range(24 if quick else 700):
        style, method = rng.choice(combos)
        pre, ops = rand_history(rng, style)
        cs.append(hist_case(rng, style, method, rng.choice(["pil_file", "pil_file", "pil", "file"]), pre, ops))
    return cs


# ---- payload size (the payload of one command as ONE base64 text, whatever its size)

K16, K18x3, K20, K21 = 1 << 16, 3 << 18, 1 << 20, 1 << 21


def large_cases(rng, quick):
    cs = []

    def it2(**kw):
        c = gfx("iterm2", rng, size=[3, 2], cell=[5, 7], term=rng.choice(["iterm2", "wezterm", "konsole"]))
        c.update(kw)
        return c

    # iterm2 WHOLE, read-from-file: PNG files of EXACTLY N bytes around powers of two / 3 * 2^18
    sizes = [K16 - 1, K16, K16 + 1, K18x3 - 1, K18x3, K18x3 + 1, K20 - 1, K20, K20 + 1, K21 + 5]
    if not quick:
        sizes += [(1 << 17) + 1, (1 << 18) - 1, (1 << 18) + 2, (1 << 19) - 1, (1 << 19) + 1, (3 << 19) + 1, K21 - 1, K21,
                  K21 + 1, (3 << 20) + 2, (1 << 22) + 3] + [rng.randint(K16, 3 * K20) for _ in range(6)]
    for n in sizes:
        src = new_src(rng, rng.choice(["RGB", "L"]), rng.randint(2, 6), rng.randint(2, 4), fmt="PNG", style=0)
        src["file_size"] = n
        cs.append(it2(method="whole", src=src, source=rng.choice(["file", "file", "pil_file"]), rff=True))
    # iterm2 native animation of an APNG file of exactly N bytes, and of a ~1.9 MB GIF of noise
    for n in [K20 - 1, K20, K20 + 1] + ([] if quick else [K16 + 1, K18x3 + 1, K21 + 7]):
        src = new_src(rng, "RGB", 6, 4, fmt="PNG", frames=3, style=0)
        src["file_size"] = n
        cs.append(it2(method="anim", src=src, source=rng.choice(["file", "pil_file"])))
    gif = new_src(rng, "L", 420, 420, fmt="GIF", frames=8, style=0)
    cs.append(it2(method="anim", src=gif, source="file", size=[10, 5]))
    if not quick:
        cs.append(it2(method="anim", src=dict(gif), source="pil", size=[10, 5]))     # re-encoded by Pillow
        cs.append(it2(method="anim", src=dict(gif), source="pil_file", size=[10, 5]))
    # iterm2 WHOLE / LINES re-encoded: PNGs of incompressible noise above 1 and 2 MiB
    big = [("RGB", 600, 590, [8, 5], [75, 118], "whole"), ("RGB", 840, 840, [7, 4], [120, 210], "whole"),
           ("RGB", 600, 590, [8, 1], [75, 590], "lines")]
    if not quick:
        big += [("RGBA", 520, 520, [4, 4], [130, 130], "whole"), ("RGB", 600, 1180, [8, 2], [75, 590], "lines"),
                ("RGB", 700, 500, [7, 5], [100, 100], "whole")]
    for mode, w, h, size, cell, method in big:
        cs.append(it2(method=method, src=new_src(rng, mode, w, h, style=0), source="pil", size=size, cell=cell,
                      alpha=[0.5] if mode == "RGBA" else None, compress=rng.choice([0, 1, 4])))
    # kitty WHOLE (and LINES with one-line strips) above 1 MiB: hundreds of chunks
    kbig = [("RGB", 600, 590, [8, 5], [75, 118], "whole", 0)]
    if not quick:
        kbig += [("RGBA", 520, 520, [4, 4], [130, 130], "whole", 3), ("RGB", 600, 590, [8, 1], [75, 590], "lines", 0),
                 ("RGB", 840, 840, [7, 4], [120, 210], "whole", 1)]
    for mode, w, h, size, cell, method, level in kbig:
        cs.append(gfx("kitty", rng, method=method, src=new_src(rng, mode, w, h, style=0), source="pil", size=size, cell=cell,
                      alpha=[0.5] if mode == "RGBA" else None, compress=level))
    for c in cs:
        c["large"] = True
    return cs


# ---- concurrent renders of one instance

CONC_KEYS = ("alpha", "compress", "override", "method", "mix", "z", "via", "blend")


def conc_threads(base, *overrides):
    """per-thread render arguments, each COMPLETE for the keys that may differ"""
    return [{k: {**base, **o}.get(k) for k in CONC_KEYS if k in {**base, **o}} for o in overrides]


def conc_cases(rng, quick):
    cs = []

    def add(c, sched, *overrides):
        c = dict(c)
        c.pop("envchg", None)
        c["conc"] = {"threads": conc_threads(c, *(overrides or ({}, {}))), "sched": sched}
        cs.append(c)

    def noise(mode, w, h, fmt=None):
        return new_src(rng, mode, w, h, fmt=fmt, style=0)

    it = dict(method="lines", set_method=None, override="lines")
    # iterm2 LINES (PNG per line), every gate event of a 3-line render; PIL- and file-sourced
    add(gfx("iterm2", rng, **it, size=[4, 3], cell=[4, 4], src=noise("RGB", 16, 12), source="pil"), "each")
    add(gfx("iterm2", rng, **it, size=[3, 2], cell=[5, 3], src=noise("RGBA", 9, 7, "PNG"), source="file", alpha=[0.5],
            term="konsole"), "each")
    # ... the two renders with different arguments (transparency off / background colour, compression)
    two = gfx("iterm2", rng, **it, size=[3, 3], cell=[4, 5], src=noise("RGBA", 12, 15), source="pil", alpha=None, term="wezterm")
    pairs = [[k, j] for k in range(1, 21) for j in range(1, 21)]
    add(two, ["pairs", rng.sample(pairs, 10) if quick else pairs], {"alpha": None, "compress": 0}, {"alpha": "#ffffff", "compress": 9})
    # ... JPEG per line
    add(gfx("iterm2", rng, **it, size=[4, 2], cell=[4, 6], src=noise("RGB", 16, 12), source="pil", jq=60), "each")
    # ... one thread LINES, the other WHOLE
    add(gfx("iterm2", rng, **it, size=[4, 2], cell=[4, 4], src=noise("RGB", 20, 10), source="pil"), "each",
        {"override": "lines", "method": "lines"}, {"override": "whole", "method": "whole"})
    # iterm2 WHOLE, kitty LINES / WHOLE
    add(gfx("iterm2", rng, method="whole", set_method=None, override="whole", size=[4, 2], cell=[4, 4], src=noise("RGB", 20, 10),
            source="pil"), "each")
    add(gfx("kitty", rng, method="lines", set_method=None, override="lines", size=[4, 3], cell=[4, 4], src=noise("RGBA", 16, 12),
            source="pil", alpha=[0.5], compress=4), "each", {"alpha": [0.5], "compress": 4}, {"alpha": None, "compress": 0})
    add(gfx("kitty", rng, method="whole", set_method=None, override="whole", size=[4, 3], cell=[4, 4], src=noise("RGB", 9, 9, "PNG"),
            source="file"), "each")
    # all pairs of park points of two 2-line iterm2 LINES renders
    small = gfx("iterm2", rng, **it, size=[3, 2], cell=[3, 3], src=noise("RGB", 9, 6), source="pil")
    pairs = [[k, j] for k in range(1, 15) for j in range(1, 15)]
    add(small, ["pairs", rng.sample(pairs, 12) if quick else pairs])
    if not quick:
        for _ in range(12):
            style = rng.choice(["iterm2", "iterm2", "kitty"])
            m = rng.choice(["lines", "lines", "whole"])
            mode = rng.choice(["RGB", "RGBA"])
            rh = rng.randint(1, 4)
            c = gfx(style, rng, method=m, set_method=None, override=m, size=[rng.randint(1, 5), rh], cell=[rng.randint(2, 6), rng.randint(2, 8)],
                    src=noise(mode, rng.randint(4, 24), rng.randint(4, 24), rng.choice([None, "PNG"])), alpha=rng.choice([None, [0.5], "#"]))
            c["source"] = "pil" if c["src"]["fmt"] is None else rng.choice(["file", "pil_file"])
            add(c, "each", {}, {"alpha": rng.choice([None, [0.5], "#102030"]), "compress": rng.randint(0, 9)})
    return cs


def spread(cases, extra):
    """`extra` inserted at evenly spaced positions (the implementation runs contiguous slices of
    the case list in parallel processes: the expensive cases should not share one)"""
    out = list(cases)
    step = max(1, len(out) // (len(extra) + 1))
    for k, c in enumerate(extra):
        out.insert(min(len(out), (k + 1) * step + k), c)
    return out


def unit_cases(rng, quick):
    """Transmission.get_chunks: payload lengths whose base64 length sweeps every multiple
    of the chunk size (k = 0..3) by -4, 0, +4, plus arbitrary chunk sizes."""
    cs = []
    for k in range(0, 4):
        base = k * 3072
        for d in range(-4, 5):
            if base + d >= 0:
                cs.append({"unit": True, "len": base + d, "level": 0, "csize": None, "seed": 1})
    for size in (1, 2, 3, 4, 5, 7, 8, 12, 100):
        for ln in (0, 1, 2, 3, size, 3 * size // 4, 3 * size // 4 + 1, 3 * size, 6 * size // 4 + 2):
            cs.append({"unit": True, "len": ln, "level": 0, "csize": size, "seed": 2})
    for size in (4095, 4096, 4097):
        for ln in (3070, 3072, 3073, 6144, 6147):
            cs.append({"unit": True, "len": ln, "level": 0, "csize": size, "seed": 3})
    for _ in range(20 if quick else 300):
        cs.append({"unit": True, "len": rng.choice([0, 1, 50, 3000, 5000, 9000, rng.randint(0, 20000)]),
                   "level": rng.randint(0, 9), "csize": rng.choice([None, None, 4096, 64, 1000, rng.randint(1, 5000)]),
                   "seed": rng.randrange(1 << 30), "noise": rng.random() < 0.7})
    return cs


def corpus(rng):
    cs = []
    # kitty: every boundary for both pixel formats and both methods
    for k in (1, 2, 3):
        for d in (-1, 0, 1):
            cs.append(kitty_boundary_case(rng, "lines", 3, k * 1024 + d))
            cs.append(kitty_boundary_case(rng, "whole", 3, k * 1024 + d))
            cs.append(kitty_boundary_case(rng, "lines", 4, k * 768 + d))
            cs.append(kitty_boundary_case(rng, "whole", 4, k * 768 + d))
    cs.append(kitty_boundary_case(rng, "lines", 3, 1))
    cs.append(kitty_boundary_case(rng, "whole", 3, 1))
    # cell heights 1..40 with LINES (strip arithmetic), 3 lines each
    for ch in range(1, 41):
        cs.append({"style": "kitty", "method": "lines", "size": [rng.randint(1, 5), 3], "cell": [rng.randint(1, 9), ch],
                   "src": new_src(rng, rng.choice(["RGB", "RGBA"]), 7, 11), "source": "pil", "alpha": [0.5],
                   "z": 0, "mix": False, "blend": True, "compress": ch % 10, "via": "format"})
    # LINES renders whose strips differ widely in compressibility (flat bands and noise bands at
    # the render resolution): per-strip compression / encoding state must not leak between strips
    for level in (1, 4, 9):
        for mode in ("RGB", "RGBA"):
            cs.append({"style": "kitty", "method": "lines", "size": [4, 4], "cell": [4, 4],
                       "src": new_src(rng, mode, 16, 16, style=4), "source": "pil", "alpha": [0.5] if mode == "RGBA" else None,
                       "z": 0, "mix": False, "blend": True, "compress": level, "via": "format"})
        cs.append({"style": "iterm2", "method": "lines", "size": [4, 4], "cell": [4, 4],
                   "src": new_src(rng, "RGB", 16, 16, style=4), "source": "pil", "alpha": None, "mix": False,
                   "compress": level, "jq": None, "rff": None, "term": "iterm2", "via": "format", "z": 0, "blend": True})
    # iterm2: every method x term, file source at the gate boundary
    for method in ("lines", "whole", "anim"):
        for term in ("iterm2", "wezterm", "konsole"):
            for d in (-1, 0, 1):
                ow, oh = factor2(3 * 5 * 2 * 7 + d, rng)
                cs.append({"style": "iterm2", "method": method, "size": [3, 2], "cell": [5, 7],
                           "src": new_src(rng, "RGB", ow, oh, fmt="PNG"), "source": "file", "alpha": [0.5],
                           "mix": False, "compress": 4, "jq": None, "rff": None, "term": term, "via": "format",
                           "z": 0, "blend": True})
    # native animation from a file and from a PIL image without a file
    for source in ("file", "pil_file", "pil"):
        cs.append({"style": "iterm2", "method": "anim", "size": [4, 2], "cell": [6, 12],
                   "src": new_src(rng, "P", 9, 6, fmt="GIF", frames=3, style=0), "source": source, "alpha": [0.5],
                   "mix": False, "compress": 4, "jq": None, "rff": None, "term": "iterm2", "via": "format",
                   "z": 0, "blend": True})
    return cs


# -------------------------------------------------------------- Coq encoding


def cstr(s):
    assert all(32 <= ord(ch) < 127 for ch in s), s
    return '"' + s.replace('"', '""') + '"'


def b(x):
    return "true" if x else "false"


def key_term(k):
    name, kind, v = k
    val = f"KInt {Z(v)}" if kind == "i" else (f"KChr {Z(v)}" if kind == "c" else "KChr (-1)%Z")
    return f"({cstr(name)}, {val})"


def item_term(it):
    if it[0] == "del":
        return "ODel"
    if it[0] == "nl":
        return "ONl"
    if it[0] == "fill":
        return "OFill"
    return f"OChunk {core.coq_list(it[1], key_term)} {it[2]} {Z(it[3])}"


def zlist(xs):
    return core.coq_list(xs, Z)


def reads_term(r):
    return core.coq_list(r["reads_in"], lambda p: f"({Z(p[0])}, {Z(p[1])})")


FOP = {"seek": "FSeek %d", "foreign": "FForeign %d", "iter": "FIter %d", "iterfull": "FIterFull", "render": "FRender"}


def fop_term(o):
    return FOP[o[0]] % tuple(o[1:]) if len(o) > 1 else FOP[o[0]]


def shape_term(b):
    return "{| b_len := %s; b_pad := %s; b_alpha := %s |}" % (Z(b[0]), Z(b[1]), "true" if b[2] else "false")


def frec_term(r):
    f = r["fr"]
    sent = f"(Some {f['sent']})" if f["sent"] >= 0 else "None"
    pilpos = f"(Some {f['pilpos']})" if f["pilpos"] >= 0 else "None"
    return ("{| f_pil := %s; f_init := %d; f_hist := %s; f_tell := %d; f_sent := %s; f_pilpos := %s |}" % (
        b(f["pil"]), f["init"], core.coq_list(f["hist"], lambda o: "(" + fop_term(o) + ")" if len(o) > 1 else fop_term(o)),
        f["tell"], sent, pilpos))


def kitty_term(c, r):
    setm, over = set_over(c)
    return ("{| kc_set := %s; kc_over := %s; kc_reads := %s; kc_other_reads := %d; kc_rw := %s; kc_rh := %s; kc_cw := %s; kc_ch := %s; kc_ow := %s; kc_oh := %s; "
            "kc_alpha := %d; kc_opaque := %s; kc_z := %s; kc_level := %d; kc_blend := %s; kc_items := %s; "
            "kc_rawlen := %s; kc_pix := %s; kc_lex := %s; kc_fill := %s; kc_keep := %s; kc_b64 := %s; kc_fr := %s |}" % (
                mopt(setm), mopt(over), reads_term(r), r["other_in"],
                Z(r["rsize"][0]), Z(r["rsize"][1]), Z(c["cell"][0]), Z(c["cell"][1]),
                Z(r["orig"][0]), Z(r["orig"][1]), alpha_code(c["alpha"]), b(r["mode_class"] == 0), Z(c["z"]),
                c["compress"], b(c["blend"]), core.coq_list(r["items"], item_term), zlist(r["rawlen"]),
                b(r["pix"]), b(r["lex_ok"]), b(r["fill_ok"]), b(r["size_kept"]),
                core.coq_list(r["b64"], shape_term), frec_term(r)))


def unit_term(c, r):
    return ("{| u_size := %s; u_default := %s; u_level := %d; u_len := %s; u_items := %s; u_rawok := %s; "
            "u_lex := %s; u_b64 := %s |}" % (Z(c["csize"] or 0), b(c["csize"] is None), c["level"], Z(c["len"]),
                                             core.coq_list(r["items"], item_term),
                                             b(r["raw_ok"] and r["joined_eq"] and r["n_yield"] == len(r["items"])),
                                             b(r["lex_ok"]), shape_term(r["b64"])))


def orec_term(o):
    return ("{| o_hdr := %s; o_keys := %s; o_declen := %s; o_kind := %d; o_w := %s; o_h := %s; o_rgba := %s; o_b64 := %s |}" % (
        cstr(o["hdr"]), zlist(o["keys"]), Z(o["declen"]), o["kind"], Z(o["w"]), Z(o["h"]), b(o["rgba"]), shape_term(o["b64"])))


def iterm2_term(c, r):
    jq = c.get("jq")
    rff = c.get("rff")
    setm, over = set_over(c)
    return ("{| ic_set := %s; ic_over := %s; ic_reads := %s; ic_other_reads := %d; ic_rw := %s; ic_rh := %s; ic_cw := %s; ic_ch := %s; ic_ow := %s; ic_oh := %s; "
            "ic_alpha := %d; ic_mode_class := %d; ic_animated := %s; ic_readable := %s; ic_rff := %s; ic_jq := %s; "
            "ic_konsole := %s; ic_oscs := %s; ic_untouched := %s; ic_pix := %s; ic_lex := %s; ic_nl := %d; "
            "ic_keep := %s; ic_fr := %s |}" % (
                mopt(setm), mopt(over), reads_term(r), r["other_in"],
                Z(r["rsize"][0]), Z(r["rsize"][1]), Z(c["cell"][0]), Z(c["cell"][1]),
                Z(r["orig"][0]), Z(r["orig"][1]), alpha_code(c["alpha"]), r["mode_class"], b(r["animated"]),
                b(r["readable"]), b(True if rff is None else rff), Z(-1 if jq is None else jq),
                b(c.get("term") == "konsole"), core.coq_list(r["oscs"], orec_term), b(r["untouched"]),
                b(r["pix"]), b(r["lex_ok"]), r["n_nl"], b(r["size_kept"]), frec_term(r)))


# ------------------------------------------------------------------ evaluate


OVERSIZE = []


def evaluate(cases, tag="c03"):
    """-> (codes per case (int), errors, impl results, cases).  A case the library refused
    to render (exception) or the driver could not handle gets code 2 / an error.  A case
    with an environment change at "each" position comes back as one case per position."""
    impl0 = core.run_impl_parallel("impl_c03.py", cases, timeout=600)
    cases0, cases, impl = cases, [], []
    for c, r in zip(cases0, impl0):
        if c.get("conc") and "driver_error" not in r:
            # concurrent renders: every (schedule, thread) is one judged case, carrying that thread's arguments
            runs = r["each"] if "each" in r else [[c["conc"]["sched"], r["threads"]]]
            for sch, rs in runs:
                for i, rr in enumerate(rs):
                    if c["conc"].get("judge") in (None, i):
                        cases.append({**c, **c["conc"]["threads"][i], "conc": {**c["conc"], "sched": sch, "judge": i}})
                        impl.append(rr)
        elif "each" in r:
            for at, rr in r["each"]:
                cases.append({**c, "envchg": {**c["envchg"], "at": at}})
                impl.append(rr)
        elif "renders" in r:
            # a history: every render of it is one judged case (= the history up to that render)
            for at, rr in r["renders"]:
                cases.append({**c, "ops": c["ops"][:at + 1], "last_only": True})
                impl.append(rr)
        else:
            cases.append(c)
            impl.append(r)
    codes = [0] * len(cases)
    errors = []
    groups = {"kcase": ([], [], "bad check_kitty cases"), "ucase": ([], [], "bad check_unit cases"),
              "icase": ([], [], "bad check_iterm2 cases")}
    for i, (c, r) in enumerate(zip(cases, impl)):
        if "driver_error" in r:
            errors.append(f"impl driver failed on case {i}: {r['driver_error'][-400:]}")
            continue
        if c.get("unit"):
            groups["ucase"][0].append(unit_term(c, r))
            groups["ucase"][1].append(i)
        elif r.get("raised"):
            codes[i] = 2  # a valid render request must not raise
        elif c["style"] == "kitty":
            groups["kcase"][0].append(kitty_term(c, r))
            groups["kcase"][1].append(i)
        else:
            groups["icase"][0].append(iterm2_term(c, r))
            groups["icase"][1].append(i)
    for typ, (terms, owner, expr) in groups.items():
        # resource guard: a case whose term exceeds 3 MB (a render of thousands of lines) is not
        # judged (reported in the evidence as skipped, never as an error or a failure)
        keep = [k for k, t in enumerate(terms) if len(t) <= 3_000_000]
        if len(keep) != len(terms):
            OVERSIZE.extend(owner[k] for k in range(len(terms)) if k not in set(keep))
            terms, owner = [terms[k] for k in keep], [owner[k] for k in keep]
        if not terms:
            continue
        bad, errs = core.coq_shards(f"{tag}{typ[0]}", HEADER, terms, typ, expr, shard=60)
        errors += errs
        for idx, code in bad:
            codes[owner[idx]] = code
    return codes, errors, impl, cases


def simpler(case):
    """Candidate simplifications, most drastic first."""
    out = []
    if case.get("unit"):
        for ln in sorted({0, case["len"] // 2, case["len"] - 1, case["len"] - 3}):
            if 0 <= ln < case["len"]:
                out.append({**case, "len": ln})
        if case["level"]:
            out.append({**case, "level": 0})
        if case.get("noise", True):
            out.append({**case, "noise": False})
        return out
    if case.get("conc"):
        conc = case["conc"]
        sch = conc["sched"]
        if isinstance(sch, list) and sch and isinstance(sch[0], list):
            for g in range(len(sch)):
                if sch[g][1] is not None and len(sch[g]) > 2 and sch[g][2] > 1:
                    for k in sorted({1, sch[g][2] // 2, sch[g][2] - 1}):
                        if k < sch[g][2]:
                            out.append({**case, "conc": {**conc, "sched": sch[:g] + [[sch[g][0], sch[g][1], k]] + sch[g + 1:]}})
            if len(sch) == 4 and sch[1][1] is not None:  # the second thread renders completely instead
                out.append({**case, "conc": {**conc, "sched": [sch[0], [1, None, 1], [0, None, 1]]}})
        if any(t != conc["threads"][0] for t in conc["threads"]):
            j = conc.get("judge") or 0
            out.append({**case, "conc": {**conc, "threads": [conc["threads"][j]] * len(conc["threads"])}})
        if not isinstance(case["size"], str) and case["size"][1] > 2:
            out.append({**case, "size": [case["size"][0], case["size"][1] - 1]})
        return out
    if case.get("ops"):
        ops = case["ops"]
        if len(ops) > 1:
            for k in range(len(ops) - 1):  # the last op is the failing render
                out.append({**case, "ops": ops[:k] + ops[k + 1:]})
        if case.get("pre"):
            out.append({**case, "pre": 0})
    if (case.get("src") or {}).get("file_size"):
        n = case["src"]["file_size"]
        for m in (n // 2, 3 * n // 4, n - 1):
            if 4096 <= m < n:
                out.append({**case, "src": {**case["src"], "file_size": m}})
    if case.get("envchg"):
        out.append({**case, "envchg": None})
        chg = case["envchg"]
        for k in ("term", "ratio"):
            if chg.get(k) is not None:
                out.append({**case, "envchg": {**chg, k: None}})
    if case.get("dynamic"):
        out.append({**case, "dynamic": False, "size": [3, 2]})
    if "set_method" in case or "override" in case:
        if case.get("set_level") == "class":
            out.append({**case, "set_level": "instance"})
        if case.get("set_method") and case["set_method"] != case["set_method"].lower():
            out.append({**case, "set_method": case["set_method"].lower()})
        if case.get("set_method") and case.get("override"):
            out.append({**case, "set_method": None})
    for k, v in (("via", "format"), ("blend", True), ("mix", False), ("z", 0), ("compress", 0), ("alpha", None),
                 ("jq", None), ("rff", None), ("bg", (0, 0, 0)), ("seek", 0)):
        if k in case and case[k] != v:
            out.append({**case, k: v})
    if not isinstance(case["size"], str):
        rw, rh = case["size"]
        if rh > 1:
            out.append({**case, "size": [rw, 1]})
            out.append({**case, "size": [rw, rh - 1]})
        if rw > 1:
            out.append({**case, "size": [1, rh]})
    cw, ch = case["cell"]
    if ch > 1:
        out.append({**case, "cell": [cw, max(1, ch // 2)]})
    if cw > 1:
        out.append({**case, "cell": [max(1, cw // 2), ch]})
    s = case["src"]
    if s["kind"] == "new":
        if s.get("style", 0) != 2:
            out.append({**case, "src": {**s, "style": 2}})
        if s["w"] > 1:
            out.append({**case, "src": {**s, "w": max(1, s["w"] // 2)}})
        if s["h"] > 1:
            out.append({**case, "src": {**s, "h": max(1, s["h"] // 2)}})
    return out


def shrink(case, rounds=12):
    cur = case
    for _ in range(rounds):
        if getattr(core, "over_budget", lambda: False)():
            break  # optional work: the failing input found so far is reported as it is
        cands = simpler(cur)
        if not cands:
            break
        codes, errors, _, cands = evaluate(cands, tag="c03s")
        nxt = next((c for c, k in zip(cands, codes) if k >= 2), None)
        if nxt is None or errors:
            break
        cur = nxt
    return cur


def describe(c):
    if c.get("unit"):
        return f"Transmission.get_chunks({'default' if c['csize'] is None else c['csize']}) payload={c['len']}B level={c['level']}"
    s = c["src"]
    src = s.get("name") or f"{s['mode']} {s['w']}x{s['h']} {s.get('fmt') or 'in-memory'}" + (f" x{s['frames']}f" if s.get("frames", 1) > 1 else "")
    if s.get("file_size"):
        src += f" file of exactly {s['file_size']} bytes"
    extra = f" z={c['z']} blend={int(c['blend'])}" if c["style"] == "kitty" else f" jq={c.get('jq')} rff={c.get('rff')}"
    setm, over = set_over(c)
    extra += f" set_render_method({c.get('set_method', setm)!r}{' on the class' if c.get('set_level') == 'class' else ''}) override={over!r}"
    if c.get("ops"):
        extra += (f" HISTORY (PIL image on frame {c.get('pre', 0)} when wrapped): "
                  + ", ".join(o[0] + (f"({o[1]})" if len(o) > 1 else "") for o in c["ops"]) + " <- this render")
    if c.get("conc"):
        cc = c["conc"]
        extra += (f" CONCURRENT renders of the one instance by {len(cc['threads'])} threads, schedule [thread, run until gate, n-th time] = "
                  f"{json.dumps(cc['sched'])}, per-thread arguments {json.dumps(cc['threads'])}; THIS is the output of thread {cc.get('judge')}")
    if c.get("envchg"):
        g = c["envchg"]
        if g.get("at") is None:
            extra += " (environment constant during the render; reads counted)"
        else:
            extra += (f" ENVIRONMENT CHANGES after read {g['at']} of the render: cell size -> {g.get('cell')}, "
                      f"terminal size -> {g.get('term')}, cell ratio -> {g.get('ratio')}")
    return (f"{c['style']}/{c.get('term', '-')}/{c['method']} src={src} via {c['source']} "
            f"cells={c['size']}{' (dynamic)' if c.get('dynamic') else ''} "
            f"cell={c['cell']} alpha={c['alpha']} c{c['compress']} mix={int(c['mix'])}{extra} via={c.get('via', 'format')}")


def signature(c):
    keep = {k: c.get(k) for k in ("unit", "len", "level", "csize", "style", "method", "size", "cell", "alpha",
                                   "compress", "source", "jq", "rff", "term", "via", "blend", "mix", "z", "seek",
                                   "set_method", "set_level", "override", "dynamic", "term_size", "ops", "pre")}
    if c.get("envchg"):
        keep["envchg"] = [c["envchg"].get(k) for k in ("at", "cell", "term", "ratio")]
    if c.get("conc"):
        keep["conc"] = [c["conc"].get("sched"), c["conc"].get("judge"), c["conc"].get("threads")]
    s = c.get("src") or {}
    keep["src"] = [s.get("kind"), s.get("name"), s.get("mode"), s.get("w"), s.get("h"), s.get("fmt"), s.get("frames")]
    if s.get("file_size"):
        keep["file_size"] = s["file_size"]
    return core.sig(keep)


def first_ill_formed(items):
    """First chunk that breaks the framing rules of the property text (None if none)."""
    chunks = [it for it in items if it[0] == "chunk"]
    for j, it in enumerate(chunks):
        last = j + 1 == len(chunks) or bool(chunks[j + 1][1])
        first = j == 0 or bool(it[1])
        if it[3] > 4096 or it[2] != (0 if last else 1) or (not last and it[3] % 4) or (not first and it[1]):
            return {"index": j, "keys": bool(it[1]), "m": it[2], "len": it[3], "last_of_transmission": last}
    return None


def nontrivial(c, r):
    if "driver_error" in r or r.get("raised"):
        return False
    if c.get("conc"):  # the other thread ran while this render was parked strictly inside
        j = c["conc"].get("judge")
        who = [int(x.split(":")[0]) for x in r.get("gate_log", [])]
        mine = [k for k, t in enumerate(who) if t == j]
        return bool(mine) and any(t != j for t in who[mine[0]:mine[-1]])
    if c.get("ops"):  # a history: the shared PIL object is NOT on frame tell when the render starts
        return r["fr"]["pilpos"] >= 0 and r["fr"]["pilpos"] != r["fr"]["tell"]
    if c.get("unit") or c["style"] == "kitty":
        chunks = [it for it in r.get("items", []) if it[0] == "chunk"]
        multi = any(it[2] == 1 for it in chunks)
        exact = any(it[3] > 0 and it[3] % 4096 == 0 for it in chunks)
        return multi or exact or (not c.get("unit") and r["rsize"][1] >= 2 and c["method"] == "lines")
    return len(r.get("oscs", [])) >= 2 or r.get("untouched") or c["method"] != "lines"


def run(ctx):
    rng = ctx.rng
    if ctx.replay:
        cases = [ctx.replay["replay"]["case"]]
    else:
        cases = unit_cases(rng, ctx.quick) + corpus(rng) + method_pair_cases(rng) + env_change_cases(rng, ctx.quick)
        if not ctx.quick:
            for _ in range(5):
                cases += method_pair_cases(rng) + env_change_cases(rng, False)
        nk, na, ni, nia = (70, 12, 90, 14) if ctx.quick else (1500, 150, 1500, 150)
        cases += [kitty_random_case(rng) for _ in range(nk)]
        cases += [kitty_anim_case(rng) for _ in range(na)]
        cases += [iterm2_case(rng) for _ in range(ni)]
        cases += [iterm2_case(rng, animated=True) for _ in range(nia)]
        cases += hist_cases(rng, ctx.quick)
        cases += conc_cases(rng, ctx.quick)
        cases = spread(cases, large_cases(rng, ctx.quick))
        if not ctx.quick:
            cases.append({"style": "iterm2", "method": "anim", "size": [4, 2], "cell": [6, 12],
                          "src": {"kind": "fixture", "name": "anim.webp"}, "source": "file", "alpha": [0.5],
                          "mix": False, "compress": 4, "jq": None, "rff": None, "term": "iterm2", "via": "format",
                          "z": 0, "blend": True})
    codes, errors, impl, cases = evaluate(cases)
    hist = {"oversize_cases_not_judged": len(OVERSIZE), "kind": {}, "method": {}, "source": {}, "alpha": {}, "compress": {}, "cell_height": {},
            "chunks_per_transmission": {}, "payload_b64_len_mod_4096": {"0": 0, "4": 0, "4092": 0, "other": 0},
            "src_mode": {}, "iterm2_untouched": 0, "iterm2_jpeg": 0, "raised": 0,
            "set_method_x_override": {}, "override_differs_from_set_method": 0,
            "environment_change_after_read": {}, "env_change_inside_render_image": 0,
            "cell_size_reads_inside_render_image": {}, "dynamic_size": 0,
            "history_renders": 0, "history_source": {}, "history_ops_before_render": {},
            "history_pil_object_off_the_current_frame": 0, "history_current_frame_0_pil_object_elsewhere": 0,
            "history_via": {}, "largest_single_payload_bytes_log2": {}, "payload_at_power_of_two_boundary": 0,
            "concurrent": {"judged_outputs": 0, "style/method": {}, "parked_inside_while_other_thread_ran": 0,
                           "threads_with_different_arguments": 0, "thread0_parked_after_gate": {},
                           "both_threads_parked_inside": 0}}

    def inc(d, k):
        d[str(k)] = d.get(str(k), 0) + 1

    distinct = set()
    for c, r in zip(cases, impl):
        if "driver_error" in r:
            continue
        if nontrivial(c, r):
            distinct.add(signature(c) + str(c.get("src", {}).get("seed", "")))
        if c.get("unit"):
            inc(hist["kind"], "unit")
        else:
            inc(hist["kind"], c["style"])
            inc(hist["method"], f"{c['style']}/{c['method']}")
            inc(hist["source"], c["source"])
            inc(hist["alpha"], alpha_code(c["alpha"]))
            inc(hist["compress"], c["compress"])
            inc(hist["cell_height"], (c["cell"][1] - 1) // 10 * 10 + 1)
            inc(hist["src_mode"], r.get("mode"))
            setm, over = set_over(c)
            inc(hist["set_method_x_override"], f"{c['style']}:{setm}/{over}")
            hist["override_differs_from_set_method"] += bool(setm and over and setm != over)
            hist["dynamic_size"] += bool(c.get("dynamic"))
            inc(hist["cell_size_reads_inside_render_image"], len(r.get("reads_in", [])))
            if c.get("conc"):
                hc, cc = hist["concurrent"], c["conc"]
                hc["judged_outputs"] += 1
                inc(hc["style/method"], f"{c['style']}/{c['method']}")
                hc["parked_inside_while_other_thread_ran"] += nontrivial(c, r)
                hc["threads_with_different_arguments"] += any(t != cc["threads"][0] for t in cc["threads"])
                log = r.get("gate_log", [])
                sch = cc["sched"]
                if cc.get("judge") == 0 and sch and sch[0][1] == "*":
                    mine = [x for x in log if x.startswith("0:")]
                    k = sch[0][2]
                    inc(hc["thread0_parked_after_gate"], mine[k - 1].split(":")[1] if k <= len(mine) else "end")
                    hc["both_threads_parked_inside"] += len(sch) == 4
            if c.get("ops") and "fr" in r:
                f = r["fr"]
                hist["history_renders"] += 1
                inc(hist["history_source"], c["source"])
                inc(hist["history_via"], f"{c['style']}/{c['method']}/{c.get('via')}")
                inc(hist["history_ops_before_render"], min(len(f["hist"]), 8))
                off = f["pilpos"] >= 0 and f["pilpos"] != f["tell"]
                hist["history_pil_object_off_the_current_frame"] += off
                hist["history_current_frame_0_pil_object_elsewhere"] += bool(off and f["tell"] == 0)
            biggest = max([o.get("declen", 0) for o in r.get("oscs", [])] + [x * 3 // 4 for x in (b_[0] for b_ in r.get("b64", []) if isinstance(b_, list))] + [0])
            if biggest >= 1 << 15:
                inc(hist["largest_single_payload_bytes_log2"], biggest.bit_length() - 1)
                hist["payload_at_power_of_two_boundary"] += any(abs(biggest - (1 << k)) <= 1 for k in range(15, 24))
            if c.get("envchg"):
                at = c["envchg"]["at"]
                inc(hist["environment_change_after_read"], at)
                # the change lands between two reads made inside _render_image
                first_in = next((k for k, t in enumerate(r.get("reads", [])) if t.endswith("*")), None)
                hist["env_change_inside_render_image"] += bool(at is not None and first_in is not None and first_in < at < r["n_reads"])
            if r.get("raised"):
                hist["raised"] += 1
                continue
            if c["style"] == "iterm2":
                hist["iterm2_untouched"] += bool(r.get("untouched"))
                hist["iterm2_jpeg"] += any(o["kind"] == 1 for o in r.get("oscs", []))
        if "items" in r:
            cur = 0
            tot = 0
            for it in r["items"] + [["end"]]:
                if it[0] == "chunk" and not it[1]:
                    cur += 1
                    tot += it[3]
                    continue
                if cur:
                    inc(hist["chunks_per_transmission"], min(cur, 5))
                    m = tot % 4096
                    hist["payload_b64_len_mod_4096"]["0" if m == 0 else "4" if m == 4 else "4092" if m == 4092 else "other"] += 1
                cur, tot = (1, it[3]) if it[0] == "chunk" else (0, 0)
    mismatches, failures = [], []
    shrunk_kinds = set()
    hist["cases_failing_specification"] = sum(1 for k in codes if k >= 2)
    for i, code in enumerate(codes):
        if not code:
            continue
        if code >= 2:
            kind = "unit" if cases[i].get("unit") else cases[i]["style"]
            small, k2, r2 = cases[i], [code], impl[i]
            if len(failures) >= 25:
                continue  # enough replays; the count is in the histogram
            if kind not in shrunk_kinds and not ctx.replay:  # shrink the first failure of each kind only
                shrunk_kinds.add(kind)
                small = shrink(cases[i])
                k2, _, impl2, _ = evaluate([small], tag="c03r")
                r2 = impl2[0]
            obs = {k: r2.get(k) for k in ("raised", "raised_msg", "pix", "lex_ok", "rawlen", "rsize", "untouched", "size_kept",
                                          "pix_error", "reads", "reads_in", "fr", "b64")}
            first_bad = first_ill_formed(r2.get("items", []))
            if r2.get("oscs"):
                obs["oscs(size=,decoded,kind,w,h,[b64 length, chars from first '=' to end, alphabet*=*])"] = [
                    [o["keys"][0], o["declen"], o["kind"], o["w"], o["h"], o.get("b64")] for o in r2["oscs"][:4]]
            failures.append({
                "signature": signature(small),
                "what": f"render does not satisfy the framing/pixel specification (code {k2[0]}): {describe(small)}; observed {json.dumps(obs)}"
                        + (f"; first ill-formed chunk {first_bad}" if first_bad else ""),
                "replay": {"case": small, "observed": {k: v for k, v in r2.items() if k != "items"} | {"items": r2.get("items", [])[:40]},
                           "code": k2[0]},
            })
        else:
            mismatches.append({"case": cases[i], "code": code,
                               "observed": {k: v for k, v in impl[i].items() if k not in ("items", "oscs")},
                               "items": impl[i].get("items", [])[:12], "oscs": impl[i].get("oscs", [])[:4]})
    return {
        "corr_name": "KittyChunks (chunks / strips / keys / iterm2 header+gate) == decoded real renders of KittyImage / ITerm2Image",
        "evaluations": len(cases),
        "distinct_nontrivial": len(distinct),
        "rule": "unit sweep of Transmission.get_chunks (payloads whose base64 length is k*4096 -4/0/+4 for k=0..3, "
                "chunk sizes 1..4097, levels 0-9) + committed boundary corpus (kitty LINES/WHOLE x RGB/RGBA with exactly "
                "k*4096-4 / k*4096 / k*4096+4(+8) base64 characters per transmission at compress 0; cell heights 1..40; "
                "iterm2 every method x terminal at the read-from-file boundary; native animation from file / PIL) + "
                "random renders over method, cells 1-10 x 1-6, cell 1-14 x 1-40, source mode/format/kind "
                "(PIL, PIL-from-file, file; PNG JPEG WEBP GIF; animated with seek), alpha None/float/#/colour, "
                "compress 0-9, z, mix, blend, jpeg quality, read_from_file, automatic sizes + "
                "every (set_render_method() value incl. none / on the class / any letter case, per-render override incl. "
                "none) pair of kitty {lines, whole} and iterm2 {lines, whole, anim} x up-scaled / down-scaled / fewer "
                "source rows than lines, source height not a multiple of the line count (in half of the random renders "
                "the two are drawn independently as well) + renders DURING which the environment changes (cell size "
                "smaller / larger / narrower, with another terminal size and cell ratio) after the n-th environment "
                "read, for every n below the number of reads of that render, fixed and dynamic sizes, kitty and "
                "iterm2, LINES and WHOLE (iterm2 WHOLE from a readable file whose area lies between the two render "
                "areas, so that the gate's second read decides) + HISTORIES over animated GIF / WEBP sources "
                "(PIL image with a file, PIL image decoded from bytes, file): image.seek(n), pil.seek(k) by the owner, "
                "ImageIterators closed after k+1 frames or exhausted, iterm2 native-animation renders, the PIL image on any "
                "frame when wrapped; six committed histories x kitty LINES/WHOLE, iterm2 LINES/WHOLE x str / format / "
                "_renderer / set_render_method, each also file-sourced, plus random histories; every render of a history "
                "is one judged case (expected pixels: frame image.tell() of a fresh copy of the source) + LARGE payloads: "
                "iterm2 WHOLE read-from-file of PNG files of exactly 2^16, 3*2^18, 2^20 -1/+0/+1 and 2^21+5 bytes, native "
                "animation of APNG files of exactly 2^20 -1/+0/+1 bytes and of a 1.9 MB GIF, re-encoded noise PNGs above 1 and "
                "2 MiB (WHOLE, one-line LINES), kitty WHOLE above 1 MiB (thorough: more sizes, random sizes up to 3 MiB, "
                "native animation re-encoded from a PIL image).  Non-trivial: some "
                "transmission has >= 2 chunks or an exact multiple of 4096, or LINES with >= 2 lines, or an iterm2 "
                "case with several lines / WHOLE / ANIM; a history render counts only if the shared PIL object is NOT on "
                "frame image.tell() when the render starts; distinct by case hash.",
        "samples": [describe(c) for c in (cases[:1] + cases[130:133] + [c for c in cases if c.get("ops")][-2:]
                                          + [c for c in cases if c.get("large")][8:10] + cases[-1:])],
        "histogram": hist,
        "mismatches": mismatches,
        "failures": failures,
        "errors": errors,
        "assumptions": [
            "base64: unb64 (b64 x) = x and b64_wf (b64 x) (length a multiple of 4, padding only at the very end); zlib: "
            "unzl (zl l x) = x (hypotheses of the theorems; satisfiable by RFC 4648 — proved; validated on every case by "
            "measuring the shape of the real payload as one text and decoding it strictly with Python's base64/zlib)",
            "frame k of a source = what Pillow gives after seek(k) on a fresh copy; a PIL-sourced instance and its renders / "
            "iterators share the one PIL object with its owner, a file-sourced one opens the file for every render",
            "pixel equality of the decoded payload with the source is Pillow's convert/resize(BOX)/alpha_composite/PNG "
            "round trip — observed at run time against a fresh copy of the source, not proved; JPEG output is compared by "
            "format, mode and size only",
            "io.StringIO.read(n) / io.BytesIO.read(n) return the next n items (firstn/skipn)",
            "the library learns the cell size / terminal size / cell ratio only through get_cell_size / "
            "get_terminal_size / get_cell_ratio (wrapped under every name a term_image module holds them); a change "
            "of the environment is observable by a render only at such a read, so 'the environment changes after "
            "the n-th read' for every n enumerates every interleaving of one change with one render",
        ],
        "trusted": ["impl_c03.py's lexer of the output (fail-closed regular expression over APC G..ST, OSC 1337..ST, CSI, LF)",
                    "tx_consts.py (ast-only translator of the chunk size, control keys/defaults and iterm2 header f-strings)"],
    }
