"""C01, terminal identity: "any terminal quirk mode" quantifies over TERMINALS, not over values of a
private class attribute.

An identity case gives what the TERMINAL reports (name / version as returned by the library's
`get_terminal_name_version()`; for the kitty style also its reply to the kitty graphics query) and a
ROUTE by which the library comes to know it: `is_supported()` called explicitly on some class of the
chain GraphicsImage <- style class <- subclass <- sub-subclass before construction or not at all
(construction is the first use), `forced_support` switched on/off on any class of the chain, the
`_supported` cache cleared, then the construction of an instance of one of the classes and a render.
Nothing assigns `_TERM` / `_KITTY_VERSION`: the library detects (harness/impl/impl_c01_ident.py).

Judgement (inside Coq, model/TermIdentTie.v: icheck): the model runs the route machine of
model/TermIdent.v and renders in the quirk mode derived from what it says is recorded (+1 when the
lexed render / the StyleError differs); the SPECIFICATION side interprets the implementation's own
tokens under the conventions of the terminal the identity denotes -- Konsole >= 22.04: an inline image
without doNotMoveCursor=1 leaves the cursor at the beginning of the line below it; WezTerm: with
mix=False an image alone covers nothing, cells must be erased -- and runs the render contract
rect_checkb on them at two start positions (+2 when it fails)."""
from __future__ import annotations

import copy

import core
import lexer
import renderlib as R

HEADER = ("From Coq Require Import String List ZArith.\nImport ListNotations.\n"
          "From TI Require Import lib.Term lib.RectCheck model.RenderTie model.TermIdent model.TermIdentTie.\n"
          "Open Scope Z_scope.\n")

REPLIES = {  # must equal harness/impl/impl_c01_ident.py REPLIES
    "ok": b"\x1b_Gi=31;OK\x1b\\\x1b[?62;c",
    "error": b"\x1b_Gi=31;ENOTSUPPORTED:unknown command\x1b\\\x1b[?62;c",
    "da1": b"\x1b[?62;c",
    "none": None,
}

KONSOLE_VERSIONS = ["22.12.3", "22.04.0", "22.4.0", "23.08.1", "22.03.90", "21.12.3", "22.4", "22", "23", "22.04.0.1",
                    None, "", "22.04.0-dev", " 22.12.3", "022.004.000"]
ITERM2_IDENTS = ([("konsole", v) for v in KONSOLE_VERSIONS]
                 + [("wezterm", "20230712-072601-f4abf8fd"), ("wezterm", None), ("iterm2", "3.4.19"), ("iterm2", None),
                    ("xterm", "379"), ("vscode", "1.80.1"), ("kitty", "0.30.1"), (None, None), ("", "")])
QUIRKY = [("konsole", "22.12.3"), ("konsole", "22.04.0"), ("konsole", "23.08.1"), ("wezterm", "20230712-072601-f4abf8fd"),
          ("wezterm", None), ("iterm2", "3.4.19")]
KITTY_VERSIONS = ["0.30.1", "0.26.5", "0.25.2", "0.25.1", "0.25.0", "0.25", "0.25.0.1", "0.24.4", "0.20.0", "0.19.3", "1.0.0",
                  None, "", "0.21.x"]
KITTY_IDENTS = ([("kitty", v) for v in KITTY_VERSIONS]
                + [("konsole", "22.12.3"), ("konsole", None), ("konsole", "21.12.3"), ("iterm2", "3.4.19"),
                   ("wezterm", "20230712-072601-f4abf8fd"), ("xterm", "379"), (None, None)])
IMG = {"mode": "RGB", "size": [4, 4], "seed": 7, "kind": "runs"}


# ------------------------------------------------------------------------------- generation


def gen_route(rng):
    ops = []
    for _ in range(rng.choice([0, 0, 1, 1, 2, 2, 3, 4])):
        r = rng.random()
        if r < 0.4:
            ops.append({"op": "check", "cls": rng.choice([1, 1, 2, 3])})
        elif r < 0.85:
            ops.append({"op": "force", "cls": rng.choice([0, 1, 1, 2, 3]), "val": rng.random() < 0.75})
        else:
            ops.append({"op": "clear", "cls": rng.choice([0, 1, 1, 2, 3])})
    return ops


def gen_case(rng):
    style = rng.choice(["iterm2", "iterm2", "iterm2", "kitty"])
    c = {"style": style, "cells": [rng.choice([1, 2, 3, 5, 8]), rng.choice([1, 2, 3, 4])],
         "img": R.gen_image(rng, 10, kinds=("random", "runs", "uniform")), "alpha": rng.choice(R.ALPHAS),
         "cell_size": [rng.choice([3, 8, 10]), rng.choice([5, 16, 20])], "route": gen_route(rng),
         "cls": rng.choice([1, 1, 2, 3]), "args": {}}
    a = c["args"]
    if style == "iterm2":
        # mostly the identities that HAVE a quirk mode
        name, version = rng.choice(QUIRKY) if rng.random() < 0.6 else rng.choice(ITERM2_IDENTS)
        c["ident"] = {"name": name, "version": version}
        if rng.random() < 0.9:
            a["method"] = rng.choice(["lines", "whole", "anim"])
        if rng.random() < 0.5:
            a["mix"] = rng.random() < 0.5
        if a.get("method") == "anim" and rng.random() < 0.5:
            c["img"]["frames"] = 2
    else:
        name, version = rng.choice(KITTY_IDENTS)
        c["ident"] = {"name": name, "version": version, "reply": rng.choice(["ok", "ok", "ok", "error", "da1", "none"])}
        if rng.random() < 0.9:
            a["method"] = rng.choice(["lines", "whole"])
        if rng.random() < 0.4:
            a["mix"] = rng.random() < 0.5
        if rng.random() < 0.5:
            c["frame"] = True
        else:
            if rng.random() < 0.4:
                a["z_index"] = rng.choice([0, 1, -1, 5])
            if rng.random() < 0.4:
                a["blend"] = rng.random() < 0.5
    if rng.random() < 0.12 and not c.get("frame"):
        c["via"], c["args"], c["alpha"] = "str", {}, None
        c["img"].pop("frames", None)
    return c


def corpus():
    """Runs first: every kind of terminal x the ways the library may come to know it."""
    routes = [
        ([], 1), ([{"op": "check", "cls": 1}], 1),
        ([{"op": "force", "cls": 1, "val": True}], 1),                                  # forced, construction = first use
        ([{"op": "check", "cls": 1}, {"op": "force", "cls": 1, "val": True}], 1),       # checked, then forced
        ([{"op": "force", "cls": 0, "val": True}], 1),                                  # forced at GraphicsImage level
        ([{"op": "force", "cls": 1, "val": True}], 2),                                  # forced on the parent, subclass built
        ([{"op": "force", "cls": 2, "val": True}], 3),
        ([{"op": "check", "cls": 2}], 1),                                               # checked on a subclass only
        ([{"op": "check", "cls": 1}, {"op": "clear", "cls": 1}], 2),                    # cache cleared
        ([{"op": "force", "cls": 1, "val": True}, {"op": "clear", "cls": 0}], 3),
        ([{"op": "force", "cls": 1, "val": True}, {"op": "force", "cls": 1, "val": False}], 1),
    ]
    cs = []
    for name, version in (("konsole", "22.12.3"), ("wezterm", "20230712-072601-f4abf8fd"), ("iterm2", "3.4.19"),
                          ("konsole", "21.12.3"), ("xterm", "379")):
        for k, (route, cls) in enumerate(routes):
            for method in ("lines", "whole"):
                mix = name == "wezterm" and (k + (method == "whole")) % 3 == 0
                cs.append({"style": "iterm2", "ident": {"name": name, "version": version}, "route": route, "cls": cls,
                           "cells": [3, 2], "img": dict(IMG), "alpha": None, "args": {"method": method, "mix": mix}})
    for name, version in (("konsole", "22.12.3"), ("wezterm", "20230712-072601-f4abf8fd"), ("iterm2", "3.4.19")):
        for route, cls in routes[:4]:
            cs.append({"style": "iterm2", "ident": {"name": name, "version": version}, "route": route, "cls": cls,
                       "cells": [4, 1], "img": dict(IMG, frames=2), "alpha": None, "args": {"method": "anim"}})
            cs.append({"style": "iterm2", "ident": {"name": name, "version": version}, "route": route, "cls": cls,
                       "cells": [1, 3], "img": dict(IMG), "alpha": None, "args": {}, "via": "str"})
    for name, version, reply in (("kitty", "0.30.1", "ok"), ("kitty", "0.25.1", "ok"), ("kitty", "0.25.0", "ok"),
                                 ("kitty", "0.19.3", "ok"), ("konsole", "22.12.3", "ok"), ("kitty", "0.30.1", "da1"),
                                 ("iterm2", "3.4.19", "ok")):
        for route, cls in routes[:6]:
            for frame in (True, False):
                cs.append({"style": "kitty", "ident": {"name": name, "version": version, "reply": reply}, "route": route,
                           "cls": cls, "cells": [3, 2], "img": dict(IMG), "alpha": None, "frame": frame,
                           "args": {"method": "lines" if frame else "whole"}})
    return copy.deepcopy(cs)


# --------------------------------------------------------------------------------- encoding


def bytes_term(b):
    if b is None:
        return "None"
    if isinstance(b, str):
        b = b.encode("ascii")
    return "(Some [" + "; ".join(str(x) for x in b) + "])"


def method_of(case):
    m = (case.get("args", {}).get("method") or "lines").lower()
    return "MLines" if m == "lines" else "MWhole"


def render_term(case):
    a = case.get("args", {})
    mix = R.b(a.get("mix", False))
    if case["style"] == "iterm2":
        return f"IIterm {method_of(case)} {mix}"
    if case.get("frame"):
        return f"IKittyFrame {method_of(case)} {mix}"
    return f"IKitty {method_of(case)} ({a.get('z_index', 0)}) {mix} {R.b(a.get('blend', True))}"


def route_term(route):
    def one(op):
        if op["op"] == "check":
            return f"RCheck {op['cls']}"
        if op["op"] == "force":
            return f"RForce {op['cls']} {R.b(op['val'])}"
        return f"RClear {op['cls']}"
    return core.coq_list(route, one)


def case_term(case, res, toks):
    ident = case["ident"]
    reply = REPLIES[ident.get("reply", "none")]
    if res.get("built"):
        w, h = res["rendered_size"]
    else:
        w, h = case["cells"]
    return (f"{{| ic_ident := {{| id_name := {bytes_term(ident.get('name'))}; id_version := {bytes_term(ident.get('version'))}; "
            f"id_reply := {bytes_term(reply)} |}}; ic_route := {route_term(case.get('route', []))}; ic_cls := {case['cls']}%nat; "
            f"ic_render := {render_term(case)}; ic_built := {R.b(res.get('built', False))}; ic_w := {w}; ic_h := {h}; "
            f"ic_obs := {lexer.coq_toks(toks)} |}}")


# --------------------------------------------------------------------------------- judging


def judge(cases, tag):
    """Returns (verdicts, impl results, infrastructure errors); a verdict is {"code": bits (1 model /
    2 contract under the terminal's conventions), "lexerr": message or None}."""
    # the cases are small (a few ms each): few driver processes, their start-up dominates
    impl = core.run_impl_parallel("impl_c01_ident.py", cases, chunk=max(90, (len(cases) + core.NCPU - 1) // core.NCPU))
    verdicts = [{"code": 0, "lexerr": None} for _ in cases]
    terms, owner = [], []
    for i, (c, r) in enumerate(zip(cases, impl)):
        v = verdicts[i]
        toks = []
        if "error" in r:
            v["lexerr"] = "render raised " + r["error"]
            continue
        if r.get("built"):
            try:
                full = lexer.lex(r["out"])
                toks = R.strip_payload(full)
                bad = R.kitty_payload_errors(full) if c["style"] == "kitty" else None
                if bad:
                    v["lexerr"] = f"a kitty terminal rejects the render's data: {bad}"
                    continue
            except lexer.LexError as e:
                v["lexerr"] = f"unlexable output: {e}"
                continue
        r["toks"] = toks
        terms.append(case_term(c, r, toks))
        owner.append(i)
    errors = []
    if terms:
        bad, errs = core.coq_shards(tag, HEADER, terms, "icase", "ibad cases", shard=150)
        errors += errs
        for idx, code in bad:
            verdicts[owner[idx]]["code"] = code
    return verdicts, impl, errors


def failing(v):
    return v["lexerr"] is not None or v["code"] & 2


def explain(case, res, tag):
    try:
        term = case_term(case, res, res["toks"])
    except Exception as e:  # noqa: BLE001
        return f"(no explanation: {type(e).__name__})"
    text = HEADER + f"Set Printing Width 100000.\nEval vm_compute in (iexplain ({term})).\n"
    rc, out = core.coq_eval_file(f"{tag}_explain_{id(case)}", text)
    vals = core.parse_evals(out)
    return ("(terminal kind 0=iterm2 1=konsole 2=wezterm 3=other, model's (konsole mode, wezterm mode), contract clauses per "
            "view of the output under that terminal's conventions, first model difference) = " + vals[0]) if vals else out[-400:]


def simpler(case):
    """Single-step simplifications of a case, most wanted first."""
    out = []
    route = case.get("route", [])
    for j in range(len(route)):
        out.append(dict(case, route=route[:j] + route[j + 1:]))
    if case["cls"] > 1:
        out.append(dict(case, cls=1, route=[dict(op, cls=min(op["cls"], 1)) for op in route]))
    if case["img"] != IMG and not case["img"].get("frames"):
        out.append(dict(case, img=dict(IMG)))
    if case.get("alpha") is not None:
        out.append(dict(case, alpha=None))
    if case["cells"] != [3, 2]:
        out.append(dict(case, cells=[3, 2]))
    a = case.get("args", {})
    for key in ("compress", "z_index", "blend"):
        if key in a:
            out.append(dict(case, args={k: v for k, v in a.items() if k != key}))
    if case.get("cell_size") not in (None, [10, 20]):
        out.append(dict(case, cell_size=[10, 20]))
    return [copy.deepcopy(c) for c in out]


def shrink(case, verdict, res, tag, rounds=8):
    for _ in range(rounds):
        cands = simpler(case)
        if not cands or core.over_budget():
            break
        vs, impl, _ = judge(cands, tag + "_shrink")
        for c, v, r in zip(cands, vs, impl):
            if failing(v):
                case, verdict, res = c, v, r
                break
        else:
            break
    return case, verdict, res


def describe(case, res=None):
    i = case["ident"]
    route = " ; ".join(
        f"{['GraphicsImage', 'Style', 'Sub', 'SubSub'][op['cls']]}."
        + {"check": "is_supported()", "force": f"forced_support = {op.get('val')}", "clear": "_supported = None"}[op["op"]]
        for op in case.get("route", [])) or "(nothing before construction)"
    who = f"terminal reports name={i.get('name')!r} version={i.get('version')!r}" + \
          (f" kitty-query reply={i.get('reply', 'none')}" if case["style"] == "kitty" else "")
    got = ""
    if res is not None:
        got = (f" -> recorded by the library (_TERM, _TERM_VERSION, _KITTY_VERSION) = {res.get('recorded')}"
               if res.get("built") else " -> StyleError") + (f" anim args {res['anim_args']}" if res.get("anim_args") else "")
    return (f"{case['style']} [{who}] route: {route} ; then {['GraphicsImage', 'Style', 'Sub', 'SubSub'][case['cls']]}(image, "
            f"width={case['cells'][0]}, height={case['cells'][1]}) rendered via {case.get('via', 'renderer')}"
            f"{' with the arguments _display_animated picks' if case.get('frame') else ''} args={case.get('args', {})} "
            f"alpha={case.get('alpha')!r} img={case['img']['mode']}{case['img']['size']}{got}")
