"""C18 -- the urwid screen never leaves a ghost image behind.

Claim = the theorems of coq/props/C18.v.  Tie, on every run: scripted sessions of a REAL
UrwidImageScreen writing to a buffer (harness/impl/impl_c18.py): generated sequences of
layouts (Pile / Columns / Overlay / ListBox scrolling / LineBox / Filler / the image widget
or a SolidFill as the top-most widget), any mix of kitty, iterm2 and block image widgets
(the same widget possibly several times on screen), widget construction and garbage
collection in between, redraws of the same canvas, clear(), a redraw whose inner draw raises;
terminal identity kitty / konsole / other; and EVERY WAY THE SCREEN IS STARTED: with the
alternate buffer or without it (urwid's inline mode), repeated stop()/start() cycles changing
the mode, a new screen object for a new cycle, on a terminal that already holds image
placements (printed by an earlier command / by the application before start() or between two
sessions).  Every step's output is lexed
(harness/c18lex.py, fail-closed) and executed on the placement-level terminal INSIDE Coq
(model/ScreenTie.v) and compared with (a) the model, (b) the specification computed from
the canvas just drawn (its rows, read back through canvas.content(), written on an empty
terminal).  code >= 2 = a ghost image / a missing image line / an unbracketed redraw /
wrong view positions / z-index clash / exception = property failure; the session is
shrunk (fewer steps, simpler layouts) and is the replay."""
from __future__ import annotations

import copy
import json
import random

import c18lex
import core

LEVEL = "proof"
EXTRA_TARGETS = ["model/ScreenTie.vo"]

MODEL_REASON = {2: "layout extracted with urwid's shard functions is not well-formed / does not match the shards",
                3: "walk ran out of fuel", 4: "delete commands differ from the model's",
                5: "_ti_image_cviews differs from the model's", 6: "canvas disguise state differs from the model's",
                7: "widget disguise states differ from the model's", 8: "z-index allocator differs from the model's single allocator (counter / free set / live widgets' indexes / a class of "
                   "the widget tree sees its own state)"}
SPEC_REASON = {1: "an exception escaped a legitimate redraw", 2: "redraw output is not one BEGIN/END synchronized update",
               3: "_ti_image_cviews is not the set of image views of the canvas (positions from the layout)",
               4: "GHOST: the terminal shows an image placement that the canvas just drawn does not have",
               5: "an image line of the canvas just drawn is NOT on the terminal (deleted and not written again)",
               6: "the z-indexes of the live kitty widgets (of all widget classes) are not pairwise distinct / non-zero / in range, "
                  "or a live widget's index was freed",
               7: "image placements left on the terminal after start / stop / clear (start, clear: on the screen buffer the user sees; "
                  "stop: on the buffer the screen ran on)"}

# ------------------------------------------------------------------ generator

# widget classes: 0 = UrwidImage, 1 = a subclass, 2 = a subclass of that subclass, 3 = another subclass
CLASSES = [0, 0, 1, 1, 2, 3]
CLASS_NAME = {0: "", 1: "/Sub", 2: "/SubSub", 3: "/Other"}

KINDS = {"kitty": ["kitty", "kitty", "block"], "konsole": ["kitty", "iterm2", "iterm2", "block"],
         "other": ["kitty", "iterm2", "block"]}


class Gen:
    def __init__(self, rng: random.Random, slots: list[str], size):
        self.rng = rng
        self.slots = slots
        self.cols, self.rows = size

    def img(self):
        return ["img", self.rng.choice(self.slots)]

    def flow(self, depth, width):
        r = self.rng
        opts = ["img", "img", "text", "divider"]
        if depth > 0 and width >= 8:
            opts += ["pile", "cols", "linebox", "padding", "boxadapter"]
        k = r.choice(opts)
        if k == "img":
            return self.img()
        if k == "text":
            return ["text", r.choice(["t", "hello world", "ab\ncd", "x" * r.randint(1, 30)])]
        if k == "divider":
            return ["divider"]
        if k == "pile":
            return ["pile", [["pack", self.flow(depth - 1, width)] for _ in range(r.randint(1, 3))]]
        if k == "cols":
            n = r.randint(2, 3)
            return ["cols", [[["weight", r.randint(1, 2)], self.flow(depth - 1, width // n)] for _ in range(n)], r.randint(0, 1)]
        if k == "linebox":
            return ["linebox", self.flow(depth - 1, width - 2)]
        if k == "padding":
            return ["padding", self.flow(depth - 1, width - 2), r.randint(0, 2), r.randint(0, 2)]
        return ["boxadapter", self.box(depth - 1, width, r.randint(1, 4)), r.randint(1, 4)]

    def box(self, depth, width, height):
        r = self.rng
        opts = ["img", "img", "fill", "filler", "listbox"]
        if depth > 0 and width >= 8 and height >= 4:
            opts += ["pile", "cols", "overlay", "overlay", "linebox", "listbox"]
        k = r.choice(opts)
        if k == "img":
            return self.img()
        if k == "fill":
            return ["fill", r.choice("x.#")]
        if k == "filler":
            return ["filler", self.flow(depth - 1, width), r.choice(["top", "middle", "bottom"])]
        if k == "listbox":
            n = r.randint(1, 5)
            return ["listbox", [self.flow(max(depth - 1, 0), width) for _ in range(n)], r.randrange(n),
                    r.choice([0, 0, 25, 50, 100])]
        if k == "pile":
            items = []
            for _ in range(r.randint(1, 3)):
                c = r.random()
                if c < 0.4:
                    items.append(["pack", self.flow(depth - 1, width)])
                elif c < 0.6:
                    items.append([["given", r.randint(1, max(1, height // 2))], self.box(depth - 1, width, height // 2)])
                else:
                    items.append([["weight", r.randint(1, 2)], self.box(depth - 1, width, height // 2)])
            items.insert(r.randrange(len(items) + 1), [["weight", 1], self.box(depth - 1, width, height // 2)])
            return ["pile", items]
        if k == "cols":
            n = r.randint(2, 3)
            items = []
            for _ in range(n):
                if r.random() < 0.3:
                    items.append([["given", r.randint(2, max(2, width // 3))], self.box(depth - 1, width // n, height)])
                else:
                    items.append([["weight", r.randint(1, 2)], self.box(depth - 1, width // n, height)])
            if all(i[0][0] == "given" for i in items):
                items[0][0] = ["weight", 1]
            return ["cols", items, r.randint(0, 1)]
        if k == "overlay":
            w = r.randint(2, max(2, width - 2))
            h = r.randint(1, max(1, height - 1))
            top = self.box(depth - 1, w, h) if r.random() < 0.8 else ["fill", "o"]
            return ["overlay", top, self.box(depth - 1, width, height), "left", w, "top", h,
                    r.randint(0, max(0, width - w)), r.randint(0, max(0, height - h))]
        return ["linebox", self.box(depth - 1, width - 2, height - 2)]


def mutate(rng, gen: Gen, L):
    """a small change of the previous layout: move / resize an overlay, scroll a list box, swap
    an image, or descend"""
    L = copy.deepcopy(L)
    k = L[0]
    if k == "overlay":
        c = rng.random()
        if c < 0.35:
            L[8] = max(0, L[8] + rng.choice([-1, 1, 1, 2]))
        elif c < 0.6:
            L[7] = max(0, L[7] + rng.choice([-1, 1, 2]))
        elif c < 0.8:
            L[6] = max(1, L[6] + rng.choice([-1, 1]))
        elif c < 0.9:
            L[1] = rng.choice([gen.img(), ["fill", "o"]])
        else:
            L[2] = mutate(rng, gen, L[2])
        # keep the top widget on the canvas
        L[7] = min(L[7], max(0, gen.cols - L[4]))
        L[6] = min(L[6], gen.rows)
        L[8] = min(L[8], max(0, gen.rows - L[6]))
        return L
    if k == "listbox":
        c = rng.random()
        if c < 0.5 and L[1]:
            L[2] = rng.randrange(len(L[1]))
        elif c < 0.8:
            L[3] = rng.choice([0, 25, 50, 75, 100])
        elif L[1]:
            i = rng.randrange(len(L[1]))
            L[1][i] = mutate(rng, gen, L[1][i])
        return L
    if k in ("pile", "cols"):
        i = rng.randrange(len(L[1]))
        c = rng.random()
        if c < 0.6:
            L[1][i][1] = mutate(rng, gen, L[1][i][1])
        elif c < 0.8 and len(L[1]) > 1 and k == "pile" and any(it[0] != "pack" and it[0][0] == "weight" for j, it in enumerate(L[1]) if j != i):
            del L[1][i]
        elif k == "pile":
            L[1].insert(i, ["pack", rng.choice([["text", "new"], gen.img(), ["divider"]])])
        return L
    if k in ("linebox", "filler", "padding", "boxadapter"):
        L[1] = mutate(rng, gen, L[1])
        return L
    if k == "img":
        return gen.img()        # an image widget fits box and flow positions alike
    if k == "text":
        return rng.choice([["text", L[1] + "!"], gen.img()])
    if k == "fill":
        return rng.choice([["fill", "z"], gen.img()])
    return L


PRE_Z = [0, 0, 0, 1, -1, 2, 7, 2**31 - 1]


def gen_pre(rng: random.Random, term: str, cols: int, rows: int):
    """what is on the terminal before the screen is started: kitty placements anywhere on the area
    the screen will use (and below it), images printed at the cursor by the library itself (LINES or
    WHOLE render method, any z-index; iterm2 images on Konsole), text"""
    items = []
    for _ in range(rng.randint(1, 3)):
        c = rng.random()
        if c < 0.45:
            items.append(["raw", rng.randrange(rows + 3), rng.randrange(cols), rng.randint(1, 8), rng.randint(1, 3),
                          rng.choice(PRE_Z)])
        elif c < 0.9:
            width = rng.randint(2, 10)
            if term == "konsole" and rng.random() < 0.5:
                items.append(["image", "iterm2", rng.randrange(6), width, rng.choice(["1.1+L", "1.1+W"])])
            else:
                items.append(["image", "kitty", rng.randrange(6), width,
                              rng.choice(["1.1", "1.1+L", "1.1+W", "1.1+Lz1", "1.1+Lz-2", f"{width + 3}.1+L"])])
        else:
            items.append(["text", rng.choice(["$ ls\nfile\n", "$ python app.py\n", "\n\n"])])
    if not any(it[0] in ("raw", "image") for it in items):
        items.append(["raw", rng.randrange(rows), rng.randrange(cols), 4, 1, 0])
    return {"op": "pre", "items": items}


def gen_start(rng: random.Random):
    # urwid's default (MainLoop) is the alternate buffer; alternate_buffer=False is its inline mode
    return {"op": "start", "alt": rng.random() < 0.6}


def gen_case(rng: random.Random, idx: int, quick: bool):
    term = ["kitty", "konsole", "other"][idx % 3]
    cols, rows = rng.choice([(20, 10), (24, 8), (30, 12), (16, 6)])
    nslots = rng.randint(1, 4)
    names = [chr(ord("a") + i) for i in range(nslots)]
    slots = {}
    for nme in names:
        slots[nme] = {"kind": rng.choice(KINDS[term]), "img": rng.randrange(6), "upscale": rng.random() < 0.8,
                      "cls": rng.choice(CLASSES)}
    if all(s["kind"] == "block" for s in slots.values()):
        slots[names[0]]["kind"] = "kitty"
    ksup = True
    if idx % 17 == 16 and term != "konsole":   # kitty protocol unsupported: nothing may be written
        ksup = False
        for s in slots.values():
            if s["kind"] == "kitty":
                s["kind"] = "block"
    z_start = None
    if idx % 11 == 10:
        z_start = rng.choice([2**31 - 1, -(2**31 - 1), 2**31 - 2, 2**31])
    gen = Gen(rng, names, (cols, rows))
    steps = []
    if ksup and rng.random() < 0.5:
        steps.append(gen_pre(rng, term, cols, rows))
    steps.append(gen_start(rng))
    mode = steps[-1]["alt"]
    layout = gen.box(rng.randint(1, 3), cols, rows)
    steps.append({"op": "draw", "layout": layout})
    for _ in range(rng.randint(3, 7 if quick else 10)):
        c = rng.random()
        if c < 0.55:
            layout = mutate(rng, gen, layout)
            steps.append({"op": "draw", "layout": layout})
        elif c < 0.68:
            layout = gen.box(rng.randint(0, 3), cols, rows)
            steps.append({"op": "draw", "layout": layout})
        elif c < 0.70:
            steps.append({"op": "redraw"})
        elif c < 0.76:
            # the public clear_images(): all images or some of the widgets (distinct), at once or
            # queued, then a redraw of the unchanged layout (a new canvas object whose image rows
            # are byte-identical but for the disguise) or of a changed one.  At most ONE call
            # between two redraws: the disguise has three states (count hypothesis of no_ghosts)
            k = rng.choice([0, 0, 1, 1, 2])
            steps.append({"op": "api", "slots": rng.sample(names, min(k, len(names))), "now": rng.random() < 0.5})
            if rng.random() < 0.3:
                layout = mutate(rng, gen, layout)
            if layout[0] == "img":
                # the image widget itself on top: its cached canvas would be the very object drawn last (not a
                # redraw: urwid returns early); a one-item Pile paints the same screen with a new canvas object
                layout = ["pile", [[["weight", 1], layout]]]
            steps.append({"op": "draw", "layout": layout})
        elif c < 0.79:
            steps.append({"op": "clear"})
            steps.append({"op": rng.choice(["redraw", "draw"]), "layout": layout})
        elif c < 0.83:
            # another session: possibly after other output on the terminal, possibly as a new screen
            # object, started with or without the alternate buffer
            steps.append({"op": "stop"})
            if ksup and rng.random() < 0.6:
                steps.append(gen_pre(rng, term, cols, rows))
            fresh = rng.random() < 0.25
            if fresh:
                steps.append({"op": "newscreen"})
            steps.append(gen_start(rng))
            # the first redraw of the new session: a new canvas, or (same screen object, same mode) the very
            # canvas object drawn last in the previous session
            again = not fresh and steps[-1]["alt"] == mode and rng.random() < 0.3
            mode = steps[-1]["alt"]
            steps.append({"op": "redraw"} if again else {"op": "draw", "layout": layout})
        elif c < 0.90:
            nme = rng.choice(names)
            steps.append({"op": "new", "slot": nme,
                          "spec": {"kind": rng.choice(KINDS[term]) if ksup else "block", "img": rng.randrange(6), "upscale": True, "cls": rng.choice(CLASSES)}})
            steps.append({"op": "draw", "layout": layout})
        elif c < 0.95:
            # drop a widget that the next layout no longer uses
            layout2 = gen.box(rng.randint(0, 2), cols, rows)
            used = json.dumps(layout2)
            unused = [n for n in names if f'["img", "{n}"]' not in used]
            steps.append({"op": "draw", "layout": layout2})
            layout = layout2
            if unused and len(names) > 1:
                nme = rng.choice(unused)
                steps.append({"op": "del", "slot": nme})
                steps.append({"op": "new", "slot": nme, "spec": {"kind": rng.choice(KINDS[term]) if ksup else "block",
                                                                 "img": rng.randrange(6), "upscale": True, "cls": rng.choice(CLASSES)}})
        else:
            steps.append({"op": "draw_bad", "layout": layout})
            steps.append({"op": "clear"})
            steps.append({"op": "draw", "layout": layout})
    steps.append({"op": "stop"})
    case = {"term": term, "ksup": ksup, "size": [cols, rows], "z_start": z_start, "slots": slots, "steps": steps}
    assert in_domain(case), case
    return case


# boundary sessions that run first (committed corpus)
def corpus():
    K = {"kind": "kitty", "img": 2, "upscale": True}
    K0 = {"kind": "kitty", "img": 0, "upscale": True}
    I = {"kind": "iterm2", "img": 3, "upscale": True}
    B = {"kind": "block", "img": 4, "upscale": True}
    S, E = {"op": "start", "alt": True}, {"op": "stop"}

    def d(L):
        return {"op": "draw", "layout": L}

    def ov(h, top=0, left=5, w=6, topw=None, bottom=None):
        return ["overlay", topw or ["fill", "x"], bottom or ["img", "a"], "left", w, "top", h, left, top]

    three = ["listbox", [["pile", [["pack", ["img", "a"]], ["pack", ["divider"]]] * 3]], 0, 0]
    cases = []
    for term in ("kitty", "konsole", "other"):
        base = {"term": term, "ksup": True, "size": [20, 10], "z_start": None}
        # an overlay growing by one row: three views of one widget vanish at once
        cases.append(dict(base, slots={"a": K}, steps=[S, d(ov(3)), d(ov(4)), d(ov(4, 1)), d(ov(2, 3)), E]))
        cases.append(dict(base, slots={"a": K0}, steps=[S, d(ov(3)), d(ov(4)), d(ov(5)), d(ov(6)), E]))
        # the top-most widget is replaced by a SolidFill / a text / is the image widget itself
        cases.append(dict(base, slots={"a": K}, steps=[S, d(["filler", ["img", "a"], "top"]), d(["fill", "y"]),
                                                       d(["filler", ["img", "a"], "top"]), E]))
        cases.append(dict(base, slots={"a": K}, steps=[S, d(["img", "a"]), d(["filler", ["text", "hello"], "top"]),
                                                       d(["img", "a"]), d(["fill", "."]), E]))
        # the same widget three times in a list box, scrolled; then clear + redraw
        cases.append(dict(base, slots={"a": K0}, steps=[S, d(three), d(three[:2] + [0, 50]), d(three[:2] + [0, 100]),
                                                        {"op": "clear"}, {"op": "redraw"}, E]))
        # columns: the same widget three times side by side, pushed down by one row
        row3 = ["cols", [[["weight", 1], ["img", "a"]]] * 3]
        cases.append(dict(base, slots={"a": K0}, steps=[
            S, d(["pile", [["pack", ["text", "t"]], [["weight", 1], row3]]]),
            d(["pile", [["pack", ["text", "t\nu"]], [["weight", 1], row3]]]), E]))
        # widget replaced by a new one at the same place (z-index reuse after collection)
        cases.append(dict(base, slots={"a": K0, "b": K0}, steps=[
            S, d(["cols", [[["weight", 1], ["img", "a"]], [["weight", 1], ["img", "b"]]]]),
            d(["fill", "."]), {"op": "del", "slot": "a"}, {"op": "new", "slot": "a", "spec": K0},
            d(["cols", [[["weight", 1], ["img", "a"]], [["weight", 1], ["img", "b"]]]]),
            {"op": "new", "slot": "b", "spec": K}, d(["cols", [[["weight", 1], ["img", "a"]], [["weight", 1], ["img", "b"]]]]), E]))
        # inner draw raises; stop/start
        cases.append(dict(base, slots={"a": K, "b": B}, steps=[
            S, d(ov(3, bottom=["cols", [[["weight", 1], ["img", "a"]], [["given", 6], ["img", "b"]]]])),
            {"op": "draw_bad", "layout": ov(4)}, {"op": "clear"}, d(ov(4)), E, S, d(ov(4)), E]))
    # widgets of UrwidImage and of subclasses of it alive together (one allocator for the whole
    # class tree): stacked, the upper one replaced by text; creation / collection interleaved
    def kc(c, img=2):
        return {"kind": "kitty", "img": img, "upscale": True, "cls": c}

    def stack(*names):
        return ["pile", [["pack", ["img", n]] if n != "-" else ["pack", ["text", "gone"]] for n in names]
                + [[["weight", 1], ["fill", "."]]]]
    for term in ("kitty", "konsole", "other"):
        base = {"term": term, "ksup": True, "size": [20, 12], "z_start": None}
        cases.append(dict(base, slots={"a": kc(0), "b": kc(1), "c": kc(0, 3)},
                          steps=[S, d(stack("b", "c")), d(stack("-", "c")), d(stack("a", "c")), E]))
        cases.append(dict(base, slots={"a": kc(1), "b": kc(0), "c": kc(2), "d": kc(3, 3)},
                          steps=[S, d(stack("a", "b")), d(stack("c", "d")), d(stack("-", "d")),
                                 {"op": "del", "slot": "a"}, {"op": "del", "slot": "b"}, d(stack("c", "d")),
                                 {"op": "new", "slot": "a", "spec": kc(2)}, {"op": "new", "slot": "b", "spec": kc(0)},
                                 {"op": "new", "slot": "e", "spec": kc(3)}, d(stack("a", "b")), d(stack("e", "-")), E]))
    cases.append({"term": "kitty", "ksup": True, "size": [16, 6], "z_start": 2**31 - 2, "slots": {"a": kc(1, 0)},
                  "steps": [S, {"op": "new", "slot": "b", "spec": kc(0, 0)}, {"op": "new", "slot": "c", "spec": kc(2, 0)},
                            {"op": "new", "slot": "d", "spec": kc(3, 0)}, {"op": "new", "slot": "e", "spec": kc(1, 0)},
                            d(["cols", [[["weight", 1], ["img", "a"]], [["weight", 1], ["img", "b"]]]]),
                            {"op": "del", "slot": "c"}, d(["fill", "."]), {"op": "new", "slot": "f", "spec": kc(0, 0)}, E]})
    # a canvas spanning two shards at the right end of its rows (its left neighbour is split into
    # two shards), and below it a row whose views start at its column: the tail of the tall
    # canvas must have expired when the walk reaches that row; the divider then moves
    def tall(w):
        return ["pile", [[["given", 2], ["cols", [[["given", w], ["pile", [[["weight", 1], ["fill", "t"]], [["weight", 1], ["fill", "s"]]]]],
                                                  [["weight", 1], ["fill", "B"]]]]],
                         [["weight", 1], ["cols", [[["given", w], ["fill", "|"]], [["given", 8], ["img", "a"]],
                                                   [["weight", 1], ["fill", "."]]]]]]]
    for term in ("kitty", "konsole", "other"):
        base = {"term": term, "ksup": True, "size": [30, 8], "z_start": None}
        cases.append(dict(base, slots={"a": K0}, steps=[S, d(tall(4)), d(tall(15)), d(tall(17)), d(tall(4)), E]))
    # the public clear_images(): everything / one widget / two widgets, immediately / queued, each
    # followed by a redraw of the unchanged layout, then of a changed one
    def api(slots, now):
        return {"op": "api", "slots": slots, "now": now}
    for term in ("kitty", "konsole", "other"):
        base = {"term": term, "ksup": True, "size": [20, 12], "z_start": None}
        lay = ["pile", [["pack", ["text", "t"]], ["pack", ["img", "a"]], ["pack", ["img", "b"]], [["weight", 1], ["fill", "."]]]]
        lay2 = ["pile", [["pack", ["text", "t2"]], ["pack", ["img", "a"]], ["pack", ["img", "b"]], [["weight", 1], ["fill", "."]]]]
        second = {"kind": "iterm2" if term == "konsole" else "kitty", "img": 3, "upscale": True, "cls": 1}
        cases.append(dict(base, slots={"a": K, "b": second},
                          steps=[S, d(lay), api([], True), d(lay), api([], False), d(lay2), api(["a"], True), d(lay2),
                                 api(["a", "b"], False), d(lay), api(["b"], True), d(lay2), api([], True), d(lay2),
                                 api([], True), {"op": "clear"}, d(lay2), E]))
    kon = {"term": "konsole", "ksup": True, "size": [24, 10], "z_start": None}
    both = ["cols", [[["weight", 1], ["img", "a"]], [["weight", 1], ["img", "b"]]]]
    cases.append(dict(kon, slots={"a": K, "b": I}, steps=[S, d(both), d(ov(3, bottom=both)), d(ov(4, 1, bottom=both)),
                                                           d(["fill", "."]), d(both), E]))
    cases.append(dict(kon, slots={"a": I, "b": I}, steps=[S, d(both), d(["cols", [[["weight", 1], ["img", "a"]], [["weight", 1], ["text", "t"]]]]),
                                                           d(["img", "b"]), d(["filler", ["text", "x"], "top"]), E]))
    # exhaustion of the z-index range
    for zs in (2**31 - 1, -(2**31 - 1), 2**31):
        cases.append({"term": "kitty", "ksup": True, "size": [16, 6], "z_start": zs, "slots": {"a": K0 if zs != 2**31 else B},
                      "steps": [S, {"op": "new", "slot": "b", "spec": K0}, {"op": "new", "slot": "c", "spec": K0},
                                d(["cols", [[["weight", 1], ["img", "a"]], [["weight", 1], ["fill", "."]]]]),
                                {"op": "del", "slot": "a"}, d(["fill", "."]), {"op": "new", "slot": "d", "spec": K0},
                                {"op": "new", "slot": "e", "spec": K0}, E]})
    # every way the screen is started: without the alternate buffer (urwid's inline mode) on a
    # terminal that already shows images (placed at the top left, printed by the library with the
    # LINES and the WHOLE method), clear() + redraw, a second session with the alternate buffer after
    # more output, a third one inline again; a new screen object; another full-screen program's
    # alternate buffer; clear() + redraw of the same canvas object, then a move, inline
    def st(alt):
        return {"op": "start", "alt": alt}

    def pre(*items):
        return {"op": "pre", "items": [list(i) for i in items]}
    for term in ("kitty", "konsole", "other"):
        base = {"term": term, "ksup": True, "size": [20, 10], "z_start": None}
        lay = ["pile", [["pack", ["text", "t"]], ["pack", ["img", "a"]], [["weight", 1], ["fill", "."]]]]
        lay2 = ["pile", [["pack", ["text", "t\nu"]], ["pack", ["img", "a"]], [["weight", 1], ["fill", "."]]]]
        im2 = ["image", "iterm2" if term == "konsole" else "kitty", 3, 8, "1.1+W"]
        cases.append(dict(base, slots={"a": K}, steps=[
            pre(("raw", 0, 0, 6, 1, 0), ("image", "kitty", 0, 6, "1.1"), ("text", "$ python app.py\n")),
            st(False), d(lay), {"op": "clear"}, {"op": "redraw"}, d(lay2), E,
            pre(im2, ("raw", 2, 3, 4, 2, 1)), st(True), d(lay), d(lay2), E,
            st(False), d(lay2), d(lay), E]))
        if term != "other":
            cases.append(dict(base, slots={"a": K0}, steps=[
                st(True), d(lay), E, pre(("image", "kitty", 2, 5, "1.1+Lz1"), ("raw", 1, 0, 20, 3, -1)), {"op": "newscreen"},
                st(False), d(lay), d(lay2), E, {"op": "newscreen"}, pre(("raw", 0, 0, 3, 1, 2**31 - 1)), st(True), d(lay2), E]))
        if term == "kitty":
            cases.append(dict(base, slots={"a": K}, steps=[
                pre(("alt", True), ("raw", 1, 1, 5, 2, 0), ("alt", False), ("raw", 4, 2, 5, 1, 3)),
                st(True), d(lay), E, st(False), d(["img", "a"]), {"op": "clear"}, {"op": "redraw"}, d(ov(3)), d(ov(3, 1)), E]))
    # kitty protocol unsupported: nothing is written
    cases.append({"term": "other", "ksup": False, "size": [16, 6], "z_start": None, "slots": {"a": B},
                  "steps": [S, d(["img", "a"]), d(["fill", "."]), {"op": "clear"}, {"op": "redraw"}, E]})
    return cases


# ------------------------------------------------------------------ encoding


def b(x):
    return "true" if x else "false"


def kind_term(k):
    if k[0] == "plain":
        return "CPlain"
    wid = k[1]
    if k[2] == "kitty":
        return f"(CImage {wid} (WKitty {core.z(k[3])}))"
    return f"(CImage {wid} {'WIterm' if k[2] == 'iterm' else 'WText'})"


def canv_term(ref):
    return f"(mk_canv {ref['id']} {kind_term(ref['kind'])})"


class Encoder:
    def __init__(self, case, result):
        self.case = case
        self.res = result
        self.canvs = {}     # canvas id -> ref
        ns = len(case.get("slots", {}))
        self.now = {ns + j: bool(st.get("now")) for j, st in enumerate(case["steps"]) if st["op"] == "api"}
        self.alt = {ns + j: bool(st.get("alt", True)) for j, st in enumerate(case["steps"]) if st["op"] == "start"}
        self.lex_errors = []

    def toks(self, s, what):
        try:
            return c18lex.coq_toks(c18lex.lex(s))
        except c18lex.LexError as e:
            self.lex_errors.append(f"{what}: {e}")
            return "[]"

    def btoks(self, s, what):
        """what was written to the terminal: tokens of the two-buffer terminal"""
        try:
            return c18lex.coq_btoks(c18lex.lex(s))
        except c18lex.LexError as e:
            self.lex_errors.append(f"{what}: {e}")
            return "(bts [])"

    def note_canvs(self, lay):
        if lay.get("composite"):
            for _n, cells in lay["bands"]:
                for c in cells:
                    if c[0] == "new":
                        self.canvs[c[5]["id"]] = c[5]
        else:
            self.canvs[lay["canv"]["id"]] = lay["canv"]

    def view_term(self, v):
        ref = self.canvs.get(v[0], {"id": v[0], "kind": ["plain"]})
        return f"(mk_view {canv_term(ref)} {v[1]} {v[2]} {v[3]} {v[4]} {v[5]} {v[6]})"

    def obs_term(self, r):
        pair = lambda e: f"({e[0]}%nat, {core.z(e[1])})"  # noqa: E731
        return ("(mk_obs " + core.coq_list(r["freed"], pair) + " " + core.coq_list(r["live_z"], pair) + " "
                + core.coq_list(r["free_set"], core.z) + " " + core.z(r["next_z"]) + " "
                + core.coq_list(r.get("class_state", []), lambda c: f"({core.z(c[0])}, {core.coq_list(c[1], core.z)})")
                + f" {r['cdis']} "
                + core.coq_list(r["wdis"], lambda e: f"({e[0]}, {e[1]})") + " "
                + core.coq_list(r["cviews"], self.view_term) + ")")

    def act_term(self, r, i):
        op = r["op"]
        if op in ("draw", "draw_bad", "redraw"):
            lay = r["layout"]
            self.note_canvs(lay)
            if lay["composite"]:
                shards = core.coq_list(lay["shards"], lambda sh: f"({sh[0]}, " + core.coq_list(
                    sh[1], lambda cv: f"mk_cview {cv[0]} {cv[1]} {cv[2]} {cv[3]} {canv_term(self.canvs[cv[4]])}") + ")")
                canvas = f"(Composite {lay['id']} {shards})"

                def cell(c):
                    if c[0] == "new":
                        return f"CNew (mk_cview {c[1]} {c[2]} {c[3]} {c[4]} {canv_term(c[5])})"
                    return f"CCont {c[1]} {c[2]}"
                layout = core.coq_list(lay["bands"], lambda bd: f"({bd[0]}, " + core.coq_list(bd[1], cell) + ")")
            else:
                canvas = f"(Single {canv_term(lay['canv'])} {lay['cols']} {lay['rows']})"
                layout = "[]"
            truth = core.coq_list(r.get("rows", []), lambda row: self.toks(row, f"step {i} canvas row"))
            return (f"(XDraw {canvas} {layout} {b(op == 'draw_bad')} {b('exc' in r)} "
                    f"{self.btoks(r['out'], f'step {i} output')} {truth})")
        if op == "start":
            return f"(XStart {b(self.alt[i])} {self.btoks(r['out'], f'step {i} output')})"
        if op in ("clear", "stop"):
            return f"(X{op.capitalize()} {self.btoks(r['out'], f'step {i} output')})"
        if op == "pre":
            return f"(XPre {self.btoks(r['out'], f'step {i} earlier output')})"
        if op == "newscreen":
            return "XNewScreen"
        if op == "api":
            if r.get("api_skipped"):
                return "XDel"

            def wk(e):
                if e[1] == "kitty":
                    return f"({e[0]}, WKitty {core.z(e[2])})"
                return f"({e[0]}, {'WIterm' if e[1] == 'iterm2' else 'WText'})"
            return (f"(XApi {core.coq_list(r['api'], wk)} {b(self.now[i])} "
                    f"{self.btoks(r.get('tty', ''), f'step {i} terminal-device output')} "
                    f"{self.btoks(r['out'], f'step {i} output')})")
        if op == "new":
            a = r["alloc"]
            if a[0] == "raised":
                return "(XNew 0 true None)"
            return f"(XNew {a[1]} {b(a[2] == 'kitty')} " + (f"(Some {core.z(a[3])})" if a[3] is not None else "None") + ")"
        return "XDel"

    def term(self):
        steps = []
        for i, r in enumerate(self.res["steps"]):
            if "abort" in r:
                break
            steps.append(f"(mk_step {self.act_term(r, i)} {self.obs_term(r)})")
        kon = self.case["term"] == "konsole"
        z0 = self.case.get("z_start") or 1
        return (f"mk_case {b(kon)} {b(self.case.get('ksup', True))} {b(kon)} 400 {core.z(z0)} "
                + core.coq_list(steps))


def describe_layout(L):
    k = L[0]
    if k == "img":
        return f"img:{L[1]}"
    if k == "text":
        return "text"
    if k in ("fill", "divider"):
        return k
    if k in ("pile", "cols"):
        return f"{k}(" + ",".join(describe_layout(c[1]) for c in L[1]) + ")"
    if k == "overlay":
        return f"overlay[{L[4]}x{L[6]}@{L[7]},{L[8]}]({describe_layout(L[1])} over {describe_layout(L[2])})"
    if k == "listbox":
        return f"listbox@{L[2]}/{L[3]}(" + ",".join(describe_layout(c) for c in L[1]) + ")"
    return f"{k}({describe_layout(L[1])})"


def describe(case, upto=None):
    s = f"term={case['term']} size={case['size'][0]}x{case['size'][1]}" + ("" if case.get("ksup", True) else " kitty-unsupported")
    if case.get("z_start"):
        s += f" z_start={case['z_start']}"
    s += " widgets{" + ",".join(f"{n}:{sp['kind']}#{sp['img']}{CLASS_NAME.get(sp.get('cls', 0), '')}" for n, sp in case["slots"].items()) + "} :: "
    parts = []
    for st in case["steps"][: (upto + 1 if upto is not None else None)]:
        if st["op"] in ("draw", "draw_bad"):
            parts.append(f"{st['op']} {describe_layout(st['layout'])}")
        elif st["op"] == "new":
            parts.append(f"new {st['slot']}:{st['spec']['kind']}#{st['spec']['img']}{CLASS_NAME.get(st['spec'].get('cls', 0), '')}")
        elif st["op"] == "del":
            parts.append(f"del {st['slot']}")
        elif st["op"] == "api":
            parts.append(f"clear_images({','.join(st.get('slots', []))}{',' if st.get('slots') else ''}now={bool(st.get('now'))})")
        elif st["op"] == "start":
            parts.append("start(alternate_buffer=%s)" % bool(st.get("alt", True)))
        elif st["op"] == "pre":
            def item(it):
                if it[0] == "raw":
                    return f"kitty placement {it[3]}x{it[4]} z={it[5]} at row {it[1]} col {it[2]}"
                if it[0] == "image":
                    return f"print({it[1]} image#{it[2]} width={it[3]} :{it[4]})"
                if it[0] == "alt":
                    return "enter alternate buffer" if it[1] else "leave alternate buffer"
                return "text"
            parts.append("earlier output on the terminal [" + ", ".join(item(it) for it in st.get("items", [])) + "]")
        elif st["op"] == "newscreen":
            parts.append("new UrwidImageScreen object")
        else:
            parts.append(st["op"])
    return s + " ; ".join(parts)


HEADER = ("From Coq Require Import List ZArith Bool.\nImport ListNotations.\n"
          "From TI Require Import lib.Term model.Screen model.ScreenSession model.ScreenTie.\nOpen Scope nat_scope.\n")


def evaluate(cases, errors, prefix="c18"):
    """-> list of (code, reason, step) per case (None when the case could not be judged), results"""
    results = core.run_impl_parallel("impl_c18.py", cases)
    terms, owner = [], []
    verdicts = [None] * len(cases)
    for ci, (c, r) in enumerate(zip(cases, results)):
        if r.get("abort"):
            errors.append(f"driver aborted: {describe(c)}: {r['abort'][:300]}")
            continue
        ab = [s for s in r["steps"] if "abort" in s]
        if ab:
            verdicts[ci] = ("invalid", ab[0]["abort"][:200])
            continue
        enc = Encoder(c, r)
        t = enc.term()
        if enc.lex_errors:
            verdicts[ci] = ("lex", enc.lex_errors[0])
            continue
        owner.append(ci)
        terms.append(t)
    if terms:
        bad, errs = core.coq_shards(prefix, HEADER, terms, "tcase", "bad cases", shard=12)
        errors += [e[-600:] for e in errs[:3]]
        if not errs:
            for k in range(len(terms)):
                verdicts[owner[k]] = (0, 0, 0)
            for k, v in bad:
                verdicts[owner[k]] = (v % 10, (v // 10) % 100, v // 1000)
    return verdicts, results


def nsetup(case):
    return len(case.get("slots", {}))


def shrink_candidates(case, fail_step):
    """smaller sessions: cut after the failing step, drop one step, drop a widget, simplify a layout"""
    steps = case["steps"]
    cut = fail_step - nsetup(case)
    out = []
    if cut < 0:
        # failed while the session's widgets were being constructed: no step is needed, nor
        # are the widgets constructed after the failing one; then try without each earlier one
        names = list(case["slots"])
        keep = names[: fail_step + 1]
        out.append(dict(case, steps=[], slots={k: case["slots"][k] for k in keep}))
        for n in keep[:-1]:
            out.append(dict(case, steps=[], slots={k: case["slots"][k] for k in keep if k != n}))
        return out
    if 0 <= cut < len(steps) - 1:
        out.append(dict(case, steps=steps[: cut + 1]))
    base = steps[: cut + 1] if 0 <= cut < len(steps) else steps
    for i in range(len(base)):
        out.append(dict(case, steps=base[:i] + base[i + 1:]))
        # a whole stop ... start stretch (one session boundary) at once
        if base[i]["op"] == "stop":
            for j in range(i + 1, len(base)):
                if base[j]["op"] == "start":
                    out.append(dict(case, steps=base[:i] + base[j + 1:]))
                    break
        if base[i]["op"] == "pre" and len(base[i]["items"]) > 1:
            for k in range(len(base[i]["items"])):
                out.append(dict(case, steps=base[:i] + [dict(base[i], items=base[i]["items"][:k] + base[i]["items"][k + 1:])]
                                + base[i + 1:]))
    for i, st in enumerate(base):
        if st["op"] in ("draw", "draw_bad"):
            for sub in sub_layouts(st["layout"]):
                out.append(dict(case, steps=base[:i] + [dict(st, layout=sub)] + base[i + 1:]))
    used = json.dumps(base)
    for n in list(case["slots"]):
        if f'["img", "{n}"]' not in used and len(case["slots"]) > 1:
            out.append(dict(case, steps=base, slots={k: v for k, v in case["slots"].items() if k != n}))
    return out


def sub_layouts(L):
    k = L[0]
    subs = []
    if k in ("pile", "cols"):
        for i in range(len(L[1])):
            if len(L[1]) > 1:
                rest = L[1][:i] + L[1][i + 1:]
                if k == "cols" or any(it[0] != "pack" for it in rest):
                    subs.append([k, rest] + L[2:])
            for s in sub_layouts(L[1][i][1]):
                subs.append([k, L[1][:i] + [[L[1][i][0], s]] + L[1][i + 1:]] + L[2:])
    elif k == "overlay":
        subs.append(L[2])
        for s in sub_layouts(L[2]):
            subs.append(L[:2] + [s] + L[3:])
        if L[1] != ["fill", "x"]:
            subs.append([L[0], ["fill", "x"]] + L[2:])
    elif k == "listbox":
        for i in range(len(L[1])):
            if len(L[1]) > 1:
                subs.append([k, L[1][:i] + L[1][i + 1:], min(L[2], len(L[1]) - 2), L[3]])
    elif k in ("linebox", "filler", "padding", "boxadapter"):
        for s in sub_layouts(L[1]):
            subs.append([k, s] + L[2:])
    return subs


def valid_session(case):
    """start only a stopped screen, stop / draw / clear only a started one; other programs write
    to the terminal, and the screen object is replaced, only while the screen is stopped"""
    started = False
    for st in case["steps"]:
        op = st["op"]
        if op == "start":
            if started:
                return False
            started = True
        elif op == "stop":
            if not started:
                return False
            started = False
        elif op in ("pre", "newscreen"):
            if started:
                return False
        elif op in ("draw", "draw_bad", "redraw", "clear", "api"):
            if not started:
                return False
    return True


def in_domain(case):
    """the public clear_images() is exercised within the domain of no_ghosts: at most one call
    between two redraws (the disguise has three states: the count hypothesis), and the next
    redraw is one of a NEW canvas object (urwid returns early, writing nothing, when it is
    handed the very canvas object it drew last)"""
    if not valid_session(case):
        return False
    pending = 0
    inline = False
    last = None          # the layout drawn last, when its canvas may be handed to the screen again
    for st in case["steps"]:
        op = st["op"]
        if op == "start":
            inline = not st.get("alt", True)
        if op == "draw" and not inline and st["layout"][0] == "img" and st["layout"] == last:
            # the image widget itself as the top-most widget: urwid's canvas cache returns the very canvas
            # object drawn last, so this is the "redraw" of the same canvas object
            op = "redraw"
        if op == "api":
            pending += 1
            if pending > 1:
                return False
        elif op == "redraw":
            if pending:
                return False
        elif op in ("draw", "clear", "stop", "start"):
            pending = 0
        if op in ("draw", "draw_bad"):
            last = st["layout"]
        elif op in ("new", "del", "newscreen"):
            last = None if op == "newscreen" else last
        # draw_bad: the inner draw raises before writing anything: the call stays pending
    return True


def size_of(case):
    return (len(case["steps"]), len(json.dumps(case["steps"])), len(case["slots"]), len(json.dumps(case["slots"])))


def shrink(case, verdict, errors, rounds=4, t_end=None):
    import time as _time
    code, reason, step = verdict
    best, bv = case, verdict
    for _ in range(rounds):
        if t_end is not None and _time.time() > t_end:
            break
        cands = [c for c in shrink_candidates(best, bv[2]) if size_of(c) < size_of(best) and in_domain(c)]
        if not cands:
            break
        cands = sorted(cands, key=size_of)[:40]
        errs = []
        vs, _ = evaluate(cands, errs, prefix="c18s")
        good = [(c, v) for c, v in zip(cands, vs)
                if v and isinstance(v[0], int) and v[0] >= 2 and v[1] == reason]
        if not good:
            break
        best, bv = min(good, key=lambda cv: size_of(cv[0]))
    return best, bv


def run(ctx):
    errors, mismatches, failures, raw_failing = [], [], [], []
    hist = {"terminal": {}, "start_mode": {"alternate buffer": 0, "inline (alternate_buffer=False)": 0},
            "starts_on_a_terminal_holding_placements": {"alternate buffer": 0, "inline (alternate_buffer=False)": 0},
            "sessions_with_both_modes": 0, "new_screen_objects": 0, "earlier_output_items": {},
            "public_clear_images_calls": {}, "widget_classes": {}, "sessions_mixing_classes": 0, "steps_per_session": {}, "op": {}, "layout_nodes": {}, "widget_kinds": {},
            "verdict": {}, "views_on_screen": {}, "deletes": {"all": 0, "by_z": 0, "cursor": 0},
            "redraws_with_vanished_views": 0, "non_composite_canvases": 0, "image_lines_in_canvases": 0,
            "image_lines_written": 0, "z_freed": 0, "z_reused": 0, "z_exhausted": 0}
    if ctx.replay:
        cases = [ctx.replay["replay"]["case"]]
    else:
        cases = corpus()
        n = 36 if ctx.quick else 400
        for i in range(n):
            cases.append(gen_case(ctx.rng, i, ctx.quick))
    verdicts, results = evaluate(cases, errors)

    distinct = set()
    invalid = 0
    for ci, (c, r, v) in enumerate(zip(cases, results, verdicts)):
        if v is None:
            continue
        if v[0] == "invalid":
            invalid += 1
            hist["verdict"]["generator-invalid"] = hist["verdict"].get("generator-invalid", 0) + 1
            continue
        if v[0] == "lex":
            failures.append({"signature": core.sig({"lex": v[1], "case": c}),
                             "what": f"the screen's output is outside the lexer's language ({v[1]}): {describe(c)}",
                             "replay": {"case": c}})
            continue
        hist["terminal"][c["term"]] = hist["terminal"].get(c["term"], 0) + 1
        ns = len(c["steps"])
        hist["steps_per_session"][ns // 4 * 4] = hist["steps_per_session"].get(ns // 4 * 4, 0) + 1
        specs = list(c["slots"].values()) + [st["spec"] for st in c["steps"] if st["op"] == "new"]
        for sp in specs:
            hist["widget_kinds"][sp["kind"]] = hist["widget_kinds"].get(sp["kind"], 0) + 1
            nm = CLASS_NAME.get(sp.get("cls", 0), "") or "/UrwidImage"
            hist["widget_classes"][nm] = hist["widget_classes"].get(nm, 0) + 1
        if len({sp.get("cls", 0) for sp in specs if sp["kind"] == "kitty"}) > 1:
            hist["sessions_mixing_classes"] += 1
        dirty_term = False      # something placed images on the terminal since the last stop / the beginning
        modes = set()
        for st in c["steps"]:
            hist["op"][st["op"]] = hist["op"].get(st["op"], 0) + 1
            if st["op"] == "pre":
                for it in st.get("items", []):
                    key = it[0] if it[0] != "image" else f"image:{it[1]}:{'WHOLE' if it[4].endswith('W') else 'LINES'}"
                    hist["earlier_output_items"][key] = hist["earlier_output_items"].get(key, 0) + 1
                    dirty_term = dirty_term or it[0] in ("raw", "image")
            elif st["op"] == "start":
                mode = "alternate buffer" if st.get("alt", True) else "inline (alternate_buffer=False)"
                modes.add(mode)
                hist["start_mode"][mode] += 1
                if dirty_term:
                    hist["starts_on_a_terminal_holding_placements"][mode] += 1
            elif st["op"] == "stop":
                dirty_term = False
            elif st["op"] == "newscreen":
                hist["new_screen_objects"] += 1
            if st["op"] == "api":
                key = ("all" if not st.get("slots") else f"{len(st['slots'])} widget(s)") + (", now" if st.get("now") else ", queued")
                hist["public_clear_images_calls"][key] = hist["public_clear_images_calls"].get(key, 0) + 1
            if "layout" in st:
                for node in ("pile", "cols", "overlay", "listbox", "linebox", "filler", "padding", "boxadapter", "img", "fill"):
                    if f'["{node}"' in json.dumps(st["layout"]):
                        hist["layout_nodes"][node] = hist["layout_nodes"].get(node, 0) + 1
        if len(modes) > 1:
            hist["sessions_with_both_modes"] += 1
        prev_views = None
        prev_free = set()
        nontrivial = False
        for s in r["steps"]:
            if s["op"] in ("draw", "draw_bad", "redraw"):
                nv = len(s["cviews"])
                hist["views_on_screen"][min(nv, 8)] = hist["views_on_screen"].get(min(nv, 8), 0) + 1
                if not s["layout"]["composite"]:
                    hist["non_composite_canvases"] += 1
                cur = {tuple(x) for x in s["cviews"]}
                if prev_views is not None and prev_views - cur:
                    hist["redraws_with_vanished_views"] += 1
                    nontrivial = True
                prev_views = cur
            hist["image_lines_in_canvases"] += sum(row.count("a=T") + row.count("File=") for row in s.get("rows", []))
            hist["image_lines_written"] += s["out"].count("a=T") + s["out"].count("File=")
            hist["z_freed"] += len(s["freed"])
            if s["op"] == "new" and s["alloc"][0] == "ok" and s["alloc"][3] is not None and s["alloc"][3] in prev_free:
                hist["z_reused"] += 1
            if s["op"] == "new" and s["alloc"][0] == "raised":
                hist["z_exhausted"] += 1
            prev_free = set(s["free_set"])
            hist["deletes"]["all"] += s["out"].count("a=d,d=A")
            hist["deletes"]["by_z"] += s["out"].count("a=d,d=Z")
            hist["deletes"]["cursor"] += s["out"].count("a=d,d=C")
        code = v[0]
        hist["verdict"][str(code)] = hist["verdict"].get(str(code), 0) + 1
        if code == 0 and nontrivial:
            distinct.add(core.sig(c))
        if code >= 2:
            raw_failing.append((c, v))
        elif code == 1:
            mismatches.append({"case": describe(c, v[2] - nsetup(c)), "step": v[2] - nsetup(c),
                               "why": MODEL_REASON.get(v[1], str(v[1]))})
    # shrink the smallest failing session of every kind of failure (bounded effort); the
    # other failing sessions are counted and listed, not shrunk
    import time as _time
    t_end = _time.time() + (45 if ctx.quick else 240)
    total_failing = len(raw_failing) + len(failures)
    raw_failing.sort(key=lambda cv: size_of(cv[0]))
    done_reasons, others = {}, []
    for c, v in raw_failing:
        reason = v[1]
        if done_reasons.get(reason, 0) >= (1 if ctx.quick else 2) and not ctx.replay:
            others.append(f"{SPEC_REASON.get(reason, reason)}: {describe(c, v[2] - nsetup(c))}"[:400])
            continue
        done_reasons[reason] = done_reasons.get(reason, 0) + 1
        if ctx.replay or _time.time() > t_end:
            small, sv = c, v
        else:
            small, sv = shrink(c, v, errors, rounds=4 if ctx.quick else 8, t_end=t_end)
        step = sv[2] - nsetup(small)
        where = (f"at step {step} of: {describe(small, step)}" if step >= 0 else
                 f"after constructing widget `{list(small['slots'])[sv[2]]}` of: {describe(small, -1)}")
        failures.append({
            "signature": core.sig({"case": small, "reason": sv[1]}),
            "what": f"{SPEC_REASON.get(sv[1], sv[1])} {where}",
            "replay": {"case": small, "reason": SPEC_REASON.get(sv[1], sv[1]), "step": step, "code": sv[0],
                       "original_case": c if small is not c else None},
        })
    seen, kept = set(), []
    for f in failures:
        if f["signature"] not in seen:
            seen.add(f["signature"])
            kept.append(f)
    failures = kept
    if invalid > len(cases) // 3:
        errors.append(f"{invalid} of {len(cases)} generated sessions were rejected by urwid (generator too loose)")
    samples = [describe(c) for c in cases[:2]] + [describe(c) for c in cases[len(corpus()):len(corpus()) + 3]]
    return {
        "corr_name": "sessions of a real UrwidImageScreen on a buffer (started with / without the alternate buffer, on terminals "
                     "already holding placements); output lexed and executed on the two-buffer placement-level "
                     "terminal in Coq vs. model (deletes, _ti_image_cviews, disguise, allocator) and vs. the canvas just drawn",
        "evaluations": sum(1 for v in verdicts if v and isinstance(v[0], int)),
        "distinct_nontrivial": len(distinct),
        "rule": "committed corpus of boundary sessions (overlay growing by a row over one widget, top-most widget replaced by "
                "SolidFill / being the image widget itself, one widget three times in a scrolled list box / side by side, "
                "z-index reuse after collection, widgets of UrwidImage and of its subclasses alive together with interleaved creation / "
                "collection, inner draw raising, stop/start, kitty+iterm2 on Konsole, z-index exhaustion, "
                "kitty unsupported; the screen started WITHOUT the alternate buffer on a terminal that already shows images "
                "(raw kitty placements, images printed by the library with the LINES / WHOLE method, iterm2 images on Konsole), "
                "clear()+redraw and a moved overlay there, then a session with the alternate buffer after more foreign output, "
                "then inline again; a new screen object between sessions; another program's alternate buffer) x terminal "
                "identity, then generated sessions: optional earlier output on the terminal (1-3 of: kitty placements anywhere "
                "on / below the screen area with z-index 0 / 1 / -1 / 2 / 7 / 2^31-1, printed kitty / iterm2 images, text), "
                "start(alternate_buffer = True 60% / False 40%), 1-4 widgets of kinds kitty / iterm2 / block, each an instance of UrwidImage, of a subclass, of a sub-subclass or of a second "
                "subclass (mixed in one session) "
                "(6 images, two of them uniform), 16x6..30x12 screens, a random box layout of depth <= 3 (Pile, Columns, "
                "Overlay, ListBox, LineBox, Filler, Padding, BoxAdapter, image widgets in box and flow position, the same "
                "widget possibly several times) followed by 3-10 operations: a mutation of the layout (overlay moved / "
                "resized / its top replaced, list box scrolled, item inserted / removed, image swapped), a new layout, redraw "
                "of the same canvas, the PUBLIC clear_images() (all images or one / two widgets, now=True or queued) followed by a redraw of the unchanged or a changed layout, clear()+redraw, stop [+ more foreign output] [+ new screen object] + start in either mode, a widget replaced by a new one, a widget dropped and "
                "collected, a redraw whose inner draw raises.  Non-trivial: distinct sessions judged 0 in which at least one "
                "redraw made image views vanish.",
        "samples": samples,
        "histogram": hist,
        "mismatches": mismatches,
        "failures": failures,
        "errors": errors,
        "assumptions": [
            "(U1) urwid writes a row of a new canvas iff it differs from its screen buffer's row, whole, from column 0 "
            "(model/ScreenUrwid.v; hypothesis of no_ghosts; validated by the runs only)",
            "(U2) the bytes of a row determine and are determined by its non-image content and its image lines with their "
            "disguise counts",
            "(T1) a graphics placement stays until deleted by d=A / d=Z (its z-index) / d=C (cursor cell inside it); text, "
            "erasure, colours do not touch it; the screen does not scroll (model/Screen.v pstep)",
            "(T2) on Konsole an iTerm2 inline image is such a placement (z-index 0) removed by the kitty delete-all command; on "
            "other terminals iTerm2 images are cell content and are outside the property",
            "(W) well-formedness of redraws (wf_redraw): tracked views belong to kitty widgets / iTerm2 widgets on Konsole, "
            "live kitty widgets hold distinct non-zero z-indexes (proved: z_distinct_in_range), image lines of one canvas lie on "
            "the screen and do not overlap, every image line is one row high (LINES render method, the default, required by the "
            "documentation wherever a canvas may be trimmed)",
            "(T3) graphics placements belong to the screen buffer they were made on: CSI ?1049h shows a fresh alternate "
            "buffer, CSI ?1049l the main buffer again with its placements; every other command acts on the visible buffer "
            "(model/ScreenSession.v bstep); 'cleared on start / clear' is judged on the visible buffer, 'cleared on stop' on the "
            "buffer the screen ran on",
            "(U3) without the alternate buffer urwid addresses rows relative to the row of the cursor at start(); its "
            "bookkeeping of that row relies on the canvas carrying a cursor, so the canvases of inline sessions carry one at "
            "(0, 0) (harness/impl/impl_c18.py WithCursor); the session theorems are stated with that row as row 0",
            "other programs write to the terminal, and the screen object is replaced, only while the screen is stopped",
            "KittyImage / ITerm2Image support is as the test-suite stubs say (GraphicsImage._supported = True; "
            "ITerm2Image._TERM set as is_supported() would on konsole / wezterm)",
            "the theorems are about the code AFTER pending_fixes/C18_non_composite_canvas.diff and "
            "C18_kitty_widget_listed_per_view.diff",
        ],
        "trusted": ["harness/c18lex.py (urwid output -> placement-level tokens, fail-closed)",
                    "harness/tx/tx_screen.py (Python ast of draw_screen -> prog; of _start / _stop / clear -> call skeletons; fail-closed)",
                    "harness/impl/impl_c18.py (drives urwid widgets and the screen; reads shards with urwid's shard_body)"],
        "extra": {"failing_sessions_total": total_failing, "generator_invalid": invalid,
                  "other_failing_sessions_not_shrunk": others[:12]},
    }
