"""C18 -- the urwid screen never leaves a ghost image behind.

Claim = the theorems of coq/props/C18.v.  Tie, on every run: scripted sessions of a REAL
UrwidImageScreen writing to a buffer (harness/impl/impl_c18.py): generated sequences of
layouts (Pile / Columns / Overlay / ListBox scrolling / LineBox / Filler / the image widget
or a SolidFill as the top-most widget), any mix of kitty, iterm2 and block image widgets
(the same widget possibly several times on screen), widget construction and garbage
collection in between, redraws of the same canvas, clear(), a redraw whose inner draw raises;
EVERY VALID WIDGET: format specifiers with alignments, alpha and the style-specific fields of the
image's render style (kitty: L|W, z<n>, m0|1, c<0-9>; iterm2: L|W, m0|1, c<0-9>), upscale or not;
REDRAWS THAT URWID ABORTS OR SHORT-CIRCUITS: a real SIGWINCH pending (urwid does not draw until
get_input() has reported the resize), the base class' draw_screen raising at once / inside the
canvas' content() / at one of its writes, and draw_screen() of a canvas object drawn earlier
(the cached identical canvas) after such an aborted redraw;
terminal identity (identified as kitty 0.20.0 .. 0.32.2 / Konsole / unidentified with forced support), REPAINTS OF
UNCHANGED IMAGE VIEWS (only the text beside an image changes), placements COUNTED; and EVERY WAY THE SCREEN IS STARTED: with the
alternate buffer or without it (urwid's inline mode), repeated stop()/start() cycles changing
the mode, a new screen object for a new cycle, on a terminal that already holds image
placements (printed by an earlier command / by the application before start() or between two
sessions).  Every step's output is lexed
(harness/c18lex.py, fail-closed) and executed on the placement-level terminal INSIDE Coq
(model/ScreenTie.v) and compared with (a) the model, (b) the specification computed from
the canvas just drawn (its rows, read back through canvas.content(), written on an empty
terminal).  code >= 2 = a ghost image / a missing image line / an unbracketed redraw /
wrong view positions / z-index clash / a placement transmitted with a z-index other than its widget's /
tracking out of sync with the terminal after an aborted redraw / exception = property failure; the session is
shrunk (fewer steps, simpler layouts) and is the replay."""
from __future__ import annotations

import copy
import json
import random
import re as _re_mod

import c18lex
import core

LEVEL = "proof"
EXTRA_TARGETS = ["model/ScreenTie.vo"]

MODEL_REASON = {11: "tc_konsole differs from the identity's (malformed case)", 2: "layout extracted with urwid's shard functions is not well-formed / does not match the shards",
                3: "walk ran out of fuel", 4: "delete commands differ from the model's",
                5: "_ti_image_cviews differs from the model's", 6: "canvas disguise state differs from the model's",
                7: "widget disguise states differ from the model's", 8: "z-index allocator differs from the model's single allocator (counter / free set / live widgets' indexes / a class of "
                   "the widget tree sees its own state)",
                9: "urwid's resize-pending flag differs from the environment model (SIGWINCH sets it, get_input() clears it)",
                10: "urwid's record of the canvas its screen buffer holds differs from the environment model (a redraw reaches the "
                    "terminal unless a resize is pending or the base draw raises; the very canvas drawn last is not drawn again)"}
SPEC_REASON = {1: "an exception escaped a legitimate redraw", 2: "redraw output is not one BEGIN/END synchronized update",
               3: "_ti_image_cviews is not the set of image views of the canvas (positions from the layout)",
               4: "GHOST: the terminal shows an image placement that the canvas just drawn does not have",
               5: "an image line of the canvas just drawn is NOT on the terminal (deleted and not written again)",
               6: "the z-indexes of the live kitty widgets (of all widget classes) are not pairwise distinct / non-zero / in range, "
                  "or a live widget's index was freed",
               7: "image placements left on the terminal after start / stop / clear (start, clear: on the screen buffer the user sees; "
                  "stop: on the buffer the screen ran on)",
               8: "a placement TRANSMITTED for the canvas carries a z-index that is not the z-index its widget holds (the screen deletes "
                  "by the widget's), or lies in no tracked view, or two live kitty widgets place their images with the same z-index",
               10: "STACKED: the terminal holds an image placement MORE TIMES than the canvas just drawn has it (placements are counted: "
                   "a row re-sent while the image's view is unchanged put one more placement under / over the equal one already there, "
                   "and nothing deleted it - neither a delete of the screen nor the image line's own delete-at-cursor of blend=False)",
               9: "after a redraw that urwid aborted (resize pending / the base draw raised) or short-circuited, the terminal shows a "
                  "placement that the canvas now tracked does not have: the tracking is out of sync with the terminal"}

# ------------------------------------------------------------------ generator

# widget classes: 0 = UrwidImage, 1 = a subclass, 2 = a subclass of that subclass, 3 = another subclass
CLASSES = [0, 0, 1, 1, 2, 3]
CLASS_NAME = {0: "", 1: "/Sub", 2: "/SubSub", 3: "/Other"}

KINDS = {"kitty": ["kitty", "kitty", "block"], "konsole": ["kitty", "iterm2", "iterm2", "block"],
         "other": ["kitty", "iterm2", "block"]}


Z_FIELDS = [0, 1, -1, 2, 5, -7, 2**31 - 1, -(2**31 - 1)]

# terminal identities for which the library claims support of the kitty protocol: identified as kitty (the
# versions around the library's own version tests: >= 0.20.0 supported, <= 0.25.0 / > 0.25.0 animation work-around),
# Konsole, and an UNIDENTIFIED terminal implementing the protocol with KittyImage.forced_support = True
IDENTS = {"kitty": [["kitty", "0.20.0"], ["kitty", "0.25.0"], ["kitty", "0.25.1"], ["kitty", "0.26.0"], ["kitty", "0.32.2"]],
          "konsole": [["konsole", "22.12.3"], ["konsole", "22.04.0"]],
          "other": [["forced", "wezterm"], ["forced", "ghostty"], ["forced", ""]]}
DEFAULT_IDENT = {"kitty": ["kitty", "0.32.2"], "konsole": ["konsole", "22.12.3"], "other": ["forced", "wezterm"]}


def ident_of(case):
    return case.get("ident") or DEFAULT_IDENT[case["term"]]


def ident_term(case):
    idn = ident_of(case)
    if idn[0] == "kitty":
        a, b_, c = (int(x) for x in idn[1].split("."))
        return f"(IdKitty {a} {b_} {c})"
    return "IdKonsole" if idn[0] == "konsole" else "IdForced"


def describe_ident(case):
    idn = ident_of(case)
    if idn[0] == "forced":
        return f"unidentified terminal {idn[1]!r} with KittyImage.forced_support=True"
    return f"identified as {idn[0]} {idn[1]}"


def ticker(n, rows):
    """the text of a status / log pane: every row changes at every tick"""
    return "\n".join(f"t{n}l{i}" for i in range(rows))


def beside(L, n, rows, width=5):
    """`L` with a text pane on its left on the same rows: when only the text changes urwid re-sends the rows
    although no image view changed"""
    return ["cols", [[["given", width], ["filler", ["text", ticker(n, rows)], "top"]], [["weight", 1], L]]]


def gen_fmt(rng: random.Random, kind: str, plain=0.45):
    """a VALID format specifier for a widget of an image of render style `kind`: horizontal / vertical
    alignment (with padding sizes, which widgets ignore), alpha, and for kitty / iterm2 the style-specific
    fields: render method L | W, z-index (kitty; documented as ignored by widgets), mix, compression"""
    if rng.random() < plain:
        return ""
    f = rng.choice(["", "", "<", "|", ">", ">7"])
    if rng.random() < 0.35:
        f += "." + rng.choice(["^", "-", "_", "^3"])
    if rng.random() < 0.25:
        f += rng.choice(["#", "#.3", "#00ff00", "##"])
    if kind != "block" and rng.random() < 0.75:
        st = ""
        c = rng.random()
        if c < 0.25:
            st += "L"
        elif c < 0.35:
            st += "W"
        if kind == "kitty" and rng.random() < 0.6:
            st += f"z{rng.choice(Z_FIELDS)}"
        if rng.random() < 0.3:
            st += f"m{rng.randint(0, 1)}"
        if rng.random() < 0.3:
            st += f"c{rng.choice([0, 1, 4, 9])}"
        if st:
            f += "+" + st
    return f


def gen_spec(rng: random.Random, kind: str, upscale=None):
    return {"kind": kind, "img": rng.randrange(6), "upscale": (rng.random() < 0.8) if upscale is None else upscale,
            "cls": rng.choice(CLASSES), "fmt": gen_fmt(rng, kind)}


class Gen:
    def __init__(self, rng: random.Random, slots: list[str], size):
        self.rng = rng
        self.slots = slots
        self.cols, self.rows = size

    def img(self):
        return ["img", self.rng.choice(self.slots)]

    def flow(self, depth, width):
        r = self.rng
        opts = ["img", "img", "text", "divider"]
        if depth > 0 and width >= 8:
            opts += ["pile", "cols", "linebox", "padding", "boxadapter"]
        k = r.choice(opts)
        if k == "img":
            return self.img()
        if k == "text":
            return ["text", r.choice(["t", "hello world", "ab\ncd", "x" * r.randint(1, 30)])]
        if k == "divider":
            return ["divider"]
        if k == "pile":
            return ["pile", [["pack", self.flow(depth - 1, width)] for _ in range(r.randint(1, 3))]]
        if k == "cols":
            n = r.randint(2, 3)
            return ["cols", [[["weight", r.randint(1, 2)], self.flow(depth - 1, width // n)] for _ in range(n)], r.randint(0, 1)]
        if k == "linebox":
            return ["linebox", self.flow(depth - 1, width - 2)]
        if k == "padding":
            return ["padding", self.flow(depth - 1, width - 2), r.randint(0, 2), r.randint(0, 2)]
        return ["boxadapter", self.box(depth - 1, width, r.randint(1, 4)), r.randint(1, 4)]

    def box(self, depth, width, height):
        r = self.rng
        opts = ["img", "img", "fill", "filler", "listbox"]
        if depth > 0 and width >= 8 and height >= 4:
            opts += ["pile", "cols", "overlay", "overlay", "linebox", "listbox"]
        k = r.choice(opts)
        if k == "img":
            return self.img()
        if k == "fill":
            return ["fill", r.choice("x.#")]
        if k == "filler":
            return ["filler", self.flow(depth - 1, width), r.choice(["top", "middle", "bottom"])]
        if k == "listbox":
            n = r.randint(1, 5)
            return ["listbox", [self.flow(max(depth - 1, 0), width) for _ in range(n)], r.randrange(n),
                    r.choice([0, 0, 25, 50, 100])]
        if k == "pile":
            items = []
            for _ in range(r.randint(1, 3)):
                c = r.random()
                if c < 0.4:
                    items.append(["pack", self.flow(depth - 1, width)])
                elif c < 0.6:
                    items.append([["given", r.randint(1, max(1, height // 2))], self.box(depth - 1, width, height // 2)])
                else:
                    items.append([["weight", r.randint(1, 2)], self.box(depth - 1, width, height // 2)])
            items.insert(r.randrange(len(items) + 1), [["weight", 1], self.box(depth - 1, width, height // 2)])
            return ["pile", items]
        if k == "cols":
            n = r.randint(2, 3)
            items = []
            for _ in range(n):
                if r.random() < 0.3:
                    items.append([["given", r.randint(2, max(2, width // 3))], self.box(depth - 1, width // n, height)])
                else:
                    items.append([["weight", r.randint(1, 2)], self.box(depth - 1, width // n, height)])
            if all(i[0][0] == "given" for i in items):
                items[0][0] = ["weight", 1]
            return ["cols", items, r.randint(0, 1)]
        if k == "overlay":
            w = r.randint(2, max(2, width - 2))
            h = r.randint(1, max(1, height - 1))
            top = self.box(depth - 1, w, h) if r.random() < 0.8 else ["fill", "o"]
            return ["overlay", top, self.box(depth - 1, width, height), "left", w, "top", h,
                    r.randint(0, max(0, width - w)), r.randint(0, max(0, height - h))]
        return ["linebox", self.box(depth - 1, width - 2, height - 2)]


def mutate(rng, gen: Gen, L):
    """a small change of the previous layout: move / resize an overlay, scroll a list box, swap
    an image, or descend"""
    L = copy.deepcopy(L)
    k = L[0]
    if k == "overlay":
        c = rng.random()
        if c < 0.35:
            L[8] = max(0, L[8] + rng.choice([-1, 1, 1, 2]))
        elif c < 0.6:
            L[7] = max(0, L[7] + rng.choice([-1, 1, 2]))
        elif c < 0.8:
            L[6] = max(1, L[6] + rng.choice([-1, 1]))
        elif c < 0.9:
            L[1] = rng.choice([gen.img(), ["fill", "o"]])
        else:
            L[2] = mutate(rng, gen, L[2])
        # keep the top widget on the canvas
        L[7] = min(L[7], max(0, gen.cols - L[4]))
        L[6] = min(L[6], gen.rows)
        L[8] = min(L[8], max(0, gen.rows - L[6]))
        return L
    if k == "listbox":
        c = rng.random()
        if c < 0.5 and L[1]:
            L[2] = rng.randrange(len(L[1]))
        elif c < 0.8:
            L[3] = rng.choice([0, 25, 50, 75, 100])
        elif L[1]:
            i = rng.randrange(len(L[1]))
            L[1][i] = mutate(rng, gen, L[1][i])
        return L
    if k in ("pile", "cols"):
        i = rng.randrange(len(L[1]))
        c = rng.random()
        if c < 0.6:
            L[1][i][1] = mutate(rng, gen, L[1][i][1])
        elif c < 0.8 and len(L[1]) > 1 and k == "pile" and any(it[0] != "pack" and it[0][0] == "weight" for j, it in enumerate(L[1]) if j != i):
            del L[1][i]
        elif k == "pile":
            L[1].insert(i, ["pack", rng.choice([["text", "new"], gen.img(), ["divider"]])])
        return L
    if k in ("linebox", "filler", "padding", "boxadapter"):
        L[1] = mutate(rng, gen, L[1])
        return L
    if k == "img":
        return gen.img()        # an image widget fits box and flow positions alike
    if k == "text":
        return rng.choice([["text", L[1] + "!"], gen.img()])
    if k == "fill":
        return rng.choice([["fill", "z"], gen.img()])
    return L


PRE_Z = [0, 0, 0, 1, -1, 2, 7, 2**31 - 1]


def gen_pre(rng: random.Random, term: str, cols: int, rows: int):
    """what is on the terminal before the screen is started: kitty placements anywhere on the area
    the screen will use (and below it), images printed at the cursor by the library itself (LINES or
    WHOLE render method, any z-index; iterm2 images on Konsole), text"""
    items = []
    for _ in range(rng.randint(1, 3)):
        c = rng.random()
        if c < 0.45:
            items.append(["raw", rng.randrange(rows + 3), rng.randrange(cols), rng.randint(1, 8), rng.randint(1, 3),
                          rng.choice(PRE_Z)])
        elif c < 0.9:
            width = rng.randint(2, 10)
            if term == "konsole" and rng.random() < 0.5:
                items.append(["image", "iterm2", rng.randrange(6), width, rng.choice(["1.1+L", "1.1+W"])])
            else:
                items.append(["image", "kitty", rng.randrange(6), width,
                              rng.choice(["1.1", "1.1+L", "1.1+W", "1.1+Lz1", "1.1+Lz-2", f"{width + 3}.1+L"])])
        else:
            items.append(["text", rng.choice(["$ ls\nfile\n", "$ python app.py\n", "\n\n"])])
    if not any(it[0] in ("raw", "image") for it in items):
        items.append(["raw", rng.randrange(rows), rng.randrange(cols), 4, 1, 0])
    return {"op": "pre", "items": items}


def gen_how(rng: random.Random, rows: int, alt: bool):
    """how the base class' draw_screen fails.  A failure in the middle of urwid's writes only with the
    alternate buffer: without it urwid addresses rows relative to where it believes it left the cursor,
    which a write that was cut short invalidates (urwid's bookkeeping, outside the property)"""
    c = rng.random()
    if c < 0.4:
        return "size"
    if c < 0.7 or not alt:
        return ["content", rng.randrange(rows)]
    return ["write", rng.choice([1, 2, 3, 5, 8, 13, 30])]


def fresh_canvas(L):
    """the image widget itself as the top-most widget renders to its CACHED canvas object, whose identity
    the generator cannot follow: a one-item Pile paints the same screen with a new canvas object"""
    return ["pile", [[["weight", 1], L]]] if L[0] == "img" else L


def gen_start(rng: random.Random):
    # urwid's default (MainLoop) is the alternate buffer; alternate_buffer=False is its inline mode
    return {"op": "start", "alt": rng.random() < 0.6}


def gen_case(rng: random.Random, idx: int, quick: bool):
    term = ["kitty", "konsole", "other"][idx % 3]
    cols, rows = rng.choice([(20, 10), (24, 8), (30, 12), (16, 6)])
    nslots = rng.randint(1, 4)
    names = [chr(ord("a") + i) for i in range(nslots)]
    slots = {}
    for nme in names:
        slots[nme] = gen_spec(rng, rng.choice(KINDS[term]))
    if all(s["kind"] == "block" for s in slots.values()):
        slots[names[0]] = gen_spec(rng, "kitty")
    ksup = True
    if idx % 17 == 16 and term != "konsole":   # kitty protocol unsupported: nothing may be written
        ksup = False
        for nme in names:
            if slots[nme]["kind"] == "kitty":
                slots[nme] = gen_spec(rng, "block")
    z_start = None
    if idx % 11 == 10:
        z_start = rng.choice([2**31 - 1, -(2**31 - 1), 2**31 - 2, 2**31])
    gen = Gen(rng, names, (cols, rows))
    ident = IDENTS[term][(idx // 3) % len(IDENTS[term])]
    steps = []
    if ksup and rng.random() < 0.5:
        steps.append(gen_pre(rng, term, cols, rows))
    steps.append(gen_start(rng))
    mode = steps[-1]["alt"]
    layout = gen.box(rng.randint(1, 3), cols, rows)
    steps.append({"op": "draw", "layout": layout})
    for _ in range(rng.randint(3, 7 if quick else 10)):
        c = rng.random()
        if c < 0.42:
            layout = mutate(rng, gen, layout)
            steps.append({"op": "draw", "layout": layout})
        elif c < 0.54:
            layout = gen.box(rng.randint(0, 3), cols, rows)
            steps.append({"op": "draw", "layout": layout})
        elif c < 0.56:
            steps.append({"op": "redraw"})
        elif c < 0.63 and cols >= 20:
            # REPAINTS OF UNCHANGED IMAGE VIEWS: a text pane beside the current layout, on the same rows; then
            # only the text changes 1-3 times (a clock / log / status pane): urwid re-sends the rows, no image
            # view vanishes, so the screen sends no delete
            inner = layout[1][1][1] if (layout[0] == "cols" and len(layout[1]) == 2 and layout[1][0][1][0] == "filler"
                                        and layout[1][0][0] == ["given", 5]) else layout
            for n in range(rng.randint(2, 4)):
                layout = beside(inner, n + len(steps), rows)
                steps.append({"op": "draw", "layout": layout})
        elif c < 0.69:
            # the public clear_images(): all images or some of the widgets (distinct), at once or
            # queued, then a redraw of the unchanged layout (a new canvas object whose image rows
            # are byte-identical but for the disguise) or of a changed one.  At most ONE call
            # between two redraws: the disguise has three states (count hypothesis of no_ghosts)
            k = rng.choice([0, 0, 1, 1, 2])
            steps.append({"op": "api", "slots": rng.sample(names, min(k, len(names))), "now": rng.random() < 0.5})
            if rng.random() < 0.3:
                layout = mutate(rng, gen, layout)
            if layout[0] == "img":
                # the image widget itself on top: its cached canvas would be the very object drawn last (not a
                # redraw: urwid returns early); a one-item Pile paints the same screen with a new canvas object
                layout = ["pile", [[["weight", 1], layout]]]
            steps.append({"op": "draw", "layout": layout})
        elif c < 0.72:
            steps.append({"op": "clear"})
            steps.append({"op": rng.choice(["redraw", "draw"]), "layout": layout})
        elif c < 0.76:
            # another session: possibly after other output on the terminal, possibly as a new screen
            # object, started with or without the alternate buffer
            steps.append({"op": "stop"})
            if ksup and rng.random() < 0.6:
                steps.append(gen_pre(rng, term, cols, rows))
            fresh = rng.random() < 0.25
            if fresh:
                steps.append({"op": "newscreen"})
            steps.append(gen_start(rng))
            # the first redraw of the new session: a new canvas, or (same screen object, same mode) the very
            # canvas object drawn last in the previous session
            again = not fresh and steps[-1]["alt"] == mode and rng.random() < 0.3
            mode = steps[-1]["alt"]
            steps.append({"op": "redraw"} if again else {"op": "draw", "layout": layout})
        elif c < 0.82:
            nme = rng.choice(names)
            steps.append({"op": "new", "slot": nme, "spec": gen_spec(rng, rng.choice(KINDS[term]) if ksup else "block", True)})
            steps.append({"op": "draw", "layout": layout})
        elif c < 0.86:
            # drop a widget that the next layout no longer uses
            layout2 = gen.box(rng.randint(0, 2), cols, rows)
            used = json.dumps(layout2)
            unused = [n for n in names if f'["img", "{n}"]' not in used]
            steps.append({"op": "draw", "layout": layout2})
            layout = layout2
            if unused and len(names) > 1:
                nme = rng.choice(unused)
                steps.append({"op": "del", "slot": nme})
                steps.append({"op": "new", "slot": nme, "spec": gen_spec(rng, rng.choice(KINDS[term]) if ksup else "block", True)})
        elif c < 0.89:
            steps.append({"op": "draw_bad", "layout": layout, "how": gen_how(rng, rows, mode)})
            steps.append({"op": "clear"})
            steps.append({"op": "draw", "layout": layout})
        elif c < 0.96:
            # a terminal resize signal arrives and redraws are attempted before the main loop handles it:
            # urwid skips the drawing (the library's bookkeeping runs); then the resize is handled and
            # the view drawn before comes back - as the very canvas object drawn before (urwid's canvas
            # cache: nothing was invalidated), or rendered anew - and changes again
            keep = f"k{len(steps)}"
            steps.append({"op": "draw", "layout": layout, "save": keep})
            steps.append({"op": "winch"})
            other = layout
            for _ in range(rng.randint(1, 2)):
                other = mutate(rng, gen, other) if rng.random() < 0.5 else gen.box(rng.randint(0, 2), cols, rows)
                steps.append({"op": "draw", "layout": other})
                if rng.random() < 0.15:
                    steps.append({"op": "api", "slots": [], "now": rng.random() < 0.5})
                    break
            steps.append({"op": "resize"})
            c2 = rng.random()
            if c2 < 0.55:
                steps.append({"op": "redraw", "use": keep})
            elif c2 < 0.8:
                steps.append({"op": "draw", "layout": layout})
            else:
                layout = other
                steps.append({"op": "draw", "layout": layout})
            layout = other if rng.random() < 0.5 else mutate(rng, gen, layout)
            steps.append({"op": "draw", "layout": layout})
        else:
            # a redraw in which the base class' draw_screen raises (at once / while reading the canvas /
            # at one of its writes), and the application carries on: the same canvas object again, a new
            # canvas, or the canvas object that reached the terminal last
            keep = f"k{len(steps)}"
            layout = fresh_canvas(layout)
            steps.append({"op": "draw", "layout": layout, "save": keep})
            other = fresh_canvas(mutate(rng, gen, layout) if rng.random() < 0.6 else gen.box(rng.randint(0, 2), cols, rows))
            steps.append({"op": "draw_bad", "layout": other, "how": gen_how(rng, rows, mode)})
            c2 = rng.random()
            if c2 < 0.3:
                steps.append({"op": "redraw"})
                layout = other
            elif c2 < 0.75:
                layout = fresh_canvas(mutate(rng, gen, other))
                steps.append({"op": "draw", "layout": layout})
            else:
                # urwid returns at once (its screen buffer holds this very canvas object); the failed redraw
                # and this call's bookkeeping have changed disguises twice: a third change would restore the
                # bytes (the count hypothesis), so the screen is cleared before the next redraw
                steps.append({"op": "redraw", "use": keep})
                steps.append({"op": "clear"})
                layout = mutate(rng, gen, layout)
                steps.append({"op": "draw", "layout": layout})
    steps.append({"op": "stop"})
    case = {"term": term, "ksup": ksup, "size": [cols, rows], "z_start": z_start, "slots": slots, "steps": steps,
            "ident": ident}
    assert in_domain(case), case
    return case


# boundary sessions that run first (committed corpus)
def corpus():
    K = {"kind": "kitty", "img": 2, "upscale": True}
    K0 = {"kind": "kitty", "img": 0, "upscale": True}
    I = {"kind": "iterm2", "img": 3, "upscale": True}
    B = {"kind": "block", "img": 4, "upscale": True}
    S, E = {"op": "start", "alt": True}, {"op": "stop"}

    def d(L):
        return {"op": "draw", "layout": L}

    def ov(h, top=0, left=5, w=6, topw=None, bottom=None):
        return ["overlay", topw or ["fill", "x"], bottom or ["img", "a"], "left", w, "top", h, left, top]

    three = ["listbox", [["pile", [["pack", ["img", "a"]], ["pack", ["divider"]]] * 3]], 0, 0]
    cases = []
    for term in ("kitty", "konsole", "other"):
        base = {"term": term, "ksup": True, "size": [20, 10], "z_start": None}
        # an overlay growing by one row: three views of one widget vanish at once
        cases.append(dict(base, slots={"a": K}, steps=[S, d(ov(3)), d(ov(4)), d(ov(4, 1)), d(ov(2, 3)), E]))
        cases.append(dict(base, slots={"a": K0}, steps=[S, d(ov(3)), d(ov(4)), d(ov(5)), d(ov(6)), E]))
        # the top-most widget is replaced by a SolidFill / a text / is the image widget itself
        cases.append(dict(base, slots={"a": K}, steps=[S, d(["filler", ["img", "a"], "top"]), d(["fill", "y"]),
                                                       d(["filler", ["img", "a"], "top"]), E]))
        cases.append(dict(base, slots={"a": K}, steps=[S, d(["img", "a"]), d(["filler", ["text", "hello"], "top"]),
                                                       d(["img", "a"]), d(["fill", "."]), E]))
        # the same widget three times in a list box, scrolled; then clear + redraw
        cases.append(dict(base, slots={"a": K0}, steps=[S, d(three), d(three[:2] + [0, 50]), d(three[:2] + [0, 100]),
                                                        {"op": "clear"}, {"op": "redraw"}, E]))
        # columns: the same widget three times side by side, pushed down by one row
        row3 = ["cols", [[["weight", 1], ["img", "a"]]] * 3]
        cases.append(dict(base, slots={"a": K0}, steps=[
            S, d(["pile", [["pack", ["text", "t"]], [["weight", 1], row3]]]),
            d(["pile", [["pack", ["text", "t\nu"]], [["weight", 1], row3]]]), E]))
        # widget replaced by a new one at the same place (z-index reuse after collection)
        cases.append(dict(base, slots={"a": K0, "b": K0}, steps=[
            S, d(["cols", [[["weight", 1], ["img", "a"]], [["weight", 1], ["img", "b"]]]]),
            d(["fill", "."]), {"op": "del", "slot": "a"}, {"op": "new", "slot": "a", "spec": K0},
            d(["cols", [[["weight", 1], ["img", "a"]], [["weight", 1], ["img", "b"]]]]),
            {"op": "new", "slot": "b", "spec": K}, d(["cols", [[["weight", 1], ["img", "a"]], [["weight", 1], ["img", "b"]]]]), E]))
        # inner draw raises; stop/start
        cases.append(dict(base, slots={"a": K, "b": B}, steps=[
            S, d(ov(3, bottom=["cols", [[["weight", 1], ["img", "a"]], [["given", 6], ["img", "b"]]]])),
            {"op": "draw_bad", "layout": ov(4)}, {"op": "clear"}, d(ov(4)), E, S, d(ov(4)), E]))
    # widgets of UrwidImage and of subclasses of it alive together (one allocator for the whole
    # class tree): stacked, the upper one replaced by text; creation / collection interleaved
    def kc(c, img=2):
        return {"kind": "kitty", "img": img, "upscale": True, "cls": c}

    def stack(*names):
        return ["pile", [["pack", ["img", n]] if n != "-" else ["pack", ["text", "gone"]] for n in names]
                + [[["weight", 1], ["fill", "."]]]]
    for term in ("kitty", "konsole", "other"):
        base = {"term": term, "ksup": True, "size": [20, 12], "z_start": None}
        cases.append(dict(base, slots={"a": kc(0), "b": kc(1), "c": kc(0, 3)},
                          steps=[S, d(stack("b", "c")), d(stack("-", "c")), d(stack("a", "c")), E]))
        cases.append(dict(base, slots={"a": kc(1), "b": kc(0), "c": kc(2), "d": kc(3, 3)},
                          steps=[S, d(stack("a", "b")), d(stack("c", "d")), d(stack("-", "d")),
                                 {"op": "del", "slot": "a"}, {"op": "del", "slot": "b"}, d(stack("c", "d")),
                                 {"op": "new", "slot": "a", "spec": kc(2)}, {"op": "new", "slot": "b", "spec": kc(0)},
                                 {"op": "new", "slot": "e", "spec": kc(3)}, d(stack("a", "b")), d(stack("e", "-")), E]))
    cases.append({"term": "kitty", "ksup": True, "size": [16, 6], "z_start": 2**31 - 2, "slots": {"a": kc(1, 0)},
                  "steps": [S, {"op": "new", "slot": "b", "spec": kc(0, 0)}, {"op": "new", "slot": "c", "spec": kc(2, 0)},
                            {"op": "new", "slot": "d", "spec": kc(3, 0)}, {"op": "new", "slot": "e", "spec": kc(1, 0)},
                            d(["cols", [[["weight", 1], ["img", "a"]], [["weight", 1], ["img", "b"]]]]),
                            {"op": "del", "slot": "c"}, d(["fill", "."]), {"op": "new", "slot": "f", "spec": kc(0, 0)}, E]})
    # a canvas spanning two shards at the right end of its rows (its left neighbour is split into
    # two shards), and below it a row whose views start at its column: the tail of the tall
    # canvas must have expired when the walk reaches that row; the divider then moves
    def tall(w):
        return ["pile", [[["given", 2], ["cols", [[["given", w], ["pile", [[["weight", 1], ["fill", "t"]], [["weight", 1], ["fill", "s"]]]]],
                                                  [["weight", 1], ["fill", "B"]]]]],
                         [["weight", 1], ["cols", [[["given", w], ["fill", "|"]], [["given", 8], ["img", "a"]],
                                                   [["weight", 1], ["fill", "."]]]]]]]
    for term in ("kitty", "konsole", "other"):
        base = {"term": term, "ksup": True, "size": [30, 8], "z_start": None}
        cases.append(dict(base, slots={"a": K0}, steps=[S, d(tall(4)), d(tall(15)), d(tall(17)), d(tall(4)), E]))
    # the public clear_images(): everything / one widget / two widgets, immediately / queued, each
    # followed by a redraw of the unchanged layout, then of a changed one
    def api(slots, now):
        return {"op": "api", "slots": slots, "now": now}
    for term in ("kitty", "konsole", "other"):
        base = {"term": term, "ksup": True, "size": [20, 12], "z_start": None}
        lay = ["pile", [["pack", ["text", "t"]], ["pack", ["img", "a"]], ["pack", ["img", "b"]], [["weight", 1], ["fill", "."]]]]
        lay2 = ["pile", [["pack", ["text", "t2"]], ["pack", ["img", "a"]], ["pack", ["img", "b"]], [["weight", 1], ["fill", "."]]]]
        second = {"kind": "iterm2" if term == "konsole" else "kitty", "img": 3, "upscale": True, "cls": 1}
        cases.append(dict(base, slots={"a": K, "b": second},
                          steps=[S, d(lay), api([], True), d(lay), api([], False), d(lay2), api(["a"], True), d(lay2),
                                 api(["a", "b"], False), d(lay), api(["b"], True), d(lay2), api([], True), d(lay2),
                                 api([], True), {"op": "clear"}, d(lay2), E]))
    kon = {"term": "konsole", "ksup": True, "size": [24, 10], "z_start": None}
    both = ["cols", [[["weight", 1], ["img", "a"]], [["weight", 1], ["img", "b"]]]]
    cases.append(dict(kon, slots={"a": K, "b": I}, steps=[S, d(both), d(ov(3, bottom=both)), d(ov(4, 1, bottom=both)),
                                                           d(["fill", "."]), d(both), E]))
    cases.append(dict(kon, slots={"a": I, "b": I}, steps=[S, d(both), d(["cols", [[["weight", 1], ["img", "a"]], [["weight", 1], ["text", "t"]]]]),
                                                           d(["img", "b"]), d(["filler", ["text", "x"], "top"]), E]))
    # exhaustion of the z-index range
    for zs in (2**31 - 1, -(2**31 - 1), 2**31):
        cases.append({"term": "kitty", "ksup": True, "size": [16, 6], "z_start": zs, "slots": {"a": K0 if zs != 2**31 else B},
                      "steps": [S, {"op": "new", "slot": "b", "spec": K0}, {"op": "new", "slot": "c", "spec": K0},
                                d(["cols", [[["weight", 1], ["img", "a"]], [["weight", 1], ["fill", "."]]]]),
                                {"op": "del", "slot": "a"}, d(["fill", "."]), {"op": "new", "slot": "d", "spec": K0},
                                {"op": "new", "slot": "e", "spec": K0}, E]})
    # every way the screen is started: without the alternate buffer (urwid's inline mode) on a
    # terminal that already shows images (placed at the top left, printed by the library with the
    # LINES and the WHOLE method), clear() + redraw, a second session with the alternate buffer after
    # more output, a third one inline again; a new screen object; another full-screen program's
    # alternate buffer; clear() + redraw of the same canvas object, then a move, inline
    def st(alt):
        return {"op": "start", "alt": alt}

    def pre(*items):
        return {"op": "pre", "items": [list(i) for i in items]}
    for term in ("kitty", "konsole", "other"):
        base = {"term": term, "ksup": True, "size": [20, 10], "z_start": None}
        lay = ["pile", [["pack", ["text", "t"]], ["pack", ["img", "a"]], [["weight", 1], ["fill", "."]]]]
        lay2 = ["pile", [["pack", ["text", "t\nu"]], ["pack", ["img", "a"]], [["weight", 1], ["fill", "."]]]]
        im2 = ["image", "iterm2" if term == "konsole" else "kitty", 3, 8, "1.1+W"]
        cases.append(dict(base, slots={"a": K}, steps=[
            pre(("raw", 0, 0, 6, 1, 0), ("image", "kitty", 0, 6, "1.1"), ("text", "$ python app.py\n")),
            st(False), d(lay), {"op": "clear"}, {"op": "redraw"}, d(lay2), E,
            pre(im2, ("raw", 2, 3, 4, 2, 1)), st(True), d(lay), d(lay2), E,
            st(False), d(lay2), d(lay), E]))
        if term != "other":
            cases.append(dict(base, slots={"a": K0}, steps=[
                st(True), d(lay), E, pre(("image", "kitty", 2, 5, "1.1+Lz1"), ("raw", 1, 0, 20, 3, -1)), {"op": "newscreen"},
                st(False), d(lay), d(lay2), E, {"op": "newscreen"}, pre(("raw", 0, 0, 3, 1, 2**31 - 1)), st(True), d(lay2), E]))
        if term == "kitty":
            cases.append(dict(base, slots={"a": K}, steps=[
                pre(("alt", True), ("raw", 1, 1, 5, 2, 0), ("alt", False), ("raw", 4, 2, 5, 1, 3)),
                st(True), d(lay), E, st(False), d(["img", "a"]), {"op": "clear"}, {"op": "redraw"}, d(ov(3)), d(ov(3, 1)), E]))
    # every valid widget: format specifiers with a z-index field (documented as ignored by widgets; two widgets
    # with the same one), the other style-specific fields, alignments, alpha; the widgets move, cover each
    # other's previous place, disappear
    def kf(fmt, img=2, cls=0, kind="kitty", upscale=True):
        return {"kind": kind, "img": img, "upscale": upscale, "cls": cls, "fmt": fmt}
    for term in ("kitty", "konsole", "other"):
        base = {"term": term, "ksup": True, "size": [20, 12], "z_start": None}
        cases.append(dict(base, slots={"a": kf("+z5"), "b": kf("+z5", 3, 1)},
                          steps=[S, d(stack("a", "b")), d(stack("-", "a", "b")), d(stack("b", "-")), d(stack("-", "-")), E]))
        second = kf("+Wm1c9", 3, 0, "iterm2") if term == "konsole" else kf(">.^#+Lz1m1c0", 3, 2)
        cases.append(dict(base, slots={"a": kf("<._#.3+z-1c0", 4, 0, "kitty", False), "b": second, "c": kf("|.-##")},
                          steps=[S, d(["cols", [[["weight", 1], ["img", "a"]], [["weight", 1], ["img", "b"]]]]),
                                 d(["cols", [[["weight", 1], ["img", "b"]], [["weight", 1], ["img", "c"]]]]),
                                 d(["pile", [["pack", ["text", "t"]], [["weight", 1], ["img", "a"]]]]),
                                 {"op": "new", "slot": "b", "spec": kf("+z2147483647")}, d(stack("b", "c")), d(stack("c")), E]))
    # redraws that urwid aborts or short-circuits.  A popup-like view B (without the image / with the image
    # moved) is shown and dismissed while a terminal resize is pending: SIGWINCH, redraw of B (urwid skips the
    # drawing), the resize is handled, the very canvas object of view A drawn before is drawn again (cached:
    # nothing was invalidated), then B; the same with the base class' draw raising instead (at once, inside
    # content(), at a write), followed by the failed canvas again / a new canvas / the canvas drawn last
    def dk(L, name):
        return {"op": "draw", "layout": L, "save": name}

    def bad(L, how):
        return {"op": "draw_bad", "layout": L, "how": how}
    W_, R_ = {"op": "winch"}, {"op": "resize"}
    for term in ("kitty", "konsole", "other"):
        base = {"term": term, "ksup": True, "size": [20, 12], "z_start": None}
        img = K if term != "konsole" else I
        va = ["pile", [[["given", 5], ["img", "a"]], [["weight", 1], ["fill", "."]]]]
        vm = ["pile", [[["given", 3], ["fill", "-"]], [["given", 5], ["img", "a"]], [["weight", 1], ["fill", "."]]]]
        vb = ["fill", "#"]
        cases.append(dict(base, slots={"a": img}, steps=[
            S, dk(va, "A"), W_, d(vb), R_, {"op": "redraw", "use": "A"}, d(vb),
            dk(va, "A2"), W_, d(vm), d(vb), R_, {"op": "redraw", "use": "A2"}, d(vm), W_, d(va), R_, d(va), d(vb), E]))
        cases.append(dict(base, slots={"a": K, "b": img}, steps=[
            {"op": "start", "alt": False}, dk(stack("a", "b"), "A"), W_, d(stack("-", "b")), api([], True), R_, d(stack("-", "b")),
            W_, {"op": "redraw", "use": "A"}, R_, {"op": "redraw", "use": "A"}, d(stack("b", "-")), E]))
        cases.append(dict(base, slots={"a": img}, steps=[
            S, dk(va, "A"), bad(vb, "size"), {"op": "redraw"}, d(va), bad(vm, ["content", 4]), d(vm), d(va),
            bad(vb, ["write", 5]), d(va), d(vb), dk(va, "A3"), bad(vb, ["content", 0]), {"op": "redraw", "use": "A3"}, {"op": "clear"}, d(va), d(vb), E]))
    # kitty protocol unsupported: nothing is written
    cases.append({"term": "other", "ksup": False, "size": [16, 6], "z_start": None, "slots": {"a": B},
                  "steps": [S, d(["img", "a"]), d(["fill", "."]), {"op": "clear"}, {"op": "redraw"}, E]})
    # EVERY TERMINAL IDENTITY x repaints of unchanged image views: a text pane beside the image (same rows) ticks
    # three times - urwid re-sends the rows, no view vanishes; two widgets side by side with the pane; the pane
    # above the image (other rows: nothing re-sent); then the image moves (deleted by z-index) and ticks again
    for term in ("kitty", "konsole", "other"):
        for ident in IDENTS[term]:
            base = {"term": term, "ksup": True, "size": [24, 8], "z_start": None, "ident": ident}
            one = ["img", "a"]
            two = ["cols", [[["weight", 1], ["img", "a"]], [["weight", 1], ["img", "b"]]]]
            cases.append(dict(base, slots={"a": K}, steps=[S] + [d(beside(one, n, 8)) for n in range(4)] + [E]))
            if ident != IDENTS[term][1 if term == "kitty" else 0]:
                continue      # the other sessions: kitty 0.25.0, Konsole, forced support on "wezterm"
            cases.append(dict(base, slots={"a": K, "b": K0 if term != "konsole" else I},
                              steps=[S] + [d(beside(two, n, 8)) for n in range(3)]
                              + [d(beside(["pile", [["pack", ["text", "v"]], [["weight", 1], two]]], n, 8)) for n in range(3, 5)] + [E]))
            cases.append(dict(base, slots={"a": K}, steps=[S] + [
                d(["pile", [["pack", ["text", f"tick {n}"]], [["weight", 1], one]]]) for n in range(3)] + [E]))
            # without the alternate buffer, and after clear()
            cases.append(dict(base, slots={"a": K0}, steps=[{"op": "start", "alt": False}, d(beside(one, 0, 8)), d(beside(one, 1, 8)),
                                                            {"op": "clear"}, d(beside(one, 2, 8)), d(beside(one, 3, 8)), E]))
    return cases


def enum_abort_cases():
    """thorough tier: EVERY sequence of 4 (kitty terminal) / 3 (an iTerm2 image on Konsole; inline mode) operations
    out of: the kept canvas object of view A again, view A rendered anew, view B (no image), view M (the image
    moved), SIGWINCH, resize handled, a redraw of B raising at once, a redraw of M raising inside content() -
    after view A (one image) was drawn and its canvas kept; those within the count hypothesis (in_domain)"""
    import itertools
    va = ["pile", [[["given", 3], ["img", "a"]], [["weight", 1], ["fill", "."]]]]
    vm = ["pile", [[["given", 2], ["fill", "-"]], [["given", 3], ["img", "a"]], [["weight", 1], ["fill", "."]]]]
    vb = ["fill", "#"]
    ops = {"a": {"op": "redraw", "use": "A"}, "n": {"op": "draw", "layout": va}, "b": {"op": "draw", "layout": vb},
           "m": {"op": "draw", "layout": vm}, "w": {"op": "winch"}, "r": {"op": "resize"},
           "x": {"op": "draw_bad", "layout": vb, "how": "size"}, "y": {"op": "draw_bad", "layout": vm, "how": ["content", 2]}}
    out = []
    for term, kind, alt, n in (("kitty", "kitty", True, 4), ("konsole", "iterm2", True, 3), ("other", "kitty", False, 3)):
        for word in itertools.product("anbmwrxy", repeat=n):
            steps = [{"op": "start", "alt": alt}, {"op": "draw", "layout": va, "save": "A"}] + [ops[ch] for ch in word] + [{"op": "stop"}]
            case = {"term": term, "ksup": True, "size": [12, 8], "z_start": None,
                    "slots": {"a": {"kind": kind, "img": 2, "upscale": True, "cls": 0, "fmt": ""}}, "steps": steps}
            if in_domain(case):
                out.append(case)
    return out


# ------------------------------------------------------------------ encoding


def b(x):
    return "true" if x else "false"


def kind_term(k):
    if k[0] == "plain":
        return "CPlain"
    wid = k[1]
    if k[2] == "kitty":
        return f"(CImage {wid} (WKitty {core.z(k[3])}))"
    return f"(CImage {wid} {'WIterm' if k[2] == 'iterm' else 'WText'})"


def canv_term(ref):
    return f"(mk_canv {ref['id']} {kind_term(ref['kind'])})"


class Encoder:
    def __init__(self, case, result):
        self.case = case
        self.res = result
        self.canvs = {}     # canvas id -> ref
        ns = len(case.get("slots", {}))
        self.now = {ns + j: bool(st.get("now")) for j, st in enumerate(case["steps"]) if st["op"] == "api"}
        self.alt = {ns + j: bool(st.get("alt", True)) for j, st in enumerate(case["steps"]) if st["op"] == "start"}
        self.lex_errors = []

    def toks(self, s, what):
        try:
            return c18lex.coq_toks(c18lex.lex(s))
        except c18lex.LexError as e:
            self.lex_errors.append(f"{what}: {e}")
            return "[]"

    def btoks(self, s, what):
        """what was written to the terminal: tokens of the two-buffer terminal"""
        try:
            return c18lex.coq_btoks(c18lex.lex(s))
        except c18lex.LexError as e:
            self.lex_errors.append(f"{what}: {e}")
            return "(bts [])"

    def note_canvs(self, lay):
        if lay.get("composite"):
            for _n, cells in lay["bands"]:
                for c in cells:
                    if c[0] == "new":
                        self.canvs[c[5]["id"]] = c[5]
        else:
            self.canvs[lay["canv"]["id"]] = lay["canv"]

    def view_term(self, v):
        ref = self.canvs.get(v[0], {"id": v[0], "kind": ["plain"]})
        return f"(mk_view {canv_term(ref)} {v[1]} {v[2]} {v[3]} {v[4]} {v[5]} {v[6]})"

    def obs_term(self, r):
        pair = lambda e: f"({e[0]}%nat, {core.z(e[1])})"  # noqa: E731
        return ("(mk_obs " + core.coq_list(r["freed"], pair) + " " + core.coq_list(r["live_z"], pair) + " "
                + core.coq_list(r["free_set"], core.z) + " " + core.z(r["next_z"]) + " "
                + core.coq_list(r.get("class_state", []), lambda c: f"({core.z(c[0])}, {core.coq_list(c[1], core.z)})")
                + f" {r['cdis']} "
                + core.coq_list(r["wdis"], lambda e: f"({e[0]}, {e[1]})") + " "
                + core.coq_list(r["cviews"], self.view_term)
                + f" {b(r.get('resized'))} {b(r.get('reached'))})")

    def act_term(self, r, i):
        op = r["op"]
        if op in ("draw", "draw_bad", "redraw"):
            lay = r["layout"]
            self.note_canvs(lay)
            if lay["composite"]:
                shards = core.coq_list(lay["shards"], lambda sh: f"({sh[0]}, " + core.coq_list(
                    sh[1], lambda cv: f"mk_cview {cv[0]} {cv[1]} {cv[2]} {cv[3]} {canv_term(self.canvs[cv[4]])}") + ")")
                canvas = f"(Composite {lay['id']} {shards})"

                def cell(c):
                    if c[0] == "new":
                        return f"CNew (mk_cview {c[1]} {c[2]} {c[3]} {c[4]} {canv_term(c[5])})"
                    return f"CCont {c[1]} {c[2]}"
                layout = core.coq_list(lay["bands"], lambda bd: f"({bd[0]}, " + core.coq_list(bd[1], cell) + ")")
            else:
                canvas = f"(Single {canv_term(lay['canv'])} {lay['cols']} {lay['rows']})"
                layout = "[]"
            truth = core.coq_list(r.get("rows", []), lambda row: self.toks(row, f"step {i} canvas row"))
            return (f"(XDraw {canvas} {layout} {b(op == 'draw_bad')} {b('exc' in r)} "
                    f"{self.btoks(r['out'], f'step {i} output')} {truth})")
        if op == "start":
            return f"(XStart {b(self.alt[i])} {self.btoks(r['out'], f'step {i} output')})"
        if op in ("clear", "stop"):
            return f"(X{op.capitalize()} {self.btoks(r['out'], f'step {i} output')})"
        if op == "pre":
            return f"(XPre {self.btoks(r['out'], f'step {i} earlier output')})"
        if op == "newscreen":
            return "XNewScreen"
        if op == "winch":
            return f"(XWinch {self.btoks(r['out'], f'step {i} output')})"
        if op == "resize":
            return f"(XResized {self.btoks(r['out'], f'step {i} output')})"
        if op == "api":
            if r.get("api_skipped"):
                return "XDel"

            def wk(e):
                if e[1] == "kitty":
                    return f"({e[0]}, WKitty {core.z(e[2])})"
                return f"({e[0]}, {'WIterm' if e[1] == 'iterm2' else 'WText'})"
            return (f"(XApi {core.coq_list(r['api'], wk)} {b(self.now[i])} "
                    f"{self.btoks(r.get('tty', ''), f'step {i} terminal-device output')} "
                    f"{self.btoks(r['out'], f'step {i} output')})")
        if op == "new":
            a = r["alloc"]
            if a[0] == "raised":
                return "(XNew 0 true None)"
            return f"(XNew {a[1]} {b(a[2] == 'kitty')} " + (f"(Some {core.z(a[3])})" if a[3] is not None else "None") + ")"
        return "XDel"

    def term(self):
        steps = []
        for i, r in enumerate(self.res["steps"]):
            if "abort" in r:
                break
            steps.append(f"(mk_step {self.act_term(r, i)} {self.obs_term(r)})")
        kon = self.case["term"] == "konsole"
        z0 = self.case.get("z_start") or 1
        return (f"mk_case {b(kon)} {b(self.case.get('ksup', True))} {b(kon)} 400 {core.z(z0)} {ident_term(self.case)} "
                + core.coq_list(steps))


def describe_layout(L):
    k = L[0]
    if k == "img":
        return f"img:{L[1]}"
    if k == "text":
        return "text"
    if k in ("fill", "divider"):
        return k
    if k in ("pile", "cols"):
        return f"{k}(" + ",".join(describe_layout(c[1]) for c in L[1]) + ")"
    if k == "overlay":
        return f"overlay[{L[4]}x{L[6]}@{L[7]},{L[8]}]({describe_layout(L[1])} over {describe_layout(L[2])})"
    if k == "listbox":
        return f"listbox@{L[2]}/{L[3]}(" + ",".join(describe_layout(c) for c in L[1]) + ")"
    return f"{k}({describe_layout(L[1])})"


def describe_spec(name, sp):
    return (f"{name}:{sp['kind']}#{sp['img']}{CLASS_NAME.get(sp.get('cls', 0), '')}"
            + (f"[format_spec={sp['fmt']!r}]" if sp.get("fmt") else "") + ("" if sp.get("upscale", True) else "[upscale=False]"))


def describe_how(st):
    how = st.get("how", "size")
    if how == "size":
        return "(base draw raises: wrong size)"
    if how[0] == "content":
        return f"(base draw raises: canvas content() fails at row {how[1]})"
    return f"(base draw raises: OSError at its write #{how[1]})"


def describe(case, upto=None):
    s = (f"term={case['term']} ({describe_ident(case)}) size={case['size'][0]}x{case['size'][1]}"
         + ("" if case.get("ksup", True) else " kitty-unsupported"))
    if case.get("z_start"):
        s += f" z_start={case['z_start']}"
    s += " widgets{" + ",".join(describe_spec(n, sp) for n, sp in case["slots"].items()) + "} :: "
    parts = []
    for st in case["steps"][: (upto + 1 if upto is not None else None)]:
        if st["op"] in ("draw", "draw_bad"):
            parts.append(f"{st['op']}{describe_how(st) if st['op'] == 'draw_bad' else ''} {describe_layout(st['layout'])}"
                         + (f" [canvas kept as {st['save']}]" if st.get("save") else ""))
        elif st["op"] == "redraw":
            parts.append(f"redraw of the canvas object kept as {st['use']}" if st.get("use") else "redraw")
        elif st["op"] == "winch":
            parts.append("SIGWINCH (resize pending)")
        elif st["op"] == "resize":
            parts.append("get_input() -> 'window resize' (resize handled)")
        elif st["op"] == "new":
            parts.append("new " + describe_spec(st["slot"], st["spec"]))
        elif st["op"] == "del":
            parts.append(f"del {st['slot']}")
        elif st["op"] == "api":
            parts.append(f"clear_images({','.join(st.get('slots', []))}{',' if st.get('slots') else ''}now={bool(st.get('now'))})")
        elif st["op"] == "start":
            parts.append("start(alternate_buffer=%s)" % bool(st.get("alt", True)))
        elif st["op"] == "pre":
            def item(it):
                if it[0] == "raw":
                    return f"kitty placement {it[3]}x{it[4]} z={it[5]} at row {it[1]} col {it[2]}"
                if it[0] == "image":
                    return f"print({it[1]} image#{it[2]} width={it[3]} :{it[4]})"
                if it[0] == "alt":
                    return "enter alternate buffer" if it[1] else "leave alternate buffer"
                return "text"
            parts.append("earlier output on the terminal [" + ", ".join(item(it) for it in st.get("items", [])) + "]")
        elif st["op"] == "newscreen":
            parts.append("new UrwidImageScreen object")
        else:
            parts.append(st["op"])
    return s + " ; ".join(parts)


HEADER = ("From Coq Require Import List ZArith Bool.\nImport ListNotations.\n"
          "From TI Require Import lib.Term model.Screen model.ScreenSession model.ScreenBlend model.ScreenTie.\nOpen Scope nat_scope.\n")


def evaluate(cases, errors, prefix="c18"):
    """-> list of (code, reason, step) per case (None when the case could not be judged), results"""
    results = core.run_impl_parallel("impl_c18.py", cases)
    terms, owner = [], []
    verdicts = [None] * len(cases)
    for ci, (c, r) in enumerate(zip(cases, results)):
        if r.get("abort"):
            errors.append(f"driver aborted: {describe(c)}: {r['abort'][:300]}")
            continue
        ab = [s for s in r["steps"] if "abort" in s]
        if ab:
            verdicts[ci] = ("invalid", ab[0]["abort"][:200])
            continue
        if any(s.get("whole_trimmed") for s in r["steps"]):
            # a widget rendering with the WHOLE method in a place where its canvas is trimmed: the
            # documentation requires a method that splits the image across lines there
            verdicts[ci] = ("outside", "canvas of a WHOLE-method image trimmed")
            continue
        enc = Encoder(c, r)
        t = enc.term()
        if enc.lex_errors:
            verdicts[ci] = ("lex", enc.lex_errors[0])
            continue
        owner.append(ci)
        terms.append(t)
    if terms:
        # about 150 kB of terms per shard (12 big sessions; many more of the small enumerated ones)
        avg = max(1, sum(len(t) for t in terms) // len(terms))
        bad, errs = core.coq_shards(prefix, HEADER, terms, "tcase", "bad cases", shard=min(200, max(12, 150000 // avg)))
        errors += [e[-600:] for e in errs[:3]]
        if not errs:
            for k in range(len(terms)):
                verdicts[owner[k]] = (0, 0, 0)
            for k, v in bad:
                verdicts[owner[k]] = (v % 10, (v // 10) % 100, v // 1000)
    return verdicts, results


def nsetup(case):
    return len(case.get("slots", {}))


def shrink_candidates(case, fail_step):
    """smaller sessions: cut after the failing step, drop one step, drop a widget, simplify a layout"""
    steps = case["steps"]
    cut = fail_step - nsetup(case)
    out = []
    if cut < 0:
        # failed while the session's widgets were being constructed: no step is needed, nor
        # are the widgets constructed after the failing one; then try without each earlier one
        names = list(case["slots"])
        keep = names[: fail_step + 1]
        out.append(dict(case, steps=[], slots={k: case["slots"][k] for k in keep}))
        for n in keep[:-1]:
            out.append(dict(case, steps=[], slots={k: case["slots"][k] for k in keep if k != n}))
        return out
    if 0 <= cut < len(steps) - 1:
        out.append(dict(case, steps=steps[: cut + 1]))
    base = steps[: cut + 1] if 0 <= cut < len(steps) else steps
    for i in range(len(base)):
        out.append(dict(case, steps=base[:i] + base[i + 1:]))
        # several consecutive steps at once (an episode: SIGWINCH ... resize handled, draw_bad + clear + draw)
        for n in (2, 3, 4, 6):
            if i + n <= len(base) - 1:
                out.append(dict(case, steps=base[:i] + base[i + n:]))
        # a whole stop ... start stretch (one session boundary) at once
        if base[i]["op"] == "stop":
            for j in range(i + 1, len(base)):
                if base[j]["op"] == "start":
                    out.append(dict(case, steps=base[:i] + base[j + 1:]))
                    break
        if base[i]["op"] == "pre" and len(base[i]["items"]) > 1:
            for k in range(len(base[i]["items"])):
                out.append(dict(case, steps=base[:i] + [dict(base[i], items=base[i]["items"][:k] + base[i]["items"][k + 1:])]
                                + base[i + 1:]))
    for i, st in enumerate(base):
        if st["op"] in ("draw", "draw_bad"):
            for sub in sub_layouts(st["layout"]):
                out.append(dict(case, steps=base[:i] + [dict(st, layout=sub)] + base[i + 1:]))
    for n, sp in case["slots"].items():
        if sp.get("fmt"):
            out.append(dict(case, steps=base, slots=dict(case["slots"], **{n: dict(sp, fmt="")})))
            if "+" in sp["fmt"] and not sp["fmt"].startswith("+"):
                out.append(dict(case, steps=base, slots=dict(case["slots"], **{n: dict(sp, fmt="+" + sp["fmt"].partition("+")[2])})))
    for i, st in enumerate(base):
        if st["op"] == "new" and st["spec"].get("fmt"):
            out.append(dict(case, steps=base[:i] + [dict(st, spec=dict(st["spec"], fmt=""))] + base[i + 1:]))
        if st["op"] == "draw_bad" and st.get("how", "size") != "size":
            out.append(dict(case, steps=base[:i] + [dict(st, how="size")] + base[i + 1:]))
    used = json.dumps(base)
    for n in list(case["slots"]):
        if f'["img", "{n}"]' not in used and len(case["slots"]) > 1:
            out.append(dict(case, steps=base, slots={k: v for k, v in case["slots"].items() if k != n}))
    return out


def sub_layouts(L):
    k = L[0]
    subs = []
    if k in ("pile", "cols"):
        for i in range(len(L[1])):
            if len(L[1]) > 1:
                rest = L[1][:i] + L[1][i + 1:]
                if k == "cols" or any(it[0] != "pack" for it in rest):
                    subs.append([k, rest] + L[2:])
            for s in sub_layouts(L[1][i][1]):
                subs.append([k, L[1][:i] + [[L[1][i][0], s]] + L[1][i + 1:]] + L[2:])
    elif k == "overlay":
        subs.append(L[2])
        for s in sub_layouts(L[2]):
            subs.append(L[:2] + [s] + L[3:])
        if L[1] != ["fill", "x"]:
            subs.append([L[0], ["fill", "x"]] + L[2:])
    elif k == "listbox":
        for i in range(len(L[1])):
            if len(L[1]) > 1:
                subs.append([k, L[1][:i] + L[1][i + 1:], min(L[2], len(L[1]) - 2), L[3]])
    elif k in ("linebox", "filler", "padding", "boxadapter"):
        for s in sub_layouts(L[1]):
            subs.append([k, s] + L[2:])
    return subs


def valid_session(case):
    """start only a stopped screen, stop / draw / clear only a started one; other programs write
    to the terminal, and the screen object is replaced, only while the screen is stopped"""
    started = False
    for st in case["steps"]:
        op = st["op"]
        if op == "start":
            if started:
                return False
            started = True
        elif op == "stop":
            if not started:
                return False
            started = False
        elif op in ("pre", "newscreen"):
            if started:
                return False
        elif op in ("draw", "draw_bad", "redraw", "clear", "api", "winch", "resize"):
            if not started:
                return False
    return True


def in_domain(case):
    """the domain of no_ghosts: the COUNT hypothesis - the disguise has three states, so at most two
    changes of disguise may hit an image line between two writes of its row, the redraw's own included:
    at most one public clear_images() call between two redraws, and at most one disguise-changing event
    (such a call, or a redraw aborted by an exception, whose bookkeeping deletes and changes disguises
    although nothing is drawn) since urwid's screen buffer was written, when a redraw compares rows
    with it; after a public clear_images() call the next redraw is one of a NEW canvas object (urwid
    returns early, writing nothing, when it is handed the very canvas object it drew last)"""
    if not valid_session(case):
        return False
    apis = 0             # public clear_images() calls since the last redraw
    bumps = 0            # disguise-changing events since urwid's screen buffer was written
    sb_valid = False     # urwid holds a screen buffer to compare rows with
    resizing = False     # a SIGWINCH arrived and the resize has not been handled
    inline = False
    last = None          # the layout drawn last, when its canvas may be handed to the screen again
    reached = None       # the canvas object urwid's screen buffer holds (a token), while it is valid
    handed = None        # the canvas object handed to draw_screen last
    for i, st in enumerate(case["steps"]):
        op = st["op"]
        if op == "start":
            inline = not st.get("alt", True)
        if op == "draw" and not inline and st["layout"][0] == "img" and st["layout"] == last:
            # the image widget itself as the top-most widget: urwid's canvas cache returns the very canvas
            # object drawn last, so this is the "redraw" of the same canvas object
            op = "redraw"
        if op == "api":
            apis += 1
            bumps += 1
            if apis > 1:
                return False
        elif op in ("draw", "redraw"):
            if op == "draw":
                if st["layout"][0] == "img" and bumps and sb_valid:
                    # the image widget's cached canvas may be the very object urwid drew last
                    return False
                token = ("kept", st["save"]) if st.get("save") else ("anon", i)
            else:
                token = ("kept", st["use"]) if st.get("use") else handed
            if resizing:
                pass                 # urwid does not draw; it has no screen buffer (dropped by the signal)
            elif sb_valid and reached is not None and token == reached:
                # urwid returns at once: nothing is written, the bookkeeping may change disguises again
                if apis and not st.get("use"):
                    return False
                if token != handed:
                    bumps += 1   # (the canvas processed last: the bookkeeping is skipped)
            else:
                if sb_valid and bumps > 1:
                    return False
                sb_valid, bumps, reached = True, 0, token
            apis = 0
            handed = token
        elif op == "draw_bad":
            if inline and st.get("how", "size") != "size" and st["how"][0] == "write":
                return False     # see gen_how
            # the base draw raises: the bookkeeping has run (deletes, disguise changes), urwid's screen
            # buffer is as it was; a public clear_images() call before it stays pending
            bumps += 1
            handed = ("anon", i)
        elif op in ("clear", "stop", "start", "winch", "newscreen"):
            apis, bumps, sb_valid, reached = 0, 0, False, None
        if op == "winch":
            resizing = True
        elif op in ("resize", "newscreen"):
            resizing = False
        if op in ("draw", "draw_bad"):
            last = st["layout"]
        elif op in ("new", "del", "newscreen"):
            last = None if op == "newscreen" else last
    return True


def size_of(case):
    return (len(case["steps"]), len(json.dumps(case["steps"])), len(case["slots"]), len(json.dumps(case["slots"])))



def shrink(case, verdict, errors, rounds=4, t_end=None):
    import time as _time
    code, reason, step = verdict
    best, bv = case, verdict
    for _ in range(rounds):
        if t_end is not None and _time.time() > t_end:
            break
        cands = [c for c in shrink_candidates(best, bv[2]) if size_of(c) < size_of(best) and in_domain(c)]
        if not cands:
            break
        cands = sorted(cands, key=size_of)[:40]
        errs = []
        vs, _ = evaluate(cands, errs, prefix="c18s")
        good = [(c, v) for c, v in zip(cands, vs)
                if v and isinstance(v[0], int) and v[0] >= 2 and v[1] == reason]
        if not good:
            break
        best, bv = min(good, key=lambda cv: size_of(cv[0]))
    return best, bv


def run(ctx):
    errors, mismatches, failures, raw_failing = [], [], [], []
    hist = {"terminal": {}, "terminal_identity": {}, "repaints_of_unchanged_image_views": {"redraws": 0, "image lines re-sent": 0},
            "start_mode": {"alternate buffer": 0, "inline (alternate_buffer=False)": 0},
            "starts_on_a_terminal_holding_placements": {"alternate buffer": 0, "inline (alternate_buffer=False)": 0},
            "sessions_with_both_modes": 0, "new_screen_objects": 0, "earlier_output_items": {},
            "public_clear_images_calls": {}, "widget_format_specs": {"default": 0, "alignment / alpha only": 0}, "widget_format_spec_fields": {},
            "widgets_upscale": {"True": 0, "False": 0},
            "redraws": {"reached the terminal": 0, "aborted: resize pending": 0, "aborted: base draw raised (wrong size)": 0,
                        "aborted: base draw raised (content() failed)": 0, "aborted: base draw raised (OSError at a write)": 0,
                        "short-circuited by urwid (same canvas object)": 0},
            "redraws_of_a_kept_canvas_object": {"after an aborted redraw": 0, "other": 0}, "sigwinch": 0, "resizes_handled": 0,
            "widget_classes": {}, "sessions_mixing_classes": 0, "steps_per_session": {}, "op": {}, "layout_nodes": {}, "widget_kinds": {},
            "verdict": {}, "views_on_screen": {}, "deletes": {"all": 0, "by_z": 0, "cursor": 0},
            "redraws_with_vanished_views": 0, "non_composite_canvases": 0, "image_lines_in_canvases": 0,
            "image_lines_written": 0, "z_freed": 0, "z_reused": 0, "z_exhausted": 0}
    if ctx.replay:
        cases = [ctx.replay["replay"]["case"]]
    else:
        cases = corpus()
        n = 36 if ctx.quick else 400
        for i in range(n):
            cases.append(gen_case(ctx.rng, i, ctx.quick))
        if not ctx.quick:
            cases += enum_abort_cases()
    verdicts, results = evaluate(cases, errors)

    distinct = set()
    invalid = 0
    for ci, (c, r, v) in enumerate(zip(cases, results, verdicts)):
        if v is None:
            continue
        if v[0] == "invalid":
            invalid += 1
            hist["verdict"]["generator-invalid"] = hist["verdict"].get("generator-invalid", 0) + 1
            continue
        if v[0] == "outside":
            hist["verdict"]["outside-documented-use (WHOLE-method image trimmed)"] = \
                hist["verdict"].get("outside-documented-use (WHOLE-method image trimmed)", 0) + 1
            continue
        if v[0] == "lex":
            failures.append({"signature": core.sig({"lex": v[1], "case": c}),
                             "what": f"the screen's output is outside the lexer's language ({v[1]}): {describe(c)}",
                             "replay": {"case": c}})
            continue
        hist["terminal"][c["term"]] = hist["terminal"].get(c["term"], 0) + 1
        idk = " ".join(ident_of(c)) + ("" if c.get("ksup", True) else " (kitty protocol unsupported)")
        hist["terminal_identity"][idk] = hist["terminal_identity"].get(idk, 0) + 1
        ns = len(c["steps"])
        hist["steps_per_session"][ns // 4 * 4] = hist["steps_per_session"].get(ns // 4 * 4, 0) + 1
        specs = list(c["slots"].values()) + [st["spec"] for st in c["steps"] if st["op"] == "new"]
        for sp in specs:
            hist["widget_kinds"][sp["kind"]] = hist["widget_kinds"].get(sp["kind"], 0) + 1
            hist["widgets_upscale"][str(bool(sp.get("upscale", True)))] += 1
            fmt = sp.get("fmt", "")
            style = fmt.partition("+")[2]
            if not fmt:
                hist["widget_format_specs"]["default"] += 1
            elif not style:
                hist["widget_format_specs"]["alignment / alpha only"] += 1
            else:
                key = f"{sp['kind']} style fields"
                hist["widget_format_specs"][key] = hist["widget_format_specs"].get(key, 0) + 1
            import re as _re
            for fld, name in ((r"[LW]", "method"), (r"z-?\d+", "z-index"), (r"m[01]", "mix"), (r"c\d", "compress")):
                m = _re.search(fld, style)
                if m:
                    k2 = f"{name}:{m.group() if name != 'z-index' else ('z0' if m.group() == 'z0' else 'z<n>')}"
                    hist["widget_format_spec_fields"][k2] = hist["widget_format_spec_fields"].get(k2, 0) + 1
            if fmt.partition("+")[0]:
                hist["widget_format_spec_fields"]["alignment/alpha"] = hist["widget_format_spec_fields"].get("alignment/alpha", 0) + 1
            nm = CLASS_NAME.get(sp.get("cls", 0), "") or "/UrwidImage"
            hist["widget_classes"][nm] = hist["widget_classes"].get(nm, 0) + 1
        if len({sp.get("cls", 0) for sp in specs if sp["kind"] == "kitty"}) > 1:
            hist["sessions_mixing_classes"] += 1
        dirty_term = False      # something placed images on the terminal since the last stop / the beginning
        modes = set()
        for st in c["steps"]:
            hist["op"][st["op"]] = hist["op"].get(st["op"], 0) + 1
            if st["op"] == "pre":
                for it in st.get("items", []):
                    key = it[0] if it[0] != "image" else f"image:{it[1]}:{'WHOLE' if it[4].endswith('W') else 'LINES'}"
                    hist["earlier_output_items"][key] = hist["earlier_output_items"].get(key, 0) + 1
                    dirty_term = dirty_term or it[0] in ("raw", "image")
            elif st["op"] == "start":
                mode = "alternate buffer" if st.get("alt", True) else "inline (alternate_buffer=False)"
                modes.add(mode)
                hist["start_mode"][mode] += 1
                if dirty_term:
                    hist["starts_on_a_terminal_holding_placements"][mode] += 1
            elif st["op"] == "stop":
                dirty_term = False
            elif st["op"] == "newscreen":
                hist["new_screen_objects"] += 1
            if st["op"] == "api":
                key = ("all" if not st.get("slots") else f"{len(st['slots'])} widget(s)") + (", now" if st.get("now") else ", queued")
                hist["public_clear_images_calls"][key] = hist["public_clear_images_calls"].get(key, 0) + 1
            if "layout" in st:
                for node in ("pile", "cols", "overlay", "listbox", "linebox", "filler", "padding", "boxadapter", "img", "fill"):
                    if f'["{node}"' in json.dumps(st["layout"]):
                        hist["layout_nodes"][node] = hist["layout_nodes"].get(node, 0) + 1
        if len(modes) > 1:
            hist["sessions_with_both_modes"] += 1
        prev_views = None
        prev_free = set()
        nontrivial = False
        was_resized, since_abort = False, False
        for s, st in zip(r["steps"][nsetup(c):], c["steps"]):
            if s["op"] == "winch":
                hist["sigwinch"] += 1
            elif s["op"] == "resize":
                hist["resizes_handled"] += 1
            if s["op"] in ("draw", "draw_bad", "redraw"):
                if was_resized:
                    kind = "aborted: resize pending"
                elif "exc" in s:
                    how = st.get("how", "size")
                    kind = "aborted: base draw raised (" + ("wrong size" if how == "size" else "content() failed" if how[0] == "content"
                                                            else "OSError at a write") + ")"
                elif not _re_mod.sub(r"\x1b\[\?2026[hl]|\x1b_Ga=d[^\x1b]*\x1b\\\\", "", s["out"]):
                    kind = "short-circuited by urwid (same canvas object)"
                else:
                    kind = "reached the terminal"
                hist["redraws"][kind] += 1
                if st.get("use"):
                    hist["redraws_of_a_kept_canvas_object"]["after an aborted redraw" if since_abort else "other"] += 1
                since_abort = kind.startswith("aborted") or (since_abort and kind.startswith("short"))
            was_resized = bool(s.get("resized"))
        for s in r["steps"]:
            if s["op"] in ("draw", "draw_bad", "redraw"):
                nv = len(s["cviews"])
                hist["views_on_screen"][min(nv, 8)] = hist["views_on_screen"].get(min(nv, 8), 0) + 1
                if not s["layout"]["composite"]:
                    hist["non_composite_canvases"] += 1
                cur = {tuple(x) for x in s["cviews"]}
                if prev_views is not None and prev_views == cur and cur and s["op"] == "draw" and "a=T" in s["out"] \
                        and "a=d,d=A" not in s["out"] and "a=d,d=Z" not in s["out"]:
                    hist["repaints_of_unchanged_image_views"]["redraws"] += 1
                    hist["repaints_of_unchanged_image_views"]["image lines re-sent"] += s["out"].count("a=T")
                    nontrivial = True
                if prev_views is not None and prev_views - cur:
                    hist["redraws_with_vanished_views"] += 1
                    nontrivial = True
                prev_views = cur
            hist["image_lines_in_canvases"] += sum(row.count("a=T") + row.count("File=") for row in s.get("rows", []))
            hist["image_lines_written"] += s["out"].count("a=T") + s["out"].count("File=")
            hist["z_freed"] += len(s["freed"])
            if s["op"] == "new" and s["alloc"][0] == "ok" and s["alloc"][3] is not None and s["alloc"][3] in prev_free:
                hist["z_reused"] += 1
            if s["op"] == "new" and s["alloc"][0] == "raised":
                hist["z_exhausted"] += 1
            prev_free = set(s["free_set"])
            hist["deletes"]["all"] += s["out"].count("a=d,d=A")
            hist["deletes"]["by_z"] += s["out"].count("a=d,d=Z")
            hist["deletes"]["cursor"] += s["out"].count("a=d,d=C")
        code = v[0]
        hist["verdict"][str(code)] = hist["verdict"].get(str(code), 0) + 1
        if code == 0 and nontrivial:
            distinct.add(core.sig(c))
        if code >= 2:
            raw_failing.append((c, v))
        elif code == 1:
            mismatches.append({"case": describe(c, v[2] - nsetup(c)), "step": v[2] - nsetup(c),
                               "why": MODEL_REASON.get(v[1], str(v[1]))})
    # shrink the smallest failing session of every kind of failure (bounded effort); the
    # other failing sessions are counted and listed, not shrunk
    import time as _time
    t_end = _time.time() + (45 if ctx.quick else 240)
    total_failing = len(raw_failing) + len(failures)
    raw_failing.sort(key=lambda cv: size_of(cv[0]))
    done_reasons, others = {}, []
    for c, v in raw_failing:
        reason = v[1]
        if done_reasons.get(reason, 0) >= (1 if ctx.quick else 2) and not ctx.replay:
            others.append(f"{SPEC_REASON.get(reason, reason)}: {describe(c, v[2] - nsetup(c))}"[:400])
            continue
        done_reasons[reason] = done_reasons.get(reason, 0) + 1
        if ctx.replay or _time.time() > t_end:
            small, sv = c, v
        else:
            small, sv = shrink(c, v, errors, rounds=10 if ctx.quick else 14, t_end=t_end)
        step = sv[2] - nsetup(small)
        where = (f"at step {step} of: {describe(small, step)}" if step >= 0 else
                 f"after constructing widget `{list(small['slots'])[sv[2]]}` of: {describe(small, -1)}")
        failures.append({
            "signature": core.sig({"case": small, "reason": sv[1]}),
            "what": f"{SPEC_REASON.get(sv[1], sv[1])} {where}",
            "replay": {"case": small, "reason": SPEC_REASON.get(sv[1], sv[1]), "step": step, "code": sv[0],
                       "original_case": c if small is not c else None},
        })
    seen, kept = set(), []
    for f in failures:
        if f["signature"] not in seen:
            seen.add(f["signature"])
            kept.append(f)
    failures = kept
    if invalid > len(cases) // 3:
        errors.append(f"{invalid} of {len(cases)} generated sessions were rejected by urwid (generator too loose)")
    samples = [describe(c) for c in cases[:2]] + [describe(c) for c in cases[len(corpus()):len(corpus()) + 3]]
    return {
        "corr_name": "sessions of a real UrwidImageScreen on a buffer (started with / without the alternate buffer, on terminals "
                     "already holding placements; widgets with arbitrary valid format specifiers; redraws aborted by a pending SIGWINCH "
                     "resize or by the base draw raising, redraws of kept canvas objects); output lexed and executed on the two-buffer placement-level "
                     "terminal in Coq vs. model (deletes, _ti_image_cviews, disguise, allocator) and vs. the canvas just drawn",
        "evaluations": sum(1 for v in verdicts if v and isinstance(v[0], int)),
        "distinct_nontrivial": len(distinct),
        "rule": "committed corpus of boundary sessions (overlay growing by a row over one widget, top-most widget replaced by "
                "SolidFill / being the image widget itself, one widget three times in a scrolled list box / side by side, "
                "z-index reuse after collection, widgets of UrwidImage and of its subclasses alive together with interleaved creation / "
                "collection, inner draw raising, stop/start, kitty+iterm2 on Konsole, z-index exhaustion, "
                "kitty unsupported; the screen started WITHOUT the alternate buffer on a terminal that already shows images "
                "(raw kitty placements, images printed by the library with the LINES / WHOLE method, iterm2 images on Konsole), "
                "clear()+redraw and a moved overlay there, then a session with the alternate buffer after more foreign output, "
                "then inline again; a new screen object between sessions; another program's alternate buffer) x terminal "
                "identity, then generated sessions: optional earlier output on the terminal (1-3 of: kitty placements anywhere "
                "on / below the screen area with z-index 0 / 1 / -1 / 2 / 7 / 2^31-1, printed kitty / iterm2 images, text), "
                "start(alternate_buffer = True 60% / False 40%), 1-4 widgets of kinds kitty / iterm2 / block, each an instance of UrwidImage, of a subclass, of a sub-subclass or of a second "
                "subclass (mixed in one session) "
                "(6 images, two of them uniform), 16x6..30x12 screens, a random box layout of depth <= 3 (Pile, Columns, "
                "Overlay, ListBox, LineBox, Filler, Padding, BoxAdapter, image widgets in box and flow position, the same "
                "widget possibly several times) followed by 3-10 operations: a mutation of the layout (overlay moved / "
                "resized / its top replaced, list box scrolled, item inserted / removed, image swapped), a new layout, redraw "
                "of the same canvas, the PUBLIC clear_images() (all images or one / two widgets, now=True or queued) followed by a redraw of the unchanged or a changed layout, REPAINTS OF UNCHANGED IMAGE VIEWS (7% of the operations on screens >= 20 columns, and 1-4 corpus sessions per terminal identity: a text pane beside the current layout on the same rows whose every row changes 2-4 times while nothing else does - urwid re-sends the rows, no view vanishes, the screen sends no delete; identities: identified as kitty 0.20.0 / 0.25.0 / 0.25.1 / 0.26.0 / 0.32.2, konsole 22.04.0 / 22.12.3, forced support on unidentified 'wezterm' / 'ghostty' / ''; generated sessions cycle through the identities of their terminal kind), clear()+redraw, stop [+ more foreign output] [+ new screen object] + start in either mode, a widget replaced by a new one, a widget dropped and "
                "collected, a redraw whose inner draw raises (wrong size / the canvas' content() failing at a row / OSError at one of the "
                "base class' writes) followed by clear()+redraw.  EVERY VALID WIDGET: 55% of the widgets are constructed with a non-default "
                "format specifier: horizontal / vertical alignment with padding sizes, alpha (#, #.3, #rrggbb, ##) and for kitty / iterm2 "
                "images the style-specific fields render method L|W (W: sessions in which such a canvas ends up trimmed are set aside as "
                "outside the documented use), z<n> (kitty; 0, 1, -1, 2, 5, -7, +-(2^31-1): values the allocator itself hands out "
                "included), m0|1, c0|1|4|9; upscale False 20%.  REDRAWS THAT URWID ABORTS OR SHORT-CIRCUITS (7% + 4% of the operations, and "
                "3 corpus sessions per terminal): the canvas object drawn is kept, a real SIGWINCH is raised, 1-2 redraws of other layouts "
                "are attempted (urwid skips the drawing) possibly with a public clear_images() call, get_input() reports the resize, then "
                "the KEPT canvas object is drawn again (55%) or the layout rendered anew, then the layout changes again; and: the kept "
                "canvas, a redraw in which the base draw raises, then the failed canvas object again / a new canvas / the kept canvas "
                "object (short-circuited by urwid).  Thorough tier: additionally EVERY sequence of 4 (kitty) / 3 (iTerm2 image on "
                "Konsole; inline mode) operations out of {kept canvas object of A again, A rendered anew, B without the image, M "
                "with the image moved, SIGWINCH, resize handled, redraw of B raising at once, redraw of M raising inside content()} "
                "after view A was drawn, within the count hypothesis.  Non-trivial: distinct sessions judged 0 in which at least one "
                "redraw made image views vanish.",
        "samples": samples,
        "histogram": hist,
        "mismatches": mismatches,
        "failures": failures,
        "errors": errors,
        "assumptions": [
            "(U1) urwid writes a row of a new canvas iff it differs from its screen buffer's row, whole, from column 0 "
            "(model/ScreenUrwid.v; hypothesis of no_ghosts; validated by the runs only)",
            "(U2) the bytes of a row determine and are determined by its non-image content and its image lines with their "
            "disguise counts",
            "(T1) a graphics placement stays until deleted by d=A / d=Z (its z-index) / d=C (cursor cell inside it); text, "
            "erasure, colours do not touch it; the screen does not scroll (model/Screen.v pstep)",
            "(T2) on Konsole an iTerm2 inline image is such a placement (z-index 0) removed by the kitty delete-all command; on "
            "other terminals iTerm2 images are cell content and are outside the property",
            "(W) well-formedness of redraws (wf_redraw): tracked views belong to kitty widgets / iTerm2 widgets on Konsole, "
            "live kitty widgets hold distinct non-zero z-indexes (proved: z_distinct_in_range), image lines of one canvas lie on "
            "the screen and do not overlap, every image line is one row high (LINES render method, the default, required by the "
            "documentation wherever a canvas may be trimmed)",
            "(T3) graphics placements belong to the screen buffer they were made on: CSI ?1049h shows a fresh alternate "
            "buffer, CSI ?1049l the main buffer again with its placements; every other command acts on the visible buffer "
            "(model/ScreenSession.v bstep); 'cleared on start / clear' is judged on the visible buffer, 'cleared on stop' on the "
            "buffer the screen ran on",
            "(U3) without the alternate buffer urwid addresses rows relative to the row of the cursor at start(); its "
            "bookkeeping of that row relies on the canvas carrying a cursor, so the canvases of inline sessions carry one at "
            "(0, 0) (harness/impl/impl_c18.py WithCursor); the session theorems are stated with that row as row 0",
            "other programs write to the terminal, and the screen object is replaced, only while the screen is stopped",
            "(U4) urwid's draw_screen does not draw while a resize is pending (SIGWINCH until get_input() has reported 'window resize'; "
            "the signal also drops its screen buffer), nor when it raises before its output is written; it returns at once when handed "
            "the very canvas object its screen buffer holds (model/ScreenAbort.v; the run-time comparison checks this environment model "
            "against urwid's own _resized / _screen_buf_canvas after every step).  A SIGWINCH arriving DURING a draw_screen call, and "
            "an OSError in the middle of urwid's writes, are exercised by the runs only where stated (write failures), not modelled",
            "(R) the renderer transmits every placement with the z_index style argument it is given (C01/C03's matter); that the widget "
            "passes ITS z-index whatever the format specifier says is proved on the model (C18_widget_places_with_own_z_index) and "
            "checked on the transmitted bytes of every canvas",
            "after a redraw that did not reach the terminal, or that urwid short-circuits after a public clear_images() call / an aborted "
            "redraw deleted images of that very canvas object, only 'no placement that the canvas now tracked does not have' is demanded "
            "(the images stay deleted until a new canvas is drawn: urwid does not draw the canvas object it drew last again)",
            "terminal identity: KittyImage.is_supported() itself identifies the terminal from the stubbed name / version and an OK "
            "reply to the graphics query (kitty 0.20.0 / 0.25.0 / 0.25.1 / 0.26.0 / 0.32.2, konsole 22.04.0 / 22.12.3); for the "
            "unidentified terminals ('wezterm', 'ghostty', '') it answers False and KittyImage.forced_support = True is set, the documented "
            "way; ITerm2Image support is as the test-suite stubs say (_TERM set as is_supported() would on konsole / wezterm)",
            "(T4) a kitty-protocol terminal ADDS a placement when the same image line is transmitted-and-displayed again at the same cell "
            "with the same z-index (placements are counted: model/ScreenBlend.v); Konsole replaces an equal placement (the library's own "
            "statement, _urwid.py:102-104) - there equal placements count once",
            "the theorems are about the code AFTER pending_fixes/C18_non_composite_canvas.diff and "
            "C18_kitty_widget_listed_per_view.diff",
        ],
        "trusted": ["harness/c18lex.py (urwid output -> placement-level tokens, fail-closed)",
                    "harness/tx/tx_screen.py (Python ast of draw_screen -> prog; of _start / _stop / clear -> call skeletons; fail-closed)",
                    "harness/impl/impl_c18.py (drives urwid widgets and the screen; reads shards with urwid's shard_body)"],
        "extra": {"failing_sessions_total": total_failing, "generator_invalid": invalid,
                  "other_failing_sessions_not_shrunk": others[:12]},
    }
