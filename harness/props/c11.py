"""C11 — image iteration matches frame-by-frame rendering and leaks nothing.

Correspondence, three parts (impl/impl_c11.py; judged inside Coq by model/ImgIterTie.v):
 (i)   ImageIterator histories (next / seek / close / drop / image-size change, optional
       deterministic render failure at one frame) against model/ImgIter.v (the two-phase
       generator) and against the specification model/ImgIterSpec.v whose frames are the
       ones obtained by DIRECT formatting (image.seek(k); format(image, spec)) on a second
       instance; image.tell() and loop_no after every operation; round 4: runs of 2-4
       consecutive seeks (before the first frame, in the first loop, in the cached loop, at the
       end of a pass), and ENVIRONMENT changes (terminal resize, cell ratio) between yields of
       dynamically sized images (model/ImgIterEnv.v) with every yielded frame also compared with
       the direct formatting of that frame right after the yield under the environment then in
       force;
 (ii)  fault enumeration: every scenario is run once per call index k of the library's calls
       to PIL convert / resize / alpha_composite / save / tobytes with a failure injected
       there, plus draw() calls whose argument is rejected after the image was opened;
       observed: Image.open / Image.close pairing (every opened image kept referenced: no
       help from the garbage collector), /proc/self/fd against its baseline, the caller's
       PIL image still usable, image.size and (draw / format) image.tell() kept;
 (iii) URL-sourced images served by a local http.server on 127.0.0.1 (200 image, 404,
       non-image body, bad constructor argument): files in the library's temp dir before /
       while open / after close / after failed construction.
 (iv)  round 7, CONCURRENT life-cycle calls: iterator histories in which close() arrives WHILE a next() of
       the same iterator is executing (issued from inside the render re-entrantly, from a second thread
       behind Event gates, from a real signal handler), followed by any further history and the normal
       clean-up; model/ImgIterReent.v (close() as an instruction program, refused by the executing
       generator) and its specification (nothing changes; the erased sequential history), judged by
       model/ImgIterReentTie.v; Image.open / Image.close pairing per operation and /proc/self/fd at the end.
Parts (ii) and (iii) observe Pillow, the OS and CPython's reference counting: they are
runtime validation, not consequences of a theorem."""
from __future__ import annotations

import json

import core

LEVEL = "proof"
EXTRA_TARGETS = ["model/ImgIterTie.vo", "model/ImgIterReentTie.vo", "model/ImgIterFinTie.vo", "model/ImgIterCloseTie.vo"]

HEADER = ("From Coq Require Import List ZArith Bool.\nImport ListNotations.\n"
          "From TI Require Import model.ImgIter model.ImgIterSpec model.ImgIterEnv model.ImgIterTie.\n"
          "From TI Require Import model.ImgIterReent model.ImgIterReentTie.\n"
          "From TI Require Import model.ImgIterFin model.ImgIterFinTie.\n"
          "From TI Require Import model.ImgIterClose model.ImgIterCloseTie.\nLocal Open Scope nat_scope.\n")
Z = core.z


def b(x):
    return "true" if x else "false"


# ------------------------------------------------------------------ generators

SPECS = {
    "block": ["1.1", "", "1.1#", "<20.^5", "1.1#ffffff", "1.1#.3"],
    "kitty": ["1.1+W", "1.1+L", "1.1", "1.1#+Wc0", "1.1##+Lz5m1", "<12._3+W"],
    "iterm2": ["1.1+W", "1.1+L", "1.1+A", "1.1#+Wc9", "1.1+Am1", "1.1#abcdef+L", "|14.-4+A"],
}


def anim_src(rng, small=True):
    r = rng.random()
    if r < 0.12:
        return {"kind": "fixture", "name": "lion.gif"}
    if r < 0.18:
        return {"kind": "fixture", "name": "anim.webp"}
    fmt = rng.choice(["GIF", "GIF", "WEBP"])
    return {"kind": "new", "seed": rng.randrange(1 << 30), "w": rng.randint(2, 24), "h": rng.randint(2, 24),
            "mode": "P" if fmt == "GIF" else rng.choice(["RGB", "RGBA"]), "frames": rng.randint(2, 6), "fmt": fmt}


def still_src(rng):
    fmt = rng.choice(["PNG", "PNG", "GIF", "WEBP"])
    mode = {"PNG": rng.choice(["RGB", "RGBA", "L", "P"]), "GIF": "P", "WEBP": rng.choice(["RGB", "RGBA"])}[fmt]
    return {"kind": "new", "seed": rng.randrange(1 << 30), "w": rng.randint(1, 30), "h": rng.randint(1, 30),
            "mode": mode, "frames": 1, "fmt": fmt}


def frames_of(src):
    return {"lion.gif": 10, "anim.webp": 50}.get(src.get("name"), src.get("frames", 1))


def rand_size(rng):
    return [rng.randint(1, 8), rng.randint(1, 4)] if rng.random() < 0.85 else rng.choice(["FIT", "ORIGINAL", "AUTO"])


DYNAMIC = ["FIT", "FIT", "AUTO", "FIT_TO_WIDTH", "ORIGINAL"]
# specifiers whose padding is absolute: a relative padding ("" = the terminal width) is resolved once, when
# the iterator is constructed, and is therefore not "the same specifier" after a terminal resize
ENV_SPECS = {
    "block": ["1.1", "1.1#", "<20.^5", "1.1#ffffff", "1.1#.3"],
    "kitty": ["1.1+W", "1.1+L", "1.1", "1.1#+Wc0", "<12._3+W"],
    "iterm2": ["1.1+W", "1.1+L", "1.1+A", "1.1#+Wc9", "1.1+Am1", "|14.-4+A"],
}


def rand_env(rng, style):
    """An environment: terminal size, and the global cell ratio for the text-based style."""
    if style == "block":
        term = rng.choice([[80, 30], [40, 12], [100, 40], [24, 10], [60, 20], [33, 33], [16, 6]])
        return {"term": term, "ratio": rng.choice([0.5, 0.5, 0.4, 0.6, 1.0, 0.25])}
    # graphics-based styles: small terminals (a frame is term x cell pixels)
    return {"term": rng.choice([[20, 8], [12, 6], [30, 10], [16, 12], [24, 5], [9, 9]])}


def seek_positions(rng, n, k):
    """k seek positions, mostly valid; consecutive ones differ by something other than +1 most of the time
    (so that 'the last one wins' is distinguishable from 'the one before, plus one')."""
    out = []
    for _ in range(k):
        r = rng.random()
        if r < 0.1:
            out.append(rng.choice([n, -1, n + 3]))
        elif r < 0.3:
            out.append(rng.choice([0, n - 1]))
        else:
            out.append(rng.randrange(n))
    return out


def seek_run(rng, n):
    k = rng.choice([1, 1, 1, 2, 2, 2, 3, 3, 4])
    return [["seek", p] for p in seek_positions(rng, n, k)]


def gen_iter_case(rng, long=False):
    style = rng.choice(["block", "kitty", "iterm2", "iterm2"])
    src = anim_src(rng)
    n = frames_of(src)
    if src.get("name") == "anim.webp":
        style = rng.choice(["block", "kitty"])  # 500x500 x 50 frames: keep it cheap
    repeat = rng.choice([1, 1, 2, 2, 3, -1, -1, -3])
    cached = rng.choice([True, True, False, 1, n - 1 if n > 1 else 1, n, n + 5, 100])
    nsz = rng.choice([1, 1, 2, 3])
    sizes = [rand_size(rng) for _ in range(nsz)]
    if src.get("name"):
        sizes = [[rng.randint(1, 6), rng.randint(1, 3)] for _ in range(nsz)]
    # ENVIRONMENT dimension: a dynamically sized image whose environment changes between yields
    envs = None
    if not src.get("name") and rng.random() < 0.45:  # (the fixtures are large: dynamic sizes would be costly)
        envs = []
        while len(envs) < rng.choice([2, 2, 3]):
            e = rand_env(rng, style)
            if e not in envs:
                envs.append(e)
        sizes[rng.randrange(nsz)] = rng.choice(DYNAMIC)
        if rng.random() < 0.8:
            sizes[0] = rng.choice(DYNAMIC)
        if rng.random() < 0.8:  # a cache that later passes are served from
            repeat = rng.choice([2, 3, 3, -1, -3])
            cached = rng.choice([True, True, n, n + 5, 100])
    nenv = len(envs) if envs else 1
    cur = {"size": 0, "env": 0}

    def change():
        """a change of the environment or of the size setting, to a value other than the current one"""
        kind = "env" if envs and (rng.random() < 0.7 or nsz == 1) else "size" if nsz > 1 else None
        if kind is None:
            return []
        k = nenv if kind == "env" else nsz
        v = rng.choice([x for x in range(k) if x != cur[kind]] or [0])
        cur[kind] = v
        return [[kind, v]]

    ops = []
    total = rng.randint(3, 14) if not long else rng.randint(10, 40)
    if src.get("name") == "anim.webp":
        total = min(total, 8)
    shape = rng.random()
    if shape < 0.2:  # plain iteration to exhaustion
        ops = [["next"]] * (min(n * repeat + 2, 45) if repeat > 0 else total)
    elif shape < (0.8 if envs else 0.55):
        # pass-structured: whole passes; runs of seeks before the first frame, inside a pass and at the
        # end of a pass; size / environment changes between and inside passes
        if rng.random() < 0.3:
            ops += seek_run(rng, n)
        passes = rng.choice([2, 2, 3]) if not long else rng.choice([3, 4])
        for _ in range(passes):
            cut = rng.randrange(n + 1) if rng.random() < 0.6 else None
            chg = rng.randrange(n + 1) if rng.random() < 0.35 else None
            for k in range(n):
                if k == cut:
                    ops += seek_run(rng, n)
                if k == chg:
                    ops += change()
                ops.append(["next"])
            if cut == n:  # the last frame of the pass has been yielded: seek instead of wrapping
                ops += seek_run(rng, n)
            if chg == n or rng.random() < (0.85 if envs else 0.5):
                ops += change()
        if n * passes > 40 and not long:
            ops = ops[:40]
    else:
        while len(ops) < total:
            r = rng.random()
            if r < 0.6:
                ops.append(["next"])
            elif r < 0.8:
                ops += seek_run(rng, n)
            elif r < 0.9:
                ops += change() or [["next"]]
            elif r < 0.94:
                ops.append(["close"])
            elif r < 0.96:
                ops.append(["drop"])
            else:
                ops.append(["next"])
    if ["drop"] in ops:  # the iterator object is gone after a drop: only the image can still be observed
        k = ops.index(["drop"])
        ops = ops[:k + 1] + [o for o in ops[k + 1:] if o[0] in ("size", "env")]
    spec = rng.choice(ENV_SPECS[style] if envs else SPECS[style])
    c = {"part": "iter", "style": style, "src": src, "source": rng.choice(["file", "file", "pil", "pil_file"]),
         "spec": spec, "repeat": repeat, "cached": cached, "sizes": sizes, "ops": ops,
         "cell": [rng.randint(2, 12), rng.randint(4, 24)], "pos0": rng.choice([0, 0, 1, 3]),
         "term": rng.choice(["wezterm", "iterm2", "konsole"])}
    if envs:
        c["envs"] = envs
        if style != "block":
            c["cell"] = [rng.randint(2, 6), rng.randint(4, 12)]
    if rng.random() < 0.15:
        c["fail_frame"] = rng.randrange(n)
    return c


ITER_CORPUS = [
    # seek before start, seek replaces the next index, seek(0) at the end of a pass, exhaustion, use after end
    {"part": "iter", "style": "block", "src": {"kind": "new", "seed": 3, "w": 8, "h": 6, "mode": "P", "frames": 3, "fmt": "GIF"},
     "source": "file", "spec": "1.1", "repeat": 2, "cached": True, "sizes": [[4, 2], [6, 3]], "pos0": 2,
     "ops": [["seek", 1], ["next"], ["next"], ["seek", 0], ["next"], ["size", 1], ["next"], ["next"], ["next"], ["next"],
             ["size", 0], ["next"], ["next"], ["next"], ["next"], ["seek", 1]]},
    # native-animation request: frames are whole-image frames (source smaller than the render size)
    {"part": "iter", "style": "iterm2", "src": {"kind": "new", "seed": 3, "w": 8, "h": 6, "mode": "P", "frames": 3, "fmt": "GIF"},
     "source": "pil", "spec": "1.1+A", "repeat": 1, "cached": False, "sizes": [[4, 2]], "cell": [10, 20],
     "ops": [["next"], ["next"], ["close"], ["next"], ["seek", 1]]},
    {"part": "iter", "style": "iterm2", "src": {"kind": "new", "seed": 9, "w": 30, "h": 30, "mode": "P", "frames": 2, "fmt": "GIF"},
     "source": "file", "spec": "1.1+A", "repeat": 2, "cached": True, "sizes": [[2, 1]], "cell": [5, 10],
     "ops": [["next"]] * 6},
    # render failure at frame 2 (uncached, infinite): the iterator closes, the position stays at 2
    {"part": "iter", "style": "kitty", "src": {"kind": "fixture", "name": "lion.gif"}, "source": "file", "spec": "1.1+W",
     "repeat": -1, "cached": 4, "sizes": [[3, 2]], "fail_frame": 2,
     "ops": [["next"], ["next"], ["next"], ["next"], ["seek", 5]]},
    # cache + size change + seek beyond the frames rendered in the first pass
    {"part": "iter", "style": "kitty", "src": {"kind": "new", "seed": 4, "w": 6, "h": 6, "mode": "RGBA", "frames": 4, "fmt": "WEBP"},
     "source": "pil_file", "spec": "1.1+L", "repeat": 3, "cached": True, "sizes": [[3, 2], [2, 2], "FIT"],
     "ops": [["next"], ["seek", 3], ["next"], ["next"], ["next"], ["size", 1], ["next"], ["next"], ["size", 0], ["next"],
             ["seek", 0], ["size", 2], ["next"], ["next"], ["next"], ["next"], ["next"], ["next"], ["next"], ["next"]]},
    # close / drop before the first frame
    {"part": "iter", "style": "block", "src": {"kind": "new", "seed": 5, "w": 5, "h": 5, "mode": "P", "frames": 2, "fmt": "GIF"},
     "source": "file", "spec": "1.1", "repeat": 1, "cached": False, "sizes": [[3, 2]], "ops": [["close"], ["next"], ["seek", 0]]},
    {"part": "iter", "style": "block", "src": {"kind": "new", "seed": 5, "w": 5, "h": 5, "mode": "P", "frames": 2, "fmt": "GIF"},
     "source": "pil", "spec": "1.1", "repeat": -1, "cached": True, "sizes": [[3, 2]], "ops": [["next"], ["next"], ["next"], ["drop"]]},
    {"part": "iter", "style": "kitty", "src": {"kind": "new", "seed": 5, "w": 5, "h": 5, "mode": "P", "frames": 2, "fmt": "GIF"},
     "source": "file", "spec": "1.1+L", "repeat": 2, "cached": 100, "sizes": [[3, 2]], "ops": [["drop"]]},
    # runs of seeks: refused before the first frame; the LAST one wins in the first loop (uncached and
    # cached), at the end of a pass (no pass consumed) and in the cached loop; 2, 3 and 4 seeks
    {"part": "iter", "style": "block", "src": {"kind": "new", "seed": 11, "w": 10, "h": 10, "mode": "P", "frames": 6, "fmt": "GIF"},
     "source": "file", "spec": "1.1", "repeat": 3, "cached": False, "sizes": [[5, 3]],
     "ops": [["seek", 2], ["seek", 4], ["next"], ["next"], ["seek", 4], ["seek", 1], ["next"], ["next"],
             ["seek", 5], ["seek", 0], ["seek", 3], ["next"], ["next"], ["next"], ["seek", 2], ["seek", 2], ["seek", 0],
             ["seek", 4], ["next"], ["next"], ["next"], ["next"]]},
    {"part": "iter", "style": "kitty", "src": {"kind": "new", "seed": 11, "w": 10, "h": 10, "mode": "P", "frames": 6, "fmt": "GIF"},
     "source": "pil", "spec": "1.1+L", "repeat": 3, "cached": True, "sizes": [[3, 2]], "cell": [4, 6],
     "ops": [["next"], ["seek", 5], ["seek", 2], ["next"], ["next"], ["next"], ["next"], ["seek", 0], ["seek", 4], ["next"],
             ["next"], ["next"], ["seek", 1], ["seek", 5], ["next"], ["seek", 3], ["seek", 3], ["seek", 0], ["seek", 2], ["next"],
             ["next"], ["next"], ["next"], ["next"], ["next"]]},
    # ENVIRONMENT: a dynamically sized image, the cache filled under one terminal size, later passes after
    # a resize / a cell-ratio change; back to the first environment; a change inside a pass
    {"part": "iter", "style": "block", "src": {"kind": "new", "seed": 12, "w": 24, "h": 24, "mode": "P", "frames": 3, "fmt": "GIF"},
     "source": "file", "spec": "1.1", "repeat": 4, "cached": True, "sizes": ["FIT"],
     "envs": [{"term": [80, 30], "ratio": 0.5}, {"term": [40, 12], "ratio": 0.5}, {"term": [40, 12], "ratio": 1.0}],
     "ops": [["next"], ["next"], ["next"], ["env", 1], ["next"], ["next"], ["next"], ["env", 2], ["next"], ["env", 0], ["next"],
             ["next"], ["next"], ["next"], ["next"], ["next"]]},
    {"part": "iter", "style": "iterm2", "src": {"kind": "new", "seed": 12, "w": 24, "h": 24, "mode": "P", "frames": 3, "fmt": "GIF"},
     "source": "pil_file", "spec": "1.1+A", "repeat": -1, "cached": 100, "sizes": ["FIT_TO_WIDTH", [3, 2]], "cell": [3, 6],
     "envs": [{"term": [20, 8]}, {"term": [12, 6]}],
     "ops": [["next"], ["next"], ["next"], ["next"], ["env", 1], ["next"], ["next"], ["size", 1], ["next"], ["env", 0], ["next"],
             ["size", 0], ["next"], ["seek", 2], ["seek", 0], ["next"], ["next"]]},
    # exhaustion of a file source: the image is closed by the StopIteration handler
    {"part": "iter", "style": "block", "src": {"kind": "new", "seed": 6, "w": 5, "h": 5, "mode": "P", "frames": 2, "fmt": "GIF"},
     "source": "file", "spec": "1.1", "repeat": 2, "cached": True, "sizes": [[3, 2]],
     "ops": [["next"], ["next"], ["next"], ["next"], ["next"], ["next"], ["close"]]},
]


def gen_fault_case(rng, quick):
    style = rng.choice(["block", "kitty", "iterm2"])
    animated = rng.random() < 0.5
    src = anim_src(rng) if animated else still_src(rng)
    if src.get("name"):
        src = {"kind": "new", "seed": rng.randrange(1 << 30), "w": 9, "h": 7, "mode": "P", "frames": 3, "fmt": "GIF"}
    alpha = rng.choice(["", "#", "#ffffff", "##", "#.5"])
    method = {"block": [""], "kitty": ["+L", "+W"], "iterm2": ["+L", "+W", "+A"]}[style]
    spec = "1.1" + alpha + rng.choice(method)
    if animated:
        action = rng.choice(["iter", "iter", "draw_anim", "format", "draw_anim", "n_frames", "draw_bad"])
    else:
        action = rng.choice(["format", "format", "str", "draw", "draw_bad"])
    c = {"part": "fault", "style": style, "src": src, "source": rng.choice(["file", "file", "pil_file", "pil"]),
         "action": action, "spec": spec, "size": [rng.randint(1, 6), rng.randint(1, 3)],
         "cell": [rng.randint(2, 10), rng.randint(4, 20)], "pos0": rng.choice([0, 1, 2]),
         "term": rng.choice(["wezterm", "iterm2", "konsole"]), "kbd": rng.random() < 0.3,
         "max_k": 8 if quick else None}
    if action == "draw_bad":
        c["bad"] = rng.choice(["repeat0", "cached0", "style", "cachedstr", "repeatstr"]) if animated else "style"
    if action == "iter":
        c.update(repeat=rng.choice([1, 2, -1]), cached=rng.choice([True, False]), take=rng.randint(0, 4),
                 end=rng.choice(["close", "exhaust", "drop", "close"]))
        if c["repeat"] < 0 and c["end"] == "exhaust":
            c["end"] = "close"
    if action == "draw_anim":
        c.update(repeat=rng.choice([1, 2]), cached=rng.choice([True, False, 100]))
        if style == "iterm2" and rng.random() < 0.5:
            c["style_args"] = {"method": rng.choice(["whole", "lines", "anim"])}
        if style == "kitty" and rng.random() < 0.5:
            c["style_args"] = {"method": rng.choice(["whole", "lines"])}
    return c


FAULT_CORPUS = [
    # composite path of _get_render_data (alpha colour): convert, resize, alpha_composite, convert
    {"part": "fault", "style": "kitty", "src": {"kind": "new", "seed": 1, "w": 9, "h": 7, "mode": "RGBA", "frames": 1, "fmt": "PNG"},
     "source": "file", "action": "format", "spec": "1.1#ffffff+W", "size": [2, 1], "cell": [3, 5], "max_k": None},
    {"part": "fault", "style": "block", "src": {"kind": "new", "seed": 1, "w": 9, "h": 7, "mode": "P", "frames": 1, "fmt": "PNG"},
     "source": "pil_file", "action": "draw", "spec": "1.1", "size": [4, 2], "cell": [3, 5], "max_k": None},
    # no conversion needed: the image handed to tobytes / save IS the file image
    {"part": "fault", "style": "kitty", "src": {"kind": "new", "seed": 2, "w": 6, "h": 10, "mode": "RGB", "frames": 1, "fmt": "PNG"},
     "source": "file", "action": "format", "spec": "1.1#+W", "size": [2, 1], "cell": [3, 10], "max_k": None},
    {"part": "fault", "style": "iterm2", "src": {"kind": "new", "seed": 2, "w": 6, "h": 10, "mode": "RGBA", "frames": 1, "fmt": "PNG"},
     "source": "file", "action": "format", "spec": "1.1##+W", "size": [2, 1], "cell": [3, 10], "term": "wezterm", "max_k": None},
    {"part": "fault", "style": "iterm2", "src": {"kind": "new", "seed": 2, "w": 6, "h": 10, "mode": "RGB", "frames": 1, "fmt": "PNG"},
     "source": "file", "action": "format", "spec": "1.1+L", "size": [2, 3], "cell": [3, 4], "term": "konsole", "max_k": None},
    # iterator frame reuse: the frame image is never closed between frames, closed at the end
    {"part": "fault", "style": "kitty", "src": {"kind": "new", "seed": 3, "w": 8, "h": 6, "mode": "P", "frames": 3, "fmt": "GIF"},
     "source": "file", "action": "iter", "spec": "1.1#000000+L", "size": [2, 2], "cell": [4, 4], "repeat": 2, "cached": True,
     "take": 4, "end": "exhaust", "max_k": None},
    {"part": "fault", "style": "block", "src": {"kind": "new", "seed": 3, "w": 8, "h": 6, "mode": "P", "frames": 3, "fmt": "GIF"},
     "source": "pil_file", "action": "iter", "spec": "1.1", "size": [2, 2], "cell": [4, 4], "repeat": 1, "cached": False,
     "take": 0, "end": "close", "max_k": None},
    # animated draw: seek position restored, with failures and interrupts
    {"part": "fault", "style": "block", "src": {"kind": "new", "seed": 3, "w": 8, "h": 6, "mode": "P", "frames": 3, "fmt": "GIF"},
     "source": "file", "action": "draw_anim", "spec": "", "size": [4, 2], "cell": [4, 4], "repeat": 2, "cached": True,
     "pos0": 2, "kbd": True, "max_k": None},
    {"part": "fault", "style": "iterm2", "src": {"kind": "new", "seed": 3, "w": 8, "h": 6, "mode": "P", "frames": 3, "fmt": "GIF"},
     "source": "pil", "action": "draw_anim", "spec": "", "size": [4, 2], "cell": [4, 4], "repeat": 1, "cached": False,
     "pos0": 1, "term": "wezterm", "style_args": {"method": "anim"}, "max_k": None},
    {"part": "fault", "style": "iterm2", "src": {"kind": "new", "seed": 3, "w": 8, "h": 6, "mode": "P", "frames": 3, "fmt": "GIF"},
     "source": "file", "action": "format", "spec": "1.1+A", "size": [4, 2], "cell": [4, 4], "pos0": 1, "max_k": None},
    {"part": "fault", "style": "kitty", "src": {"kind": "new", "seed": 3, "w": 8, "h": 6, "mode": "P", "frames": 3, "fmt": "GIF"},
     "source": "file", "action": "n_frames", "spec": "", "size": [4, 2], "cell": [4, 4], "max_k": None},
    # draw() rejects an argument after _renderer has opened the file: the image must be closed all the same
    {"part": "fault", "style": "block", "src": {"kind": "new", "seed": 3, "w": 8, "h": 6, "mode": "P", "frames": 3, "fmt": "GIF"},
     "source": "file", "action": "draw_bad", "bad": "repeat0", "spec": "", "size": [4, 2], "cell": [4, 4], "max_k": None},
    {"part": "fault", "style": "kitty", "src": {"kind": "new", "seed": 3, "w": 8, "h": 6, "mode": "P", "frames": 3, "fmt": "GIF"},
     "source": "file", "action": "draw_bad", "bad": "cached0", "spec": "", "size": [4, 2], "cell": [4, 4], "max_k": None},
    {"part": "fault", "style": "iterm2", "src": {"kind": "new", "seed": 2, "w": 6, "h": 10, "mode": "RGB", "frames": 1, "fmt": "PNG"},
     "source": "file", "action": "draw_bad", "bad": "style", "spec": "", "size": [2, 3], "cell": [3, 4], "max_k": None},
    # an iterator that never produced a frame: closed, or dropped
    {"part": "fault", "style": "kitty", "src": {"kind": "new", "seed": 3, "w": 8, "h": 6, "mode": "P", "frames": 3, "fmt": "GIF"},
     "source": "file", "action": "iter", "spec": "1.1+W", "size": [2, 2], "cell": [4, 4], "repeat": -1, "cached": True,
     "take": 0, "end": "drop", "max_k": None},
]


# ------------------------------------------------ round 8: the output stream breaks during an animated draw()

SF_EXC = {"broken_pipe": "BrokenPipeError", "oserror": "OSError", "closed": "ValueError"}
_SSRC = {"kind": "new", "seed": 5, "w": 8, "h": 6, "mode": "P", "frames": 3, "fmt": "GIF"}


def gen_sfault_case(rng, quick):
    style = rng.choice(["block", "kitty", "iterm2"])
    src = {"kind": "new", "seed": rng.randrange(1 << 30), "w": rng.randint(4, 10), "h": rng.randint(4, 8),
           "mode": rng.choice(["P", "RGB", "RGBA"]), "frames": rng.randint(2, 5), "fmt": "GIF"}
    if src["mode"] != "P":
        src["fmt"] = "WEBP"
    c = {"part": "sfault", "style": style, "src": src, "source": rng.choice(["file", "pil_file", "pil", "file"]),
         "size": [rng.randint(1, 6), rng.randint(1, 3)], "cell": [rng.randint(2, 10), rng.randint(4, 20)],
         "pos0": rng.randint(1, 4) if rng.random() < 0.85 else 0, "repeat": rng.choice([1, 1, 2]),
         "cached": rng.choice([True, False, 100]), "exc": rng.choice(list(SF_EXC)), "tty": rng.random() < 0.3,
         "term": rng.choice(["wezterm", "iterm2", "konsole"])}
    if style == "iterm2" and rng.random() < 0.5:
        c["style_args"] = {"method": rng.choice(["whole", "lines"])}
    if style == "kitty" and rng.random() < 0.5:
        c["style_args"] = {"method": rng.choice(["whole", "lines"])}
    if quick:
        # a spread of positions: the first calls, some in the middle, the LAST ones (the clean-up's)
        c["ks"] = [0, 1, rng.randint(2, 12), rng.randint(4, 30), -5, -4, -3, -2, -1]
    else:
        c["ks"] = None  # every position of the fault-free run
    return c


SFAULT_CORPUS = [
    # file source, start frame 1, every position of the fault-free run (the clean-up's included)
    {"part": "sfault", "style": "block", "src": _SSRC, "source": "file", "size": [4, 2], "cell": [4, 4], "pos0": 1,
     "repeat": 1, "cached": False, "exc": "broken_pipe", "tty": False, "ks": None},
    # the caller's PIL image (opened from a file), cached second pass, stdout "a terminal" that went away
    {"part": "sfault", "style": "kitty", "src": _SSRC, "source": "pil_file", "size": [4, 2], "cell": [4, 4], "pos0": 2,
     "repeat": 2, "cached": True, "exc": "closed", "tty": True, "ks": None},
    # PIL image decoded from bytes; LINES method
    {"part": "sfault", "style": "iterm2", "src": _SSRC, "source": "pil", "size": [4, 2], "cell": [4, 4], "pos0": 1,
     "repeat": 1, "cached": False, "exc": "oserror", "tty": False, "term": "konsole",
     "style_args": {"method": "lines"}, "ks": None},
    # start frame 0: the run leaves the position at the last frame unless restored
    {"part": "sfault", "style": "block", "src": dict(_SSRC, frames=2), "source": "file", "size": [3, 1], "cell": [4, 8],
     "pos0": 0, "repeat": 1, "cached": False, "exc": "broken_pipe", "tty": True, "ks": None},
]


# ------------------------------------------------ round 7: close() while a next() is executing

HOWS = ["reent", "thread", "signal"]


def gen_reent_case(rng):
    style = rng.choice(["block", "block", "kitty", "iterm2"])
    fmt = rng.choice(["GIF", "GIF", "WEBP"])
    n = rng.randint(2, 5)
    src = {"kind": "new", "seed": rng.randrange(1 << 30), "w": rng.randint(2, 16), "h": rng.randint(2, 16),
           "mode": "P" if fmt == "GIF" else rng.choice(["RGB", "RGBA"]), "frames": n, "fmt": fmt}
    repeat = rng.choice([1, 2, 2, 3, -1])
    cached = rng.choice([True, True, False, n, 100])
    nsz = rng.choice([1, 1, 2])
    sizes = [[rng.randint(1, 6), rng.randint(1, 3)] for _ in range(nsz)]
    cur = [0]

    def cd():
        return ["nextcd", rng.choice([1, 1, 1, 2, 3]), rng.choice(HOWS)]

    ops = [["next"]] * rng.choice([0, 0, 1, 2, n, n + 1])
    for _ in range(rng.randint(3, 10)):
        r = rng.random()
        if r < 0.38:
            ops.append(cd())
        elif r < 0.66:
            ops.append(["next"])
        elif r < 0.8:
            ops += seek_run(rng, n)
        elif r < 0.88 and nsz > 1:  # the cached loop re-renders after a size change
            cur[0] = 1 - cur[0]
            ops.append(["size", cur[0]])
        elif r < 0.94:
            ops.append(["close"])
        else:
            ops.append(["drop"])
    end = rng.random()
    if end < 0.4:
        ops.append(["close"])
    elif end < 0.6:
        ops.append(["drop"])
    elif end < 0.8 and repeat > 0:  # exhaustion (StopIteration handler of __next__)
        ops += [["next"] if rng.random() < 0.7 else cd() for _ in range(min(n * repeat + 1, 16))]
    # else: abandoned (the driver deletes it at the end)
    ops += rng.choice([[], [], [["next"]], [cd(), ["close"]], [["close"], ["seek", 0]]])
    if ["drop"] in ops:
        k = ops.index(["drop"])
        ops = ops[:k + 1] + [o for o in ops[k + 1:] if o[0] == "size"]
    c = {"part": "reent", "style": style, "src": src, "source": rng.choice(["file", "file", "file", "pil", "pil_file"]),
         "spec": rng.choice(SPECS[style]), "repeat": repeat, "cached": cached, "sizes": sizes, "ops": ops,
         "cell": [rng.randint(2, 8), rng.randint(4, 12)], "pos0": rng.choice([0, 0, 1]),
         "term": rng.choice(["wezterm", "iterm2", "konsole"])}
    if rng.random() < 0.1:
        c["fail_frame"] = rng.randrange(n)
    return c


_RSRC = {"kind": "new", "seed": 21, "w": 8, "h": 6, "mode": "P", "frames": 3, "fmt": "GIF"}
REENT_CORPUS = [
    # a refused close in the middle of a frame (each delivery), then the normal clean-up: close / drop / exhaustion
    {"part": "reent", "style": "block", "src": _RSRC, "source": "file", "spec": "1.1", "repeat": 1, "cached": False,
     "sizes": [[4, 2]], "ops": [["next"], ["nextcd", 1, "reent"], ["close"], ["close"], ["next"]]},
    {"part": "reent", "style": "block", "src": _RSRC, "source": "file", "spec": "1.1", "repeat": -1, "cached": True,
     "sizes": [[4, 2]], "ops": [["next"], ["nextcd", 1, "thread"], ["next"], ["nextcd", 2, "thread"], ["drop"]]},
    {"part": "reent", "style": "kitty", "src": _RSRC, "source": "file", "spec": "1.1+L", "repeat": 2, "cached": False,
     "sizes": [[3, 2]], "cell": [4, 6], "ops": [["nextcd", 1, "signal"], ["next"], ["seek", 0], ["nextcd", 3, "signal"], ["close"]]},
    # refused closes, then exhaustion: the StopIteration handler releases the image; in the cached loop a
    # next() renders only after a size change
    {"part": "reent", "style": "block", "src": _RSRC, "source": "file", "spec": "1.1", "repeat": 2, "cached": True,
     "sizes": [[4, 2], [5, 3]],
     "ops": [["nextcd", 1, "reent"], ["next"], ["nextcd", 1, "thread"], ["nextcd", 1, "signal"], ["size", 1],
             ["nextcd", 2, "reent"], ["next"], ["next"], ["nextcd", 1, "reent"], ["close"]]},
    # a caller-supplied PIL image: never closed, refused all the same; a failing frame after a refusal
    {"part": "reent", "style": "iterm2", "src": _RSRC, "source": "pil_file", "spec": "1.1+W", "repeat": 1, "cached": False,
     "sizes": [[3, 2]], "cell": [4, 6], "ops": [["nextcd", 1, "thread"], ["nextcd", 1, "reent"], ["next"], ["next"]]},
    {"part": "reent", "style": "block", "src": _RSRC, "source": "file", "spec": "1.1", "repeat": -1, "cached": False,
     "sizes": [[4, 2]], "fail_frame": 1, "ops": [["nextcd", 2, "signal"], ["nextcd", 1, "reent"], ["next"], ["close"]]},
]


# ---- round 9: the IMAGE's close() at any position of a history of iterators over it ("corder")

_CSRC = {"kind": "new", "seed": 33, "w": 8, "h": 6, "mode": "P", "frames": 3, "fmt": "GIF"}
CORDER_SOURCES = ["file", "file", "file", "url", "url", "pil_file", "pil_file", "pil_bytes"]


def corder_case(style, source, ops, src=None):
    return {"part": "corder", "style": style, "source": source, "src": None if source == "url" else dict(src or _CSRC),
            "size": None, "ops": ops}


def gen_corder_case(rng):
    """ImageIterator(image) x 1-3 / next / iterator.close() in a random order, image.close() inserted at a
    uniformly chosen position (so: before the first iterator, before the first next(), between two next()
    calls, after iterator.close()), sometimes twice; then (85%) a closing phase: close() on every iterator
    and possibly again on the image, in a random order."""
    nit = rng.choice([1, 1, 2, 2, 3])
    new = lambda: ["new", rng.choice([1, 1, 2]), rng.choice([False, False, True])]  # noqa: E731
    ops, created = [new()], 1
    for _ in range(rng.randint(1, 11)):
        x = rng.random()
        if created < nit and x < 0.2:
            ops.append(new())
            created += 1
        elif x < 0.78:
            ops.append(["next", rng.randrange(created)])
        elif x < 0.9:
            ops.append(["iclose", rng.randrange(created)])
        else:
            ops.append(["imgclose"])
    ops.insert(rng.randint(0 if rng.random() < 0.15 else 1, len(ops)), ["imgclose"])
    if rng.random() < 0.85:
        tail = [["iclose", i] for i in range(created)] + ([["imgclose"]] if rng.random() < 0.5 else [])
        rng.shuffle(tail)
        ops += tail
    src = dict(_CSRC, seed=rng.randrange(1000), mode=rng.choice(["P", "RGB", "RGBA"]), frames=rng.choice([2, 3, 3, 4]),
               fmt="GIF")  # Pillow keeps the descriptor of a GIF while the image is open (it drops a WEBP's after the first load)
    return corder_case(rng.choice(["block", "block", "kitty", "iterm2"]), rng.choice(CORDER_SOURCES), ops, src)


def _corder_orders(source, style="block"):
    n, c, x = ["new", 1, False], ["iclose", 0], ["imgclose"]
    return [
        corder_case(style, source, [n, ["next", 0], x, c]),                       # image first, then the iterator
        corder_case(style, source, [n, ["next", 0], c, x]),                       # the other order
        corder_case(style, source, [n, x, c]),                                    # before the first next()
        corder_case(style, source, [n, ["next", 0], x, ["next", 0], c]),          # a next() after finalization
        corder_case(style, source, [x, n, ["next", 0], c, x]),                    # iterator over a finalized image
    ]


CORDER_CORPUS = (
    _corder_orders("file") + _corder_orders("url", "kitty") + _corder_orders("pil_file") + _corder_orders("pil_bytes")[:2]
    + [
        # two iterators, the image closed between them; exhaustion after finalization (cached second pass)
        corder_case("block", "file", [["new", 2, True], ["new", 1, False], ["next", 0], ["next", 0], ["next", 0], ["next", 0],
                                      ["next", 1], ["imgclose"], ["next", 0], ["next", 0], ["next", 0], ["next", 1],
                                      ["iclose", 1], ["iclose", 0], ["imgclose"]]),
        corder_case("kitty", "url", [["new", 1, False], ["new", 1, False], ["next", 1], ["iclose", 0], ["imgclose"],
                                     ["imgclose"], ["iclose", 1], ["iclose", 1]]),
        corder_case("iterm2", "pil_file", [["new", 1, False], ["next", 0], ["next", 0], ["next", 0], ["imgclose"], ["next", 0],
                                           ["iclose", 0]]),
    ]
)

URL_KWARGS = {"{}": True, '{"width": 0}': False, '{"height": -3}': False, '{"width": "x"}': False,
              '{"width": 3, "height": 2}': True, '{"height": 2}': True}
URL_KINDS = {"img.png": 0, "anim.gif": 0, "missing.png": 1, "text.txt": 2, "empty.png": 2}


def gen_url_case(rng):
    ops, live, closed = [], set(), set()
    for _ in range(rng.randint(3, 10)):
        r = rng.random()
        if r < 0.45 or not live:
            slot = rng.randrange(3)
            name = rng.choice(["img.png", "img.png", "anim.gif", "missing.png", "text.txt", "empty.png"])
            kwargs = rng.choice(list(URL_KWARGS)) if rng.random() < 0.25 else "{}"
            ops.append(["open", slot, name, json.loads(kwargs)])
            if URL_KINDS[name] == 0 and URL_KWARGS[kwargs]:
                live.add(slot)
                closed.discard(slot)
        elif r < 0.6:
            ops.append(["use", rng.choice(sorted(live))])
        elif r < 0.8:
            s = rng.choice(sorted(live))
            ops.append([rng.choice(["close", "with"]) if s not in closed else "close", s])
            closed.add(s)
        else:
            s = rng.choice(sorted(live))
            ops.append(["del", s])
            live.discard(s)
            closed.discard(s)
    return {"part": "url", "style": rng.choice(["block", "kitty", "iterm2"]), "ops": ops}


URL_CORPUS = [
    {"part": "url", "style": "kitty", "ops": [["open", 0, "img.png", {}], ["use", 0], ["close", 0], ["use", 0], ["close", 0],
                                              ["open", 1, "missing.png", {}], ["open", 1, "text.txt", {}],
                                              ["open", 1, "img.png", {"width": 0}], ["open", 1, "anim.gif", {}], ["use", 1],
                                              ["del", 1], ["open", 2, "img.png", {}], ["with", 2], ["open", 2, "img.png", {}],
                                              ["open", 2, "anim.gif", {}], ["del", 2]]},
]


# -------------------------------------------------------------- Coq encoding


def zl(xs):
    return core.coq_list(xs, Z)


def zll(rows):
    return core.coq_list(rows, zl)


def op_term(o):
    return {"next": "ENext", "close": "EClose", "drop": "EDrop"}.get(o[0]) or (
        f"ESeek {Z(o[1])}" if o[0] == "seek" else f"ESetSize {o[1]}" if o[0] == "size" else f"ESetEnv {o[1]}")


def iter_term(c, r):
    cached = c["cached"]
    carg = f"(inl {b(cached)})" if isinstance(cached, bool) else f"(inr {Z(cached)})"
    n = r["N"]
    # PIL source exhausted normally -> the library seeks it back to 0
    exhausted = any(row[0] == 1 for row in r["rows"]) and not any(o[0] in ("close", "drop") for o in c["ops"]) \
        and not any(row[0] == 2 for row in r["rows"])
    pil_reset_ok = True
    if c["source"] != "file" and exhausted:
        pil_reset_ok = r["pil_tell"] == 0
    keep = r["size_kept"] and r["pil_alive"] and r["fd_delta"] == 0 and pil_reset_ok
    return ("{| it_n := %d; it_repeat := %s; it_cached := %s; it_cache_on := %s; it_pos0 := %s; it_nenv := %d; "
            "it_table := %s; it_hashes := %s; it_ops := %s; it_file := %s; it_obs := %s; it_direct := %s; it_keep := %s |}" % (
                n, Z(c["repeat"]), carg, b(r["cache_on"]), Z((c.get("pos0") or 0) % n), r["nenv"], zll(r["table"]),
                zl(r["hashes"]), core.coq_list(c["ops"], op_term), b(c["source"] == "file"),
                zll([row[:5] for row in r["rows"]]), zl(r["direct"]), b(keep)))


def rop_term(o):
    if o[0] == "nextcd":
        return f"RNextCD {o[1]}"
    return "RPlain " + ({"next": "Next", "close": "Close", "drop": "Drop"}.get(o[0]) or (
        f"(Seek {Z(o[1])})" if o[0] == "seek" else f"(SetImageSize {o[1]})"))


def reent_term(c, r):
    cached = c["cached"]
    carg = f"(inl {b(cached)})" if isinstance(cached, bool) else f"(inr {Z(cached)})"
    n = r["N"]
    exhausted = any(row[0] == 1 for row in r["rows"]) and not any(o[0] in ("close", "drop") for o in c["ops"]) \
        and not any(row[0] == 2 for row in r["rows"])
    pil_reset_ok = True
    if c["source"] != "file" and exhausted:
        pil_reset_ok = r["pil_tell"] == 0
    keep = (r["size_kept"] and r["pil_alive"] and r["fd_delta"] == 0 and pil_reset_ok
            and all(x[2] == 0 for x in r["cd"]))
    # RNextCD carries the number of concurrent calls actually made during that next()
    ops = [["nextcd", x[0]] if o[0] == "nextcd" else o for o, x in zip(c["ops"], r["cd"])]
    obs = [row[:5] + [x[1]] for row, x in zip(r["rows"], r["cd"])]
    return ("{| rc_n := %d; rc_repeat := %s; rc_cached := %s; rc_cache_on := %s; rc_pos0 := %s; rc_table := %s; "
            "rc_hashes := %s; rc_ops := %s; rc_file := %s; rc_obs := %s; rc_keep := %s |}" % (
                n, Z(c["repeat"]), carg, b(r["cache_on"]), Z((c.get("pos0") or 0) % n), zll(r["table"]),
                zl(r["hashes"]), core.coq_list(ops, rop_term), b(c["source"] == "file"), zll(obs), b(keep)))


def fault_expect(c):
    return c["action"] in ("format", "str", "draw", "draw_anim", "draw_bad", "n_frames")


BAD_ARG_ERRORS = ("ValueError", "TypeError", "StyleError")


def frun_term(c, r, fault_free):
    if fault_free:
        ok = (r["raised"] in BAD_ARG_ERRORS) if c["action"] == "draw_bad" else r["raised"] == ""
    else:
        hit = r["hit"] != ""
        if not hit:
            ok = r["raised"] == ""  # the faulty call index was never reached on this path
        elif r["raised"] in ("RuntimeError", "RenderError"):
            ok = True
        elif r["raised"] == "KeyboardInterrupt":
            ok = True
        elif r["raised"] == "":
            ok = c["action"] == "draw_anim"  # an interrupt during an animation is handled by draw()
        else:
            ok = False
    return ("{| f_k := %s; f_outcome_ok := %s; f_unclosed := %s; f_fd_after := %s; f_fd_end := %s; f_size_kept := %s; "
            "f_tell_kept := %s; f_pil_alive := %s |}" % (
                Z(r["k"]), b(ok), Z(r["unclosed"]), Z(r["fd_after_action"]), Z(r["fd_end"]), b(r["size_kept"]),
                b(r["tell_kept"]), b(r["pil_alive"])))


def fault_term(c, r):
    runs = [frun_term(c, r["base"], True)] + [frun_term(c, x, False) for x in r["runs"]]
    return "{| fc_expect_tell_kept := %s; fc_runs := %s |}" % (b(fault_expect(c)), core.coq_list(runs))


def sfrun_term(c, r):
    exc_ok = r["raised"] in ("", SF_EXC[c.get("exc", "broken_pipe")])
    return ("{| sr_k := %s; sr_raised := %s; sr_exc_ok := %s; sr_tell := %d; sr_unclosed := %s; sr_fd_after := %s; "
            "sr_fd_end := %s; sr_size_kept := %s; sr_pil_alive := %s |}" % (
                Z(r["k"]), b(r["raised"] != ""), b(exc_ok), r["tell"], Z(r["unclosed"]), Z(r["fd_after"]), Z(r["fd_end"]),
                b(r["size_kept"]), b(r["pil_alive"])))


def sfault_term(c, r):
    base = r["base"]
    runs = [sfrun_term(c, base)] + [sfrun_term(c, x) for x in r["runs"]]
    return "{| sc_nframes := %d; sc_passes := %d; sc_pos0 := %d; sc_total := %d; sc_runs := %s |}" % (
        base["nframes"], c.get("repeat", 1), base["tell0"], base["calls"], core.coq_list(runs))


def url_term(c, r):
    ops = []
    for o in c["ops"]:
        if o[0] == "open":
            kind = URL_KINDS[o[2]]
            kw = json.dumps(o[3] if len(o) > 3 else {})
            if kind == 0 and not URL_KWARGS[kw]:
                kind = 3
            ops.append(f"UOpen {o[1]} {kind}")
        else:
            ops.append({"use": "UUse", "close": "UClose", "with": "UClose", "del": "UDel"}[o[0]] + f" {o[1]}")
    return "{| uc_base := %s; uc_ops := %s; uc_obs := %s; uc_files_end := %s; uc_fd_delta := %s |}" % (
        Z(r["base"]), core.coq_list(ops), zll([row[:3] for row in r["rows"]]), Z(r["files_end"]), Z(r["fd_delta"]))



def corder_term(c, r):
    kind = {"file": "KFile", "url": "KUrl"}.get(c["source"], "KPil")
    fin, ops = False, []
    for o, row in zip(c["ops"], r["rows"]):
        if o[0] == "new":
            ops.append(f"ONew {max(o[1], 0) * r['N']}")
        elif o[0] == "next":
            # [fails]: consulted by the model only once the image is finalized - as observed
            ops.append(f"ONext {o[1]} {b(fin and row[0] == 2)}")
        elif o[0] == "iclose":
            ops.append(f"OIterClose {o[1]}")
        else:
            ops.append("OImgClose")
            fin = True
    obs = ["(%d, %s, %s, %s)" % (row[0] if row[0] >= 0 else 99, Z(row[1]), Z(row[2]), b(row[3])) for row in r["rows"]]
    return "{| cc_kind := %s; cc_ops := %s; cc_obs := %s; cc_fd_end := %s; cc_tmp_end := %s |}" % (
        kind, core.coq_list(ops), core.coq_list(obs), Z(r["fd_end"]), Z(r["tmp_end"]))

# ------------------------------------------------------------------ evaluate

PARTS = {"iter": ("itcase", "bad check_iter cases", iter_term), "reent": ("rcase", "bad check_reent cases", reent_term),
         "fault": ("fcase", "bad check_fault cases", fault_term),
         "sfault": ("sfcase", "bad check_sfault cases", sfault_term),
         "url": ("ucase", "bad check_url cases", url_term),
         "corder": ("ccase", "bad check_corder cases", corder_term)}


def evaluate(cases, tag="c11"):
    impl = core.run_impl_parallel("impl_c11.py", cases, timeout=900)
    codes, errors = [0] * len(cases), []
    groups = {k: ([], []) for k in PARTS}
    for i, (c, r) in enumerate(zip(cases, impl)):
        if "driver_error" in r:
            errors.append(f"impl driver failed on case {i} ({c['part']}): {r['driver_error'][-500:]}")
            continue
        try:
            groups[c["part"]][0].append(PARTS[c["part"]][2](c, r))
            groups[c["part"]][1].append(i)
        except Exception as e:  # noqa: BLE001
            errors.append(f"encoding of case {i} failed: {e!r}")
    for part, (terms, owner) in groups.items():
        if not terms:
            continue
        typ, expr, _ = PARTS[part]
        bad, errs = core.coq_shards(f"{tag}{part[0]}", HEADER, terms, typ, expr, shard=40)
        errors += errs
        for idx, code in bad:
            codes[owner[idx]] = code
    return codes, errors, impl


def simpler(c):
    out = []
    if c["part"] == "reent":
        ops = c["ops"]
        for k in range(len(ops) - 1, -1, -1):
            out.append({**c, "ops": ops[:k] + ops[k + 1:]})
        for k, o in enumerate(ops):
            if o[0] == "nextcd" and (o[1] != 1 or o[2] != "reent"):
                out.append({**c, "ops": ops[:k] + [["nextcd", 1, o[2]]] + ops[k + 1:]} if o[1] != 1 else
                           {**c, "ops": ops[:k] + [["nextcd", 1, "reent"]] + ops[k + 1:]})
        if len(c["sizes"]) > 1 and not any(o[0] == "size" for o in ops):
            out.append({**c, "sizes": c["sizes"][:1]})
        for k, v in (("pos0", 0), ("cached", False), ("source", "file"), ("fail_frame", None)):
            if c.get(k) not in (v, None):
                out.append({**c, k: v})
        if c["repeat"] not in (1, -1):
            out.append({**c, "repeat": 1})
        return [x for x in out if x["ops"]][:40]
    if c["part"] == "iter":
        ops = c["ops"]
        for k in range(len(ops) - 1, -1, -1):
            out.append({**c, "ops": ops[:k] + ops[k + 1:]})
        if len(c["sizes"]) > 1 and not any(o[0] == "size" for o in ops):
            out.append({**c, "sizes": c["sizes"][:1]})
        if c.get("envs") and not any(o[0] == "env" for o in ops):
            out.append({k: v for k, v in c.items() if k != "envs"} | {"envs": c["envs"][:1]} if len(c["envs"]) > 1 else
                       {k: v for k, v in c.items() if k != "envs"})
        for k, v in (("pos0", 0), ("cached", False), ("source", "file"), ("fail_frame", None)):
            if c.get(k) not in (v, None):
                out.append({**c, k: v})
        if c["repeat"] not in (1, -1):
            out.append({**c, "repeat": 1})
        return [x for x in out if x["ops"]][:40]
    if c["part"] == "corder":
        ops = c["ops"]
        for k in range(len(ops) - 1, -1, -1):
            if ops[k][0] == "new":  # removing a construction renumbers the later iterators
                i = sum(1 for o in ops[:k] if o[0] == "new")
                rest = [o for o in ops[:k] + ops[k + 1:] if not (o[0] in ("next", "iclose") and o[1] == i)]
                rest = [[o[0], o[1] - 1] if o[0] in ("next", "iclose") and o[1] > i else o for o in rest]
            else:
                rest = ops[:k] + ops[k + 1:]
            if any(o[0] == "new" for o in rest):
                out.append({**c, "ops": rest})
        for k, o in enumerate(ops):
            if o[0] == "new" and (o[1] != 1 or o[2]):
                out.append({**c, "ops": ops[:k] + [["new", 1, False]] + ops[k + 1:]})
        if c["style"] != "block":
            out.append({**c, "style": "block"})
        if c["src"] and c["src"] != _CSRC:
            out.append({**c, "src": dict(_CSRC)})
        return out[:40]
    if c["part"] == "url":
        ops = c["ops"]
        for k in range(len(ops) - 1, -1, -1):
            rest = ops[:k] + ops[k + 1:]
            # keep the history well-formed: no use/close/del of a slot that was never opened
            seen, ok = set(), True
            for o in rest:
                if o[0] == "open":
                    seen.add(o[1])
                elif o[1] not in seen:
                    ok = False
                if o[0] == "del":
                    seen.discard(o[1])
            if ok and rest:
                out.append({**c, "ops": rest})
        return out
    if c["part"] == "sfault":
        # one position at which the stream breaks (from the end first: the clean-up's calls), then a plainer scenario
        if c.get("ks") is None or len(c["ks"]) > 1:
            for x in ([-1, -2, -3, -4, -5] + [k for k in (c.get("ks") or [0, 1, 2, 3, 5, 8, 13]) if k >= 0]):
                out.append({**c, "ks": [x]})
            return out
        for k, v in (("tty", False), ("cached", False), ("repeat", 1), ("source", "file"), ("exc", "broken_pipe"),
                     ("style_args", None), ("pos0", 1)):
            if c.get(k) not in (v, None):
                out.append({kk: vv for kk, vv in {**c, k: v}.items() if vv is not None or kk == "ks"})
        if c["src"].get("frames", 1) > 2:
            out.append({**c, "src": dict(c["src"], frames=2)})
        return out
    for k, v in (("kbd", False), ("pos0", 0), ("source", "file")):
        if c.get(k) not in (v, None):
            out.append({**c, k: v})
    return out


def shrink(case, rounds=25):
    cur = case
    for _ in range(rounds):
        cands = simpler(cur)
        if not cands:
            break
        codes, errors, _ = evaluate(cands, tag="c11s")
        nxt = next((c for c, k in zip(cands, codes) if k >= 2), None)
        if nxt is None or errors:
            break
        cur = nxt
    return cur


def src_str(s):
    return s.get("name") or f"{s['mode']} {s['w']}x{s['h']} {s['fmt']} x{s.get('frames', 1)}f"


def describe(c):
    if c["part"] in ("iter", "reent"):
        ops = " ".join(o[0] if len(o) == 1 else f"{o[0]}({','.join(str(x) for x in o[1:])})" for o in c["ops"])
        envs = "".join(f" env{j}={e}" for j, e in enumerate(c.get("envs") or []))
        return (f"{c['part']} {c['style']} src={src_str(c['src'])} via {c['source']} spec={c['spec']!r} repeat={c['repeat']} "
                f"cached={c['cached']} sizes={c['sizes']}{envs} pos0={c.get('pos0', 0)} fail_frame={c.get('fail_frame')} "
                f"ops=[{ops}]")
    if c["part"] == "fault":
        return (f"fault {c['style']} src={src_str(c['src'])} via {c['source']} action={c['action']} spec={c['spec']!r} "
                f"size={c['size']} " + " ".join(f"{k}={c[k]}" for k in ("bad", "repeat", "cached", "take", "end", "kbd", "style_args") if k in c))
    if c["part"] == "sfault":
        return (f"sfault {c['style']} animated draw() src={src_str(c['src'])} via {c['source']} size={c['size']} "
                f"pos0={c.get('pos0', 0)} repeat={c.get('repeat', 1)} cached={c.get('cached')} isatty={bool(c.get('tty'))} "
                f"stream raises {SF_EXC[c.get('exc', 'broken_pipe')]} from its k-th write()/flush() on, "
                f"k in {'every position of the fault-free run' if c.get('ks') is None else c['ks']}"
                + (f" style_args={c['style_args']}" if c.get("style_args") else ""))
    if c["part"] == "corder":
        names = {"new": lambda o: f"it{{}} = ImageIterator(image, {o[1]}, '1.1', {o[2]})", "next": lambda o: f"next(it{o[1]})",
                 "iclose": lambda o: f"it{o[1]}.close()", "imgclose": lambda o: "image.close()"}
        k, parts = 0, []
        for o in c["ops"]:
            t = names[o[0]](o)
            if o[0] == "new":
                t = t.format(k)
                k += 1
            parts.append(t)
        srcs = {"file": "from_file", "url": "from_url (local HTTP server, 3-frame GIF)", "pil_file": "a caller's PIL image opened from a file",
                "pil_bytes": "a caller's PIL image decoded from bytes"}
        return (f"corder {c['style']} image source: {srcs[c['source']]}"
                + (f" [{src_str(c['src'])}]" if c.get("src") else "") + ": " + "; ".join(parts)
                + "  -- observed after every operation, nothing dropped or collected")
    return f"url {c['style']} ops={c['ops']}"


def signature(c):
    d = {k: v for k, v in c.items() if k not in ("src", "max_k")}
    s = c.get("src") or {}
    d["src"] = [s.get("name"), s.get("mode"), s.get("w"), s.get("h"), s.get("fmt"), s.get("frames")]
    return core.sig(d)


def explain(c, r):
    if c["part"] in ("iter", "reent"):
        return {"N": r.get("N"), "table": r.get("table"),
                "concurrent close() per op (made, refused by ValueError, ended otherwise)": r.get("cd", [])[:30],
                "rows(code,frame,tell,loop_no,unclosed_images)": [x[:5] for x in r.get("rows", [])][:30],
                "direct(frame formatted directly right after each yield)": r.get("direct", [])[:30],
                "hashes": r.get("hashes"),
                "size_kept": r.get("size_kept"), "fd_delta": r.get("fd_delta"), "pil_alive": r.get("pil_alive"),
                "pil_tell": r.get("pil_tell")}
    if c["part"] == "fault":
        bad = [x for x in [r["base"]] + r["runs"] if x.get("unclosed") or x.get("fd_after_action") or x.get("fd_end")
               or not x.get("size_kept") or not x.get("pil_alive") or not x.get("tell_kept")]
        return {"base": r["base"], "offending_runs": bad[:5]}
    if c["part"] == "corder":
        return {"n_frames": r.get("N"),
                "rows(outcome, descriptors held for the library, temp-dir files, caller's image usable) after each op":
                    [[CORDER_OUT.get(x[0], x[0])] + x[1:] for x in r.get("rows", [])],
                "fd balance after drop + gc": r.get("fd_end"), "temp-dir balance then": r.get("tmp_end"),
                "first unexpected exception": r.get("odd")}
    if c["part"] == "sfault":
        bad = [x for x in [r["base"]] + r["runs"] if x.get("unclosed") or x.get("fd_after") or x.get("fd_end")
               or not x.get("size_kept") or not x.get("pil_alive") or x.get("tell") != x.get("tell0")]
        return {"fault_free_run": r["base"], "offending_runs(k = calls accepted before the stream broke)": bad[:5]}
    return r


OUT_NAMES = {0: "frame", 1: "StopIteration", 2: "render error", 3: "hang", 4: "seek ok", 5: "seek out of range",
             6: "seek before start", 7: "seek after end", 8: "closed", 9: "size changed"}
CORDER_OUT = {0: "frame", 1: "StopIteration", 2: "error", 3: "refused: image finalized", 8: "closed", 9: "created"}
URL_NAMES = {0: "ok", 1: "404", 2: "not an image", 3: "bad constructor argument", 4: "used after close", 9: "other"}


def run(ctx):
    rng = ctx.rng
    if ctx.replay:
        cases = [ctx.replay["replay"]["case"]]
    else:
        ni, nf, nu = (45, 16, 6) if ctx.quick else (1500, 300, 60)
        cases = list(ITER_CORPUS) + [gen_iter_case(rng, long=(i % 4 == 0)) for i in range(ni)]
        cases += list(REENT_CORPUS) + [gen_reent_case(rng) for _ in range(14 if ctx.quick else 400)]
        cases += list(FAULT_CORPUS) + [gen_fault_case(rng, ctx.quick) for _ in range(nf)]
        cases += list(SFAULT_CORPUS) + [gen_sfault_case(rng, ctx.quick) for _ in range(8 if ctx.quick else 150)]
        cases += list(URL_CORPUS) + [gen_url_case(rng) for _ in range(nu)]
        cases += list(CORDER_CORPUS) + [gen_corder_case(rng) for _ in range(24 if ctx.quick else 600)]
    codes, errors, impl = evaluate(cases)
    hist = {"part": {}, "iter_style": {}, "iter_ops": {}, "iter_outcomes": {}, "iter_cache_on": 0, "iter_fail_frame": 0,
            "iter_sources": {}, "fault_action": {}, "fault_runs": 0, "fault_hits_by_method": {}, "fault_raised": {},
            "fault_images_opened": 0, "fault_images_left_unclosed": 0, "iter_images_opened": 0, "iter_repeat": {},
            "iter_cached_arg": {}, "iter_len": {}, "url_ops": {}, "url_errors": {},
            "iter_seek_run_len(acknowledged seeks between two next)": {}, "iter_env_cases": 0,
            "iter_yields_after_env_change_with_cache": 0, "iter_yields_whose_direct_frame_changed_with_env": 0,
            "reent_ops": {}, "reent_delivery(calls made)": {}, "reent_close_calls_made": 0,
            "reent_close_calls_refused": 0, "reent_next_with_refusal_outcome": {},
            "reent_cases_released_after_a_refusal(file source)": 0,
            "sfault_runs": 0, "sfault_style": {}, "sfault_source": {}, "sfault_exc": {}, "sfault_isatty": {},
            "sfault_runs_stream_refused_a_call": 0, "sfault_runs_broken_in_the_last_5_calls(clean-up)": 0,
            "sfault_raised": {}, "sfault_calls_refused_per_run": {}, "sfault_pos0": {},
            "corder_source": {}, "corder_ops": {}, "corder_outcomes": {}, "corder_iterators": {},
            "corder_image_close_position": {}, "corder_points_with_everything_closed_explicitly": 0,
            "corder_next_after_finalization": {}, "corder_cases_iterator_closed_or_advanced_after_its_image": 0}

    def inc(d, k, v=1):
        d[str(k)] = d.get(str(k), 0) + v

    evaluations, distinct = 0, set()
    for c, r in zip(cases, impl):
        if "driver_error" in r:
            continue
        inc(hist["part"], c["part"])
        if c["part"] == "iter":
            evaluations += 1
            inc(hist["iter_style"], c["style"])
            inc(hist["iter_sources"], c["source"])
            hist["iter_cache_on"] += bool(r["cache_on"])
            hist["iter_images_opened"] += r.get("opened", 0)
            inc(hist["iter_repeat"], c["repeat"])
            inc(hist["iter_cached_arg"], "bool" if isinstance(c["cached"], bool) else "int")
            inc(hist["iter_len"], min(len(c["ops"]) // 10 * 10, 40))
            hist["iter_fail_frame"] += c.get("fail_frame") is not None
            for o in c["ops"]:
                inc(hist["iter_ops"], o[0])
            for row in r["rows"]:
                inc(hist["iter_outcomes"], OUT_NAMES.get(row[0], row[0]))
            hist["iter_env_cases"] += bool(c.get("envs"))
            runlen, env_changed, seen = 0, False, {}
            for o, row, d in zip(c["ops"], r["rows"], r["direct"]):
                if o[0] == "seek" and row[0] == 4:
                    runlen += 1
                elif o[0] == "next":
                    if runlen and row[0] == 0:
                        inc(hist["iter_seek_run_len(acknowledged seeks between two next)"], runlen)
                    runlen = 0
                    if row[0] == 0:
                        if env_changed and r["cache_on"]:
                            hist["iter_yields_after_env_change_with_cache"] += 1
                        if seen.get(row[2], d) != d:
                            hist["iter_yields_whose_direct_frame_changed_with_env"] += 1
                        seen[row[2]] = d
                elif o[0] == "env":
                    env_changed = True
            kinds = {o[0] for o in c["ops"]}
            if sum(1 for row in r["rows"] if row[0] == 0) >= 2 and (kinds & {"seek", "size", "env", "close", "drop"} or
                                                                   any(row[0] == 1 for row in r["rows"])):
                distinct.add(signature(c))
        elif c["part"] == "reent":
            evaluations += 1
            refused_seen = False
            for o, row, x in zip(c["ops"], r["rows"], r["cd"]):
                inc(hist["reent_ops"], o[0])
                if o[0] == "nextcd":
                    inc(hist["reent_delivery(calls made)"], o[2], x[0])
                    hist["reent_close_calls_made"] += x[0]
                    hist["reent_close_calls_refused"] += x[1]
                    if x[1]:
                        refused_seen = True
                        inc(hist["reent_next_with_refusal_outcome"], OUT_NAMES.get(row[0], row[0]))
            if refused_seen:
                distinct.add(signature(c))
                if c["source"] == "file" and r["rows"] and r["rows"][-1][4] == 0:
                    hist["reent_cases_released_after_a_refusal(file source)"] += 1
        elif c["part"] == "fault":
            inc(hist["fault_action"], c["action"])
            evaluations += 1 + len(r["runs"])
            hist["fault_runs"] += 1 + len(r["runs"])
            hist["fault_images_opened"] += r["base"]["opened"] + sum(x["opened"] for x in r["runs"])
            hist["fault_images_left_unclosed"] += r["base"]["unclosed"] + sum(x["unclosed"] for x in r["runs"])
            for x in r["runs"]:
                inc(hist["fault_hits_by_method"], x["hit"] or "(not reached)")
                inc(hist["fault_raised"], x["raised"] or "(none)")
                if x["hit"]:
                    distinct.add(signature(c) + f"/k{x['k']}")
            if c["action"] == "draw_bad" and r["base"]["raised"]:
                distinct.add(signature(c))
        elif c["part"] == "sfault":
            evaluations += 1 + len(r["runs"])
            hist["sfault_runs"] += 1 + len(r["runs"])
            inc(hist["sfault_style"], c["style"])
            inc(hist["sfault_source"], c["source"])
            inc(hist["sfault_exc"], c.get("exc", "broken_pipe"))
            inc(hist["sfault_isatty"], bool(c.get("tty")))
            inc(hist["sfault_pos0"], r["base"]["tell0"])
            for x in r["runs"]:
                inc(hist["sfault_raised"], x["raised"] or "(none)")
                inc(hist["sfault_calls_refused_per_run"], x["failed"])
                if x["failed"]:
                    hist["sfault_runs_stream_refused_a_call"] += 1
                    distinct.add(signature({k: v for k, v in c.items() if k != "ks"}) + f"/s{x['k']}")
                if x["k"] >= r["base"]["calls"] - 5:
                    hist["sfault_runs_broken_in_the_last_5_calls(clean-up)"] += 1
        elif c["part"] == "corder":
            evaluations += 1
            inc(hist["corder_source"], c["source"])
            inc(hist["corder_iterators"], sum(1 for o in c["ops"] if o[0] == "new"))
            fin, marks, started, late = False, [], set(), False
            for o, row in zip(c["ops"], r["rows"]):
                inc(hist["corder_ops"], o[0])
                inc(hist["corder_outcomes"], CORDER_OUT.get(row[0], row[0]))
                if o[0] == "new":
                    marks.append(False)
                elif o[0] == "next":
                    started.add(o[1])
                    if fin and o[1] < len(marks) and not marks[o[1]]:
                        late = True
                        inc(hist["corder_next_after_finalization"], CORDER_OUT.get(row[0], row[0]))
                elif o[0] == "iclose" and o[1] < len(marks):
                    late = late or (fin and not marks[o[1]])
                    marks[o[1]] = True
                elif o[0] == "imgclose":
                    if not fin:
                        inc(hist["corder_image_close_position"],
                            "before any iterator" if not marks else "before the first next()" if not started
                            else "after every iterator.close()" if all(marks) else "while an iterator is open")
                    fin = True
                if fin and all(marks):
                    hist["corder_points_with_everything_closed_explicitly"] += 1
            hist["corder_cases_iterator_closed_or_advanced_after_its_image"] += late
            if late:
                distinct.add(signature(c))
        elif c["part"] == "url":
            evaluations += 1
            for o, row in zip(c["ops"], r["rows"]):
                inc(hist["url_ops"], o[0])
                inc(hist["url_errors"], URL_NAMES.get(row[0], row[0]))
            if len(c["ops"]) >= 3:
                distinct.add(signature(c))
    mismatches, failures = [], []
    shrunk = set()
    for i, code in enumerate(codes):
        if not code:
            continue
        c, r = cases[i], impl[i]
        if code >= 2:
            if len(failures) >= 20:
                continue
            small, k2, r2 = c, code, r
            if c["part"] not in shrunk and not ctx.replay:
                shrunk.add(c["part"])
                small = shrink(c)
                kk, _, ii = evaluate([small], tag="c11r")
                k2, r2 = kk[0], ii[0]
            failures.append({
                "signature": signature(small),
                "what": f"{small['part']} observation contradicts the specification (code {k2}): {describe(small)}",
                "replay": {"case": small, "observed": explain(small, r2), "code": k2},
            })
        else:
            mismatches.append({"case": c, "code": code, "observed": explain(c, r)})
    return {
        "corr_name": "ImgIterClose.trace DFixed == histories with image.close() at any position, observed after every op; ImgIter.step (two-phase generator) == ImageIterator histories; ImgIterSpec (direct formatting) == the same; "
                     "ImgIterReent.rstep (close() arriving while a next() executes) == the same with concurrent close() calls; "
                     "fault enumeration with Image.open / Image.close pairing + fd / temp-file observation; "
                     "ImgIterFin.anim_draw code_cleanup == animated draw() into a stream that starts failing at its k-th call",
        "evaluations": evaluations,
        "distinct_nontrivial": len(distinct),
        "rule": "iter: corpus + random histories (3-45 ops of next / seek incl. out-of-range / close / drop / size change / "
                "environment change; three shapes: plain iteration, pass-structured (whole passes with a run of seeks before the "
                "first frame, inside a pass or at the end of a pass, and a size / environment change inside or between passes), "
                "free mix; seeks come in RUNS of 1-4 consecutive calls (histogram iter_seek_run_len); repeat 1,2,3,-1,-3; cached "
                "bool or int around n_frames; 1-3 image size settings incl. dynamic ones (FIT, AUTO, FIT_TO_WIDTH, ORIGINAL); "
                "~40% of the cases carry 2-3 ENVIRONMENTS (terminal size; global cell ratio for the block style) with at least one "
                "dynamic size setting and absolute-padding specifiers, the environment changing between yields; block / kitty / "
                "iterm2 with LINES, WHOLE and ANIM specifiers; file, PIL-from-file and PIL-from-bytes sources; lion.gif, anim.webp "
                "and synthetic GIF/WEBP of 2-6 frames; initial seek position; optional deterministic failure of one frame); per "
                "operation: outcome, frame identity against direct formatting under the configuration in force (table per "
                "(size setting, environment) visited) AND against the direct formatting of that frame right after the yield, "
                "image.tell(), loop_no, images opened for the iterator and not yet closed.  Non-trivial: >= 2 frames yielded and "
                "a seek / size change / environment change / close / drop or an exhaustion.  reent (round 7): corpus + random "
                "histories over synthetic 2-5 frame GIF/WEBP sources (file mostly; PIL-from-file, PIL-from-bytes) of next / seek runs "
                "/ size change / close / drop and nextcd(m, how): a next() during whose first render m = 1-3 calls of close() arrive "
                "re-entrantly from the render, from a second thread behind Event gates, or from a SIGUSR1 handler raised inside the "
                "render; ended by close / drop / exhaustion / abandonment and a few operations after the end; per operation the iter "
                "row (outcome, frame, tell, loop_no, images opened and not yet closed) and the number of concurrent calls refused "
                "by ValueError('generator already executing'); at the end fd balance; non-trivial: at least one refused call.  fault: each scenario (format / str / draw / animated draw / iteration with early close, exhaustion "
                "or drop incl. before the first frame / n_frames / draw with a rejected repeat, cached or style argument) x every "
                "index k of the library's PIL convert/resize/alpha_composite/save/tobytes calls (first 8 in the quick tier for "
                "generated scenarios, all for the corpus); one evaluation per run; non-trivial: the fault was reached or the "
                "argument was rejected.  sfault (round 8): animated draw() of old-API images (block / kitty / "
                "iterm2; file, PIL-from-file, PIL-from-bytes sources; synthetic GIF/WEBP of 2-5 frames; start frame mostly != 0; "
                "repeat 1-2; cached bool/int; stdout reporting isatty() or not) with sys.stdout replaced by a stream whose "
                "write()/flush() calls succeed k times and then raise for ever (BrokenPipeError / OSError / ValueError('I/O "
                "operation on closed file')), a fake sleeper; a counting run first, then k = EVERY position of the fault-free run "
                "for the corpus and in the thorough tier, a spread (first two, two inner, the LAST FIVE: the clean-up's calls) for "
                "generated scenarios in the quick tier; per run: raised?, the stream's own exception?, image.tell() after vs before, "
                "Image.open/close pairing, descriptors, size setting, caller's PIL image usable; judged by check_sfault in Coq "
                "(spec side: a function of the observation alone; model side: anim_draw code_cleanup); one evaluation per run; "
                "non-trivial: the stream refused at least one call.  url: open (200 image / 404 / non-image / empty body / bad constructor argument) / use / "
                "close / with / del histories over 3 slots.  corder (round 9): corpus (the five orders "
                "image.close() then iterator.close() / the other order / before the first next() / a next() after finalization / an "
                "iterator requested from a finalized image, for file, URL, PIL-from-file, PIL-from-bytes sources; two iterators with the "
                "image closed between them; exhaustion from the cache after finalization) + random histories of 1-3 "
                "ImageIterator(image) / next / iterator.close() over synthetic 2-4 frame GIFs (Pillow holds a GIF's descriptor exactly "
                "while the image is open) with image.close() inserted at a uniformly chosen position (sometimes "
                "twice) and mostly a closing phase in random order; after EVERY operation, with every object still referenced: "
                "outcome, descriptors held on behalf of the library, temp-dir listing, caller's PIL image usable; after the history: "
                "balance after drop + gc; judged by check_corder in Coq (model: trace DFixed; specification: caller's image usable "
                "throughout, temp copy exists iff image.close() not yet called, NO descriptor at any point where close() has been "
                "called on the image and on every iterator created so far, balance at the end); non-trivial: an iterator closed or "
                "advanced after its image was finalized.",
        "samples": [describe(c) for c in (
            [c for c in cases if c["part"] == "iter"][:1] + [c for c in cases if c["part"] == "iter"][len(ITER_CORPUS):][:1]
            + [c for c in cases if c["part"] == "reent"][:1] + [c for c in cases if c["part"] == "reent"][len(REENT_CORPUS):][:1]
            + [c for c in cases if c["part"] == "fault"][:1] + [c for c in cases if c["part"] == "fault"][len(FAULT_CORPUS):][:2]
            + [c for c in cases if c["part"] == "sfault"][:1] + [c for c in cases if c["part"] == "sfault"][len(SFAULT_CORPUS):][:1]
            + [c for c in cases if c["part"] == "url"][-1:]
            + [c for c in cases if c["part"] == "corder"][:1] + [c for c in cases if c["part"] == "corder"][len(CORDER_CORPUS):][:1])],
        "histogram": hist,
        "mismatches": mismatches,
        "failures": failures,
        "errors": errors,
        "assumptions": [
            "fmt_frame (rendering + formatting of frame k at the image's rendered size) is a deterministic function of (k, size); "
            "it raises EOFError exactly at k = n_frames and never below (hypotheses of imgiter_frames / imgiter_cache_transparent; "
            "validated per case against direct formatting on a second instance)",
            "hash(rendered_size) is injective on the sizes of the history (hypothesis of imgiter_cache_transparent; the real "
            "hashes are fed to the model in the correspondence)",
            "environment histories: the rendered size is a function rsize(size setting, environment) and a frame a function of "
            "(frame number, rendered size) — true of terminal resizes and of cell-ratio changes for the block style; a change of "
            "the CELL SIZE that leaves the rendered size in cells unchanged alters graphics-style frames (pixel size) without "
            "altering the cache key: not generated (observation reported to the coordinator); padding given RELATIVE to the "
            "terminal size is resolved when the iterator is constructed, so environment-changing histories use absolute padding",
            "file-descriptor balance, temp-file lifetime and survival of the caller's PIL image depend on Pillow, the OS and "
            "CPython: observed at run time (parts ii, iii), not proved; what is proved (skeleton theorems) is that every image "
            "obtained from _get_image() reaches _close_image() on every path and under every fault position, and what is "
            "observed is that every Image.open is followed by Image.close() on that image before the call returns",
            "hand-written skeletons of _get_render_data / _render_image (model/ImgSkel.v): every call other than _close_image has no "
            "effect on the image passed in; frame=True only for animated images (ImageIterator refuses others)",
            "the code modelled is /repo + pending_fixes/C11_close_unrendered_images.diff",
            "close order (round 9): the model is the code AFTER pending_fixes/C11_iterator_close_after_image_close.diff; whether a "
            "next() on an iterator whose image has been finalized yields or raises is decided by the environment (it raises "
            "whenever the render reaches _close_image, yields from the iterator's cache or when no conversion is needed): the "
            "observed outcome is fed to the model as the [fails] flag of ONext, the theorems hold for every value of it; that a "
            "descriptor is held exactly by a not-yet-closed PIL image opened from a path is Pillow/OS behaviour, observed",
            "stream faults (round 8): the output stream is modelled as accepting a number of further write()/flush() calls and "
            "refusing every later one (a stream that recovers after a refused call is not modelled); image_it.close(), "
            "_close_image() and the assignment to _seek_position do not fail because of the stream; cursor_down() is pure; "
            "the tie to the source is the generated skeleton's finally block (tx_skel.py's call table decides what is a "
            "stream call)",
            "concurrent close(): a call that arrives while the frame generator is executing is answered by CPython's "
            "generator.close() with ValueError('generator already executing') before anything else happens (model: close_code); "
            "the driver delivers such calls at the first _render_image of the next() in progress (same thread re-entrantly, a "
            "second thread while the rendering thread waits, a signal handler); a call landing between two bytecodes of close() "
            "ITSELF in another thread (true preemption inside close) is not modelled",
        ],
        "trusted": ["impl_c11.py BreakingStream (the k-th and every later write()/flush() raises; isatty() as told)", "impl_c11.py (wrappers around PIL.Image.open, Image.close and five Image methods, /proc/self/fd listing, local "
                    "http.server)", "harness/tx/tx_skel.py (call table of the translated skeletons)"],
    }
