"""C15 — cached terminal facts never outlive the condition they were computed under.

Correspondence: generated histories over {resize, swap toggles, query toggles,
set_cell_ratio, getters} run on the REAL term_image functions against a scripted FIFO
terminal (impl/impl_c15.py; the test-suite stubs are NOT installed) and on
model/Caches.v inside Coq (model/CachesTie.v).  [check] compares the observed trace with
the model's trace AND with the history-level specification [spec_trace] (answers = fresh
computations under the provenance status), and judges the property on observations
alone against a twin copy of the package run from empty caches.  A sample of final
states is recomputed in brand-new interpreters; 2-3 real threads are released together
on first calls of the memoised getters.

Histories contain ABORTED computations: the ops CSA / CRA / COA / NVA are the getters
called with a fault armed in the scripted terminal (KeyboardInterrupt while the reply is
awaited, OSError from writing the request, termios.error from tcsetattr — all raised
from inside the real `query_terminal`).  A quarter of the generated histories is built
around the pattern [successful get; resize in cells with no pixel size from the ioctl;
aborted get; get again at the same size].

A RESIZE MAY LAND WHILE A MEMOISED BODY RUNS: the op TSR c r x y is the
`terminal_size_cached` probe called with a resize armed in its body (the body reads the
terminal, then the terminal becomes (c, r, x, y), then the body returns).  The value
computed for the old size must not be served for the new one: every 8th history is built
around [(probe; plain resize;) probe that has to compute, with a resize to another size
landing in its body; probe].

RESULTS THAT ARE None: sequential histories of calls / invalidations of a probe decorated
with the REAL `utils.cached` whose body returns None / 0 / "" / (None, None) / tuples per
scripted argument tuple, body runs counted; judged against the micro-step model of
cached_wrapper run by one thread, and on the observations alone: at most one body run per
argument tuple per invalidation epoch (CachesTie.pcheck).

SWAP TOGGLES UNDER THREAD SCHEDULES: `utils._cell_size_lock` is replaced by a re-entrant
lock reporting the toggling thread's lock events, so that a second thread's
get_cell_size() runs exactly before / at the acquire / at the release of
enable_/disable_win_size_swap(), or the toggling thread runs while the getter is inside
its lock region; judged against Caches.wstep under the same schedule and, on observations
alone: a get_cell_size() made after both threads finished equals the twin's fresh value
for the final setting (CachesTie.scheck).

A MEMOISED CALL AGAINST A CONCURRENT INVALIDATION: 2-3 real threads run programs of calls /
_invalidate_cache() / enable_queries() / disable_queries() on get_terminal_name_version,
get_fg_bg_colors, get_cell_size or a probe under the real utils.cached, under a cooperative
scheduler with parking points at the memo's lock (acquire / acquired / release), at the start
of the memoised body, inside the body after `_queries_enabled` was read, and at the table's
setdefault; a schedule is a list of picks; ALL interleavings of the picks of [first call ||
enable_queries()] and [first call || _invalidate_cache()] are enumerated, the rest sampled.
Judged against model/CachesInval.v under the same schedule and, on observations alone
(CachesInvalTie.icheck): with queries enabled at the end a call made afterwards returns the
fresh value with queries enabled; no call returns a value whose body started before the
begin of an invalidation that had returned when the call began.

THE CACHE KEY COMES FROM THE LIBRARY'S OWN get_terminal_size(): a share of the histories runs with
`utils.get_terminal_size` NOT replaced, on a pty whose window (cells and pixels) is set with
TIOCSWINSZ at every resize, in a process environment that holds COLUMNS / LINES absent / equal to
the window at start-up (stale after the first resize) / different / not usable (0, negative, not
a number), and changed in mid-history (op ENV); judged against model/CachesEnv.v (the window is the
key, the environment is in the state: CachesEnvTie.echeck) and, on observations alone, against the
twin's fresh values for the window the driver has set (the twin never sees the environment).

THE CACHE HAND-OVER AT THE FIRST Process.start(): `utils._process_start_wrapper` (around a start
that does not fork) is a third actor of the cooperative scheduler, next to win-size-swap toggles /
enable_queries() and get_cell_size(), with parking points at every lock boundary of the old lock and
of the shared array's lock, around the copy (`utils.Array`) and between the rebinding of the cache
global and of the lock global (`get_lock()`); ALL interleavings of [Process.start() || toggle] are
enumerated, the rest sampled; judged against model/CachesHand.v under the same schedule and, on
observations alone, a get_cell_size() made after all threads have finished equals the twin's fresh
value for the final setting (CachesHandTie.xcheck)."""
from __future__ import annotations

import copy
import time
from concurrent.futures import ThreadPoolExecutor

import core

LEVEL = "proof"
EXTRA_TARGETS = ["model/CachesTie.vo", "model/CachesInvalTie.vo", "model/CachesEnvTie.vo", "model/CachesHandTie.vo",
                 "model/CachesArgsTie.vo"]

HEADER = ("From Coq Require Import List ZArith Bool.\nImport ListNotations.\n"
          "From TI Require Import lib.Sched model.Caches model.CachesTie model.CachesInval model.CachesInvalTie.\n"
          "From TI Require Import model.CachesEnv model.CachesEnvTie model.CachesHand model.CachesHandTie.\n"
          "From TI Require Import model.CachesArgs model.CachesArgsTie.\n"
          "Open Scope Z_scope.\n")

CELLS = [(8, 16), (10, 20), (9, 18), (7, 15), (1, 1), (12, 24), (10, 20), (16, 32)]
COLS = [1, 2, 3, 80, 80, 100, 120, 132, 200]
ROWS = [1, 2, 24, 24, 30, 50, 60]


def b(x):
    return "true" if x else "false"


def gen_size(rng):
    c, r = rng.choice(COLS), rng.choice(ROWS)
    cw, ch = rng.choice(CELLS)
    u = rng.random()
    if u < 0.06:
        x, y = 0, r * ch
    elif u < 0.10:
        x, y = c * cw, 0
    elif u < 0.14:
        x, y = max(c - 1, 0), r * ch  # narrower than one pixel per cell -> cell width 0
    else:
        x, y = c * cw + rng.choice([0, 0, 0, 3, 7]), r * ch + rng.choice([0, 0, 5])
    return [c, r, min(x, 65535), min(y, 65535)]


def gen_env(rng):
    return {
        "tty": int(rng.random() < 0.92),
        "io": int(rng.random() < 0.55),
        "xc": int(rng.random() < 0.5),
        "xa": int(rng.random() < 0.6),
        "xtname": rng.choice([None, None, [1, 1], [1, 6], [1, 1], [2, 2], [3, 4], [4, 3], [5, 5]]),
        "envname": rng.choice([[0, 0], [0, 0], [7, 3], [8, 0], [1, 0], [3, 4], [0, 5]]),
        "fg": rng.choice([-1, 0, 0xFFFFFF, rng.randrange(1 << 24)]),
        "bg": rng.choice([-1, 0, 0x101010, rng.randrange(1 << 24)]),
        "pres": rng.randrange(32),
        "mute": int(rng.random() < 0.08),
    }


FAULTS = ["kbd", "kbd", "oserr", "termios"]
ABORTS = {"CS": "CSA", "CR": "CRA", "CO": "COA", "NV": "NVA"}


def arm(rng, op):
    """the getter op called with a fault armed"""
    return [ABORTS[op[0]]] + list(op[1:]) + [rng.choice(FAULTS)]


def gen_abort_case(rng, maxlen=14):
    """[successful get; resize in cells where the ioctl reports no pixel size; ABORTED get;
    get again at the same size], embedded in a random history"""
    env = gen_env(rng)
    env["tty"] = 1
    zero_px = rng.random() < 0.3          # the ioctl works but reports 0 pixels after the resize
    env["io"] = 1 if zero_px else int(rng.random() < 0.15)
    if rng.random() < 0.85 and not (env["xc"] or env["xa"]):
        env[rng.choice(["xc", "xa"])] = 1
    a = gen_size(rng)
    while True:
        bsz = gen_size(rng)
        if (bsz[0], bsz[1]) != (a[0], a[1]):
            break
    if zero_px:
        bsz[rng.choice([2, 3])] = 0
        if rng.random() < 0.5:
            bsz[2] = bsz[3] = 0
    pool = [a, bsz] + [gen_size(rng) for _ in range(rng.randint(0, 2))]
    dyn = rng.random() < 0.3
    get, geta = (["CR"], ["CRA"]) if dyn else (["CS"], ["CSA"])
    pre = [["SR", "D"]] if dyn else []
    core_ops = [get, ["R"] + bsz, geta + [rng.choice(FAULTS)], get]
    if rng.random() < 0.3:                # back to the first size: the same game again
        core_ops += [["R"] + a, geta + [rng.choice(FAULTS)], get]

    def filler(n):
        out = []
        for _ in range(n):
            u = rng.random()
            if u < 0.12:
                out.append(["R"] + list(rng.choice(pool)))
            elif u < 0.30:
                out.append([rng.choice(["ES", "DS", "EQ", "DQ", "EQ"])])
            elif u < 0.36:
                out.append(["SR", rng.choice(["F", "D", [3, 4]])])
            else:
                g = rng.choice(["CS", "CS", "CR", "CO", "NV", "K", "TS"])
                o = [g, rng.randrange(3)] if g == "CO" else [g]
                out.append(arm(rng, o) if g in ABORTS and rng.random() < 0.35 else o)
        return out

    room = max(0, maxlen - len(core_ops) - len(pre))
    n1 = rng.randint(0, min(3, room))
    mid = filler(1) if rng.random() < 0.15 else []   # something between the abort and the retry
    ops = filler(n1) + pre + core_ops[:3] + mid + core_ops[3:] + filler(rng.randint(0, max(0, room - n1)))
    return {"env": env, "t0": a, "ops": ops}


def gen_tsr_case(rng, maxlen=14):
    """[(probe; plain resize;) probe with a resize to another size (in cells AND pixels) landing in
    its body — a call that has to COMPUTE —; probe], embedded in a random history"""
    env = gen_env(rng)
    sizes = []
    while len(sizes) < 3:                 # pairwise different in cells AND in pixels
        t = gen_size(rng)
        if all((t[0], t[1]) != (u[0], u[1]) and (t[2], t[3]) != (u[2], u[3]) for u in sizes):
            sizes.append(t)
    a, mid, bsz = sizes
    pool = sizes + [gen_size(rng) for _ in range(rng.randint(0, 1))]
    # the armed call must COMPUTE (no live entry for the size it is made at): either the very first probe call,
    # or a call after [probe; plain resize to another size]
    core_ops = ([["TS"], ["R"] + mid] if rng.random() < 0.6 else []) + [["TSR"] + bsz, ["TS"]]
    u = rng.random()
    if u < 0.3:                           # and once more, back to the first size while the body runs
        core_ops += [["R"] + mid, ["TSR"] + a, ["TS"]]
    elif u < 0.5:                         # two calls in a row with a resize landing in the body, then a plain one
        core_ops = core_ops[:-1] + [["TSR"] + list(rng.choice([a, mid])), ["TS"]]
    elif u < 0.6:                         # a plain resize before the next call
        core_ops = core_ops[:-1] + [["R"] + list(rng.choice(pool)), ["TS"]]

    def filler(n, quiet=False):
        """quiet: nothing that moves the terminal or touches the probe's entry"""
        out = []
        for _ in range(n):
            v = rng.random()
            if v < 0.15 and not quiet:
                out.append(["R"] + list(rng.choice(pool)))
            elif v < 0.30:
                out.append([rng.choice(["ES", "DS", "EQ", "DQ"])])
            elif v < 0.36:
                out.append(["SR", rng.choice(["F", "D", [3, 4]])])
            elif v < 0.50 and not quiet:
                out.append(["TSR"] + list(rng.choice(pool)))
            else:
                g = rng.choice(["CS", "CR", "CO", "NV", "K"] + ([] if quiet else ["TS", "TS", "TS"]))
                out.append([g, rng.randrange(3)] if g == "CO" else [g])
        return out

    room = max(0, maxlen - len(core_ops))
    n1 = rng.randint(0, min(3, room))
    k = len(core_ops) - 1
    between = filler(1) if rng.random() < 0.12 else []   # something between the resized call and the next one
    # (nothing that moves the terminal or the probe's entry before the core pattern)
    ops = filler(n1, True) + core_ops[:k] + between + core_ops[k:] + filler(rng.randint(0, max(0, room - n1)))
    return {"env": env, "t0": a, "ops": ops}


def gen_case(rng, maxlen=20):
    env = gen_env(rng)
    pool = [gen_size(rng) for _ in range(rng.randint(1, 4))]
    violate = rng.random() < 0.15  # some histories break the side condition on purpose
    if violate:
        s = list(rng.choice(pool))
        s[2] = max(1, s[2] // 2 + 1)
        s[3] = s[3] + 9
        pool.append(s)
    ops = []
    focus = rng.choice(["cs", "cs", "memo", "ratio", "mix", "mix"])
    w = {"cs": [12, 3, 2, 2, 2, 1], "memo": [2, 2, 5, 6, 6, 1], "ratio": [4, 8, 1, 1, 1, 1],
         "mix": [5, 4, 3, 3, 3, 2]}[focus]
    for _ in range(rng.randint(1, maxlen)):
        u = rng.random()
        if u < 0.17:
            t = rng.choice(pool) if rng.random() < 0.85 else gen_size(rng)
            ops.append(["R"] + list(t))
        elif u < 0.40:
            ops.append([rng.choice(["ES", "DS", "EQ", "DQ", "EQ", "DQ"])])
        elif u < 0.50:
            m = rng.choice(["F", "D", "F", "D", [3, 4], [1, 2], [5, 8], [2, 1], [0, 1], [-1, 2], [7, 16]])
            ops.append(["SR", m])
        else:
            g = rng.choices(["CS", "CR", "CO", "NV", "K", "TS"], w)[0]
            o = [g, rng.randrange(3)] if g == "CO" else [g]
            if g == "TS" and rng.random() < 0.3:   # a resize lands while the probe's body runs
                o = ["TSR"] + list(rng.choice(pool) if rng.random() < 0.85 else gen_size(rng))
            ops.append(arm(rng, o) if g in ABORTS and rng.random() < 0.14 else o)
    return {"env": env, "t0": list(rng.choice(pool)), "ops": ops}


def penv_value(rng, n):
    """what COLUMNS / LINES may hold relative to the dimension n of the window at start-up"""
    u = rng.random()
    if u < 0.30:
        return None                                   # absent
    if u < 0.65:
        return str(n)                                 # equal at start-up: STALE after the first resize
    if u < 0.85:
        return str(rng.choice([n + 20, max(1, n // 2), 1, 80, 24, 200]))   # different
    return rng.choice(["0", "-5", "abc", "", "12x"])  # not usable (shutil ignores it)


def gen_real_case(rng, i):
    """a history run against the library's OWN get_terminal_size() on a pty, in a process environment holding
    COLUMNS / LINES: built around [getter; resize of the window in cells (and pixels); getter]"""
    base = gen_tsr_case(rng, 10) if i % 5 == 4 else gen_abort_case(rng, 10) if i % 5 == 3 else gen_case(rng, 10)
    base["env"]["tty"] = 1
    a = list(base["t0"])
    while True:
        bsz = gen_size(rng)
        if bsz[0] != a[0] and bsz[1] != a[1]:
            break
    g = rng.choice(["CS", "CS", "CR", "TS", "TS"])
    core_ops = [[g], ["R"] + bsz, [g]]
    if rng.random() < 0.4:
        core_ops += [["R"] + a, [g]]
    if g == "CR":
        core_ops = [["SR", "D"]] + core_ops
    ops = base["ops"]
    if rng.random() < 0.7:   # the pattern first: the entries are made at the start-up size
        ops = core_ops + ops
    else:
        k = rng.randrange(len(ops) + 1)
        ops = ops[:k] + core_ops + ops[k:]
    for _ in range(rng.choice([0, 0, 1, 1, 2])):      # os.environ changes in mid-history
        k = rng.randrange(len(ops) + 1)
        t = rng.choice([a, bsz])
        ops = ops[:k] + [["ENV", penv_value(rng, t[0]), penv_value(rng, t[1])]] + ops[k:]
    return {"env": base["env"], "t0": a, "ops": ops, "real": {"COLUMNS": penv_value(rng, a[0]), "LINES": penv_value(rng, a[1])}}


E0 = {"tty": 1, "io": 1, "xc": 1, "xa": 1, "xtname": [1, 1], "envname": [4, 3], "fg": 0xFF0000, "bg": 0x0000FF,
      "pres": 16, "mute": 0}
E1 = dict(E0, io=0, xc=0, xa=1, xtname=[1, 1], envname=[0, 0], pres=19)
E2 = dict(E0, io=0, xc=1, xa=1, xtname=None, envname=[7, 3], fg=-1, pres=8)
CORPUS = [
    # F9: the kitty work-around flag computed while queries are disabled must not survive re-enabling
    {"env": E0, "t0": [80, 24, 800, 480], "ops": [["DQ"], ["K"], ["EQ"], ["K"]]},
    {"env": E0, "t0": [80, 24, 800, 480], "ops": [["DQ"], ["NV"], ["K"], ["EQ"], ["NV"], ["K"], ["DQ"], ["K"]]},
    # compute, toggle, recompute at an unchanged terminal size
    {"env": E0, "t0": [80, 24, 800, 480],
     "ops": [["CS"], ["ES"], ["CS"], ["ES"], ["CS"], ["DS"], ["CS"], ["DS"], ["CS"], ["SR", "D"], ["CR"], ["ES"], ["CR"]]},
    # answers obtained while queries are disabled do not survive re-enabling; correct ones survive disabling
    {"env": E1, "t0": [80, 24, 800, 480],
     "ops": [["CS"], ["DQ"], ["CS"], ["R", 100, 30, 1000, 600], ["CS"], ["CO", 2], ["NV"], ["EQ"], ["CS"], ["CO", 2],
             ["NV"], ["DQ"], ["CS"], ["CO", 2], ["CO", 0], ["NV"], ["EQ"], ["EQ"], ["CO", 0]]},
    # FIXED is a snapshot, DYNAMIC follows the terminal; the one-shot support flag is sticky
    {"env": E0, "t0": [80, 24, 800, 480],
     "ops": [["CR"], ["SR", "F"], ["CR"], ["R", 100, 30, 900, 750], ["CR"], ["SR", "D"], ["CR"], ["ES"], ["CR"],
             ["SR", [3, 4]], ["CR"], ["SR", [0, 1]], ["CR"], ["SR", "F"], ["R", 80, 24, 800, 480], ["CR"]]},
    {"env": E1, "t0": [80, 24, 800, 480], "ops": [["DQ"], ["SR", "F"], ["EQ"], ["CS"], ["SR", "F"], ["SR", "D"], ["CR"]]},
    # keyed by columns AND rows; revisiting a size
    {"env": E0, "t0": [80, 24, 800, 480],
     "ops": [["CS"], ["R", 80, 30, 800, 480], ["CS"], ["R", 100, 30, 800, 480], ["CS"], ["R", 80, 24, 800, 480], ["CS"],
             ["TS"], ["R", 80, 30, 800, 480], ["TS"], ["R", 80, 30, 800, 480], ["TS"]]},
    # side condition broken on purpose (pixel size changes alone): only the model is compared
    {"env": E0, "t0": [80, 24, 800, 480], "ops": [["CS"], ["R", 80, 24, 1600, 960], ["CS"], ["TS"], ["ES"], ["CS"]]},
    # ... but a pixel-size change that coincides with a toggle is noticed
    {"env": E0, "t0": [80, 24, 800, 480], "ops": [["CS"], ["R", 80, 24, 1600, 960], ["ES"], ["CS"], ["DS"], ["CS"]]},
    # ... and so is one that coincides with a disable/enable round-trip of the queries (enable_queries drops the
    # cell-size entry whatever it holds): entry made before the disabling / while disabled / through the DYNAMIC ratio
    {"env": E0, "t0": [80, 24, 800, 480], "ops": [["CS"], ["R", 80, 24, 960, 672], ["DQ"], ["EQ"], ["CS"], ["CS"]]},
    {"env": E0, "t0": [80, 24, 800, 480],
     "ops": [["DQ"], ["R", 100, 30, 1000, 600], ["CS"], ["R", 100, 30, 1200, 840], ["EQ"], ["CS"]]},
    {"env": E0, "t0": [80, 24, 800, 480],
     "ops": [["SR", "D"], ["CR"], ["DQ"], ["R", 80, 24, 960, 672], ["EQ"], ["CR"], ["CS"]]},
    # cell-size reply preferred over text-area reply and never swapped; zero sizes
    {"env": E2, "t0": [80, 24, 807, 485], "ops": [["ES"], ["CS"], ["DQ"], ["CS"], ["DS"], ["CS"], ["EQ"], ["CS"], ["NV"], ["K"],
                                                 ["CO", 1], ["R", 80, 24, 79, 485], ["ES"], ["CS"]]},
    # no terminal at all
    {"env": dict(E0, tty=0), "t0": [80, 24, 800, 480], "ops": [["CS"], ["SR", "D"], ["CR"], ["NV"], ["K"], ["CO", 2], ["TS"]]},
    # ABORTED computations.  compute; resize in cells (no pixel size from the ioctl: the terminal is queried);
    # the query is interrupted; ask again at the same size: the retry computes afresh; an armed call answered
    # from the cache returns normally
    {"env": E1, "t0": [80, 24, 800, 480],
     "ops": [["CS"], ["R", 100, 30, 900, 750], ["CSA", "kbd"], ["CS"], ["CSA", "termios"], ["R", 80, 24, 800, 480],
             ["CSA", "oserr"], ["CS"], ["CS"]]},
    # ... the ioctl works but reports 0 pixels after the resize
    {"env": E0, "t0": [80, 24, 800, 480], "ops": [["CS"], ["R", 100, 30, 0, 0], ["CSA", "kbd"], ["CS"], ["CSA", "kbd"]]},
    {"env": dict(E0, xc=0), "t0": [80, 24, 800, 480],
     "ops": [["CS"], ["R", 100, 30, 0, 750], ["CSA", "termios"], ["CS"], ["R", 80, 24, 800, 480], ["CSA", "kbd"], ["CS"]]},
    # ... through the DYNAMIC cell ratio
    {"env": E1, "t0": [80, 24, 800, 480],
     "ops": [["SR", "D"], ["CR"], ["R", 100, 30, 900, 750], ["CRA", "kbd"], ["CR"], ["SR", [3, 4]], ["CRA", "kbd"], ["CR"]]},
    # the memoised getters: a raising body stores nothing; a hit returns normally; disabled queries never wait
    {"env": E0, "t0": [80, 24, 800, 480],
     "ops": [["NVA", "kbd"], ["NV"], ["COA", 2, "oserr"], ["CO", 2], ["COA", 2, "kbd"], ["DQ"], ["NVA", "termios"],
             ["COA", 1, "kbd"], ["EQ"], ["NVA", "termios"], ["NV"], ["K"], ["COA", 1, "kbd"], ["CO", 1]]},
    {"env": E1, "t0": [80, 24, 800, 480],
     "ops": [["DQ"], ["CSA", "kbd"], ["COA", 1, "kbd"], ["EQ"], ["CSA", "kbd"], ["CS"], ["COA", 1, "oserr"], ["CO", 1]]},
    {"env": dict(E0, tty=0), "t0": [80, 24, 800, 480], "ops": [["CSA", "kbd"], ["NVA", "kbd"], ["COA", 0, "oserr"], ["CRA", "kbd"]]},
    # A RESIZE LANDS WHILE THE terminal_size_cached BODY RUNS: the value computed for the old size is not served
    # for the new one; when the entry serves the call the body does not run (and nothing is resized)
    {"env": E0, "t0": [80, 24, 800, 480], "ops": [["TSR", 100, 30, 900, 750], ["TS"]]},
    {"env": E0, "t0": [80, 24, 800, 480],
     "ops": [["TS"], ["TSR", 100, 30, 900, 750], ["TS"], ["R", 100, 30, 900, 750], ["TSR", 80, 24, 800, 480], ["TS"], ["TS"],
             ["TSR", 100, 30, 900, 750], ["TS"], ["CS"]]},
    # ... twice in a row; columns only / rows only; back and forth; with no terminal
    {"env": E1, "t0": [80, 24, 800, 480],
     "ops": [["TSR", 100, 30, 900, 750], ["TSR", 132, 43, 1320, 860], ["TS"], ["TSR", 132, 24, 1320, 480], ["TS"],
             ["TSR", 80, 24, 800, 480], ["TSR", 132, 24, 1320, 480], ["TS"], ["TS"]]},
    {"env": dict(E0, tty=0), "t0": [80, 24, 800, 480], "ops": [["TS"], ["R", 1, 1, 8, 16], ["TSR", 80, 24, 800, 480], ["TS"]]},
    # ... a pixel-only resize landing in the body breaks the side condition (only the model is compared)
    {"env": E0, "t0": [80, 24, 800, 480], "ops": [["R", 100, 30, 900, 750], ["TSR", 100, 30, 1000, 600], ["TS"]]},
]


_T80, _T100, _T160 = [80, 24, 800, 480], [100, 30, 800, 600], [160, 24, 800, 480]
REAL_CORPUS = [
    # COLUMNS / LINES equal to the window at start-up, then the window is resized: cell size, DYNAMIC ratio and the
    # terminal_size_cached probe follow the window
    {"env": E0, "t0": _T80, "real": {"COLUMNS": "80", "LINES": "24"},
     "ops": [["CS"], ["TS"], ["SR", "D"], ["CR"], ["R"] + _T100, ["CS"], ["TS"], ["CR"], ["R"] + _T80, ["CS"], ["TS"], ["CR"],
             ["R"] + _T160, ["CS"], ["TS"], ["CR"]]},
    # one variable alone; the other dimension changes as well / only the pinned one changes
    {"env": E0, "t0": _T80, "real": {"COLUMNS": "80", "LINES": None}, "ops": [["CS"], ["TS"], ["R"] + _T160, ["CS"], ["TS"]]},
    {"env": E0, "t0": _T80, "real": {"COLUMNS": None, "LINES": "24"},
     "ops": [["CS"], ["TS"], ["R", 80, 30, 800, 480], ["CS"], ["TS"], ["R"] + _T100, ["CS"], ["TS"]]},
    # different from the window from the start; absent; not usable
    {"env": E0, "t0": _T80, "real": {"COLUMNS": "132", "LINES": "43"}, "ops": [["CS"], ["TS"], ["R"] + _T100, ["CS"], ["TS"]]},
    {"env": E1, "t0": _T80, "real": {"COLUMNS": None, "LINES": None}, "ops": [["CS"], ["TS"], ["R"] + _T100, ["CS"], ["TS"], ["ES"], ["CS"]]},
    {"env": E0, "t0": _T80, "real": {"COLUMNS": "0", "LINES": "abc"}, "ops": [["CS"], ["TS"], ["R"] + _T100, ["CS"], ["TS"]]},
    # the environment changes in mid-history: set after the entries were made / to the NEW size before the resize / removed
    {"env": E0, "t0": _T80, "real": {"COLUMNS": None, "LINES": None},
     "ops": [["CS"], ["TS"], ["ENV", "80", "24"], ["CS"], ["R"] + _T100, ["CS"], ["TS"], ["ENV", "100", "30"], ["R"] + _T80, ["CS"], ["TS"],
             ["ENV", None, None], ["CS"], ["TS"]]},
    # the terminal is queried (no pixel size from the ioctl); a resize landing in the probe's body; an aborted computation
    {"env": E2, "t0": _T80, "real": {"COLUMNS": "80", "LINES": "24"},
     "ops": [["CS"], ["R"] + _T100, ["CSA", "kbd"], ["CS"], ["TSR"] + _T160, ["TS"], ["DQ"], ["R"] + _T80, ["CS"], ["EQ"], ["CS"]]},
]


ABORTED = {v: k for k, v in ABORTS.items()}


def tsize(t):
    return "{| cols := %s; rows := %s; xpx := %s; ypx := %s |}" % tuple(core.z(x) for x in t)


def env_term(e):
    xt = "None" if not e["xtname"] else "(Some (%s, %s))" % (core.z(e["xtname"][0]), core.z(e["xtname"][1]))
    return ("{| has_tty := %s; io_px := %s; xt_cell := %s; xt_area := %s; xt_name := %s; env_name := (%s, %s); "
            "col_fg := %s; col_bg := %s; kitty_memo := false |}" % (
                b(e["tty"]), b(e["io"]), b(e["xc"]), b(e["xa"]), xt, core.z(e["envname"][0]), core.z(e["envname"][1]),
                core.z(e["fg"]), core.z(e["bg"])))


def op_term(o):
    k = o[0]
    if k == "R":
        return "Resize " + tsize(o[1:5])
    if k == "SR":
        m = o[1]
        return "SetRatio " + ("RAutoFixed" if m == "F" else "RAutoDynamic" if m == "D" else
                              "(RFloat %s %s)" % (core.z(m[0]), core.z(m[1])))
    if k == "TSR":
        return "GetTscResize " + tsize(o[1:5])
    if k == "CO":
        return "GetColors %d%%nat" % o[1]
    if k == "COA":
        return "GetColorsAbort %d%%nat" % o[1]
    if k in ("CSA", "CRA", "NVA"):   # the kind of fault is below the model's grain
        return {"CSA": "GetCellSizeAbort", "CRA": "GetCellRatioAbort", "NVA": "GetNameVersionAbort"}[k]
    return {"ES": "EnableSwap", "DS": "DisableSwap", "EQ": "EnableQueries", "DQ": "DisableQueries",
            "CS": "GetCellSize", "CR": "GetCellRatio", "NV": "GetNameVersion", "K": "IsOnKitty", "TS": "GetTsc"}[k]


def zl(l):
    return core.coq_list(l, core.z)


def penv_int(v):
    """COLUMNS / LINES as shutil reads them: int(value), else unusable (the generator only writes plain decimal
    numerals or non-numbers)"""
    try:
        return "(Some %s)" % core.z(int(v))
    except (TypeError, ValueError):
        return "None"


def penv_term(c, l):
    return "{| pe_cols := %s; pe_lines := %s |}" % (penv_int(c), penv_int(l))


def eop_term(o):
    return "EnvSet " + penv_term(o[1], o[2]) if o[0] == "ENV" else "Op (%s)" % op_term(o)


def ecase_term(c, r):
    rows = [x for o, x in zip(c["ops"], r["rows"]) if o[0] != "ENV"]
    return ("{| ec_env := %s; ec_pe := %s; ec_t0 := %s; ec_ops := %s; ec_obs := %s; ec_fc := %s; ec_fe := %s |}" % (
        env_term(c["env"]), penv_term(c["real"].get("COLUMNS"), c["real"].get("LINES")), tsize(c["t0"]),
        core.coq_list(c["ops"], eop_term),
        core.coq_list(rows, lambda x: "(%s, %s)" % (zl(x["obs"]), zl(x["n"]))),
        core.coq_list(rows, lambda x: zl(x["fc"])), core.coq_list(rows, lambda x: zl(x["fe"]))))


def case_term(c, r):
    rows = r["rows"]
    return ("{| t_env := %s; t_t0 := %s; t_ops := %s; t_obs := %s; t_fc := %s; t_fe := %s |}" % (
        env_term(c["env"]), tsize(c["t0"]), core.coq_list(c["ops"], op_term),
        core.coq_list(rows, lambda x: "(%s, %s)" % (zl(x["obs"]), zl(x["n"]))),
        core.coq_list(rows, lambda x: zl(x["fc"])), core.coq_list(rows, lambda x: zl(x["fe"]))))


def evaluate(cases, tag="c15", impl=None):
    """-> (codes, side_ok flags, errors, impl results); histories with a "real" part are judged by CachesEnvTie"""
    if impl is None:
        impl = core.run_impl_parallel("impl_c15.py", cases)
    plain = [i for i, c in enumerate(cases) if c.get("real") is None]
    real = [i for i, c in enumerate(cases) if c.get("real") is not None]

    def part(idx, term, ctype, expr, sfx):
        if not idx:
            return [], []
        rep, errs = core.coq_shards(tag + sfx, HEADER, [term(cases[i], impl[i]) for i in idx], ctype, expr, shard=60)
        if len(rep) != len(idx) and not errs:
            errs.append(f"Coq reported {len(rep)} results for {len(idx)} cases")
        return [(idx[k], v) for k, v in rep], errs

    with ThreadPoolExecutor(max_workers=2) as ex:
        f1 = ex.submit(part, plain, case_term, "tcase", "report cases", "")
        f2 = ex.submit(part, real, ecase_term, "ecase", "ereport cases", "e")
        (rep1, err1), (rep2, err2) = f1.result(), f2.result()
    errors = err1 + err2
    codes, side = [0] * len(cases), [0] * len(cases)
    for idx, v in rep1 + rep2:
        codes[idx], side[idx] = v % 10, v // 10
    return codes, side, errors, impl


def shrink(case):
    cur = case
    for _ in range(40):
        cands = []
        for k in range(len(cur["ops"])):
            c = dict(cur)
            c["ops"] = cur["ops"][:k] + cur["ops"][k + 1:]
            if c["ops"]:
                cands.append(c)
        if not cands:
            break
        codes, _, errors, _ = evaluate(cands, tag="c15s")
        nxt = next((c for c, code in zip(cands, codes) if code >= 2), None)
        if nxt is None or errors:
            break
        cur = nxt
    if cur.get("real") is not None:   # the environment: drop the variables that are not needed
        for k in ("COLUMNS", "LINES"):
            if cur["real"].get(k) is not None:
                c = copy.deepcopy(cur)
                c["real"][k] = None
                codes, _, errors, _ = evaluate([c], tag="c15s")
                if not errors and codes[0] >= 2:
                    cur = c
    # canonical presentation (does not affect the model): try the plainest one
    plain = copy.deepcopy(cur)
    plain["env"]["pres"], plain["env"]["mute"] = 16, 0
    codes, _, errors, _ = evaluate([plain], tag="c15s")
    if not errors and codes[0] >= 2:
        cur = plain
    return cur


def describe(c):
    e = c["env"]
    caps = "".join(k for k, f in (("T", e["tty"]), ("i", e["io"]), ("c", e["xc"]), ("a", e["xa"])) if f)

    def one(o):
        if o[0] == "R":
            return "resize(%dx%d,%dx%dpx)" % tuple(o[1:5])
        if o[0] == "ENV":
            return "os.environ[COLUMNS=%r,LINES=%r]" % (o[1], o[2])
        if o[0] == "TSR":
            return "size_cached_probe!resize(%dx%d,%dx%dpx)-during-body" % tuple(o[1:5])
        if o[0] == "SR":
            return "set_cell_ratio(%s)" % ({"F": "FIXED", "D": "DYNAMIC"}.get(o[1]) if isinstance(o[1], str) else "%d/%d" % tuple(o[1]))
        if o[0] in ("CSA", "CRA", "COA", "NVA"):
            base = {"CSA": "get_cell_size", "CRA": "get_cell_ratio", "NVA": "get_terminal_name_version",
                    "COA": "get_fg_bg_colors[%s]" % o[1]}[o[0]]
            return base + "!" + {"kbd": "KeyboardInterrupt", "oserr": "OSError", "termios": "termios.error"}[o[-1]] \
                + "-in-query"
        return {"ES": "enable_swap", "DS": "disable_swap", "EQ": "enable_queries", "DQ": "disable_queries",
                "CS": "get_cell_size", "CR": "get_cell_ratio", "NV": "get_terminal_name_version",
                "K": "_is_on_kitty", "TS": "size_cached_probe", "CO": "get_fg_bg_colors[%s]" % (o[1] if len(o) > 1 else 0)}[o[0]]
    real = ""
    if c.get("real") is not None:
        real = "REAL get_terminal_size() on a pty, COLUMNS=%r LINES=%r; " % (c["real"].get("COLUMNS"), c["real"].get("LINES"))
    return "%sterm[%s xt=%s env=%s] %dx%d %dx%dpx: %s" % (real, caps, e["xtname"], e["envname"], *c["t0"],
                                                         ", ".join(map(one, c["ops"])))


def fresh_cases(cases, impl, limit):
    """final states to recompute in brand-new interpreters"""
    out = []
    for c, r in list(zip(cases, impl))[:limit]:
        f = r["final"]
        out.append({"fresh": {"env": c["env"], "t": f["t"], "swap": f["swap"], "qen": f["qen"]}})
    return out


def run_fresh(fcs):
    with ThreadPoolExecutor(max_workers=core.NCPU) as ex:
        res = list(ex.map(lambda c: core.run_impl("impl_c15.py", [c])[0], fcs))
    terms = []
    for c, r in zip(fcs, res):
        f = c["fresh"]
        terms.append("{| f_env := %s; f_t := %s; f_sw := %s; f_q := %s; f_cs := %s; f_cr := %s; f_nv := %s; "
                     "f_k := %s; f_co := %s |}" % (env_term(f["env"]), tsize(f["t"]), b(f["swap"]), b(f["qen"]),
                                                   zl(r["CS"]), zl(r["CR"]), zl(r["NV"]), zl(r["K"]),
                                                   core.coq_list(r["CO"], zl)))
    bad, errors = core.coq_shards("c15f", HEADER, terms, "fcase", "fbad cases", shard=100)
    return bad, errors, res


def gen_races(rng, quick):
    races = []
    for fn in ["nv", "co", "k", "cs", "probe"]:
        for n in ([2, 3] if quick else [2, 3, 3, 4]):
            races.append({"threads": n, "fn": fn, "env": dict(E0, pres=rng.randrange(32)), "t0": [80, 24, 800, 480],
                          "rounds": 2})
    return races


def run_races(races):
    res = core.run_impl_parallel("impl_c15.py", races, chunk=2)
    terms = []
    for c, r in zip(races, res):
        terms.append("{| r_n := %d%%nat; r_counts := %s; r_same := %s |}" % (
            c["threads"], core.coq_list([x["count"] for x in r["rounds"]], lambda v: "%d%%nat" % v),
            core.coq_list([x["same"] for x in r["rounds"]], b)))
    bad, errors = core.coq_shards("c15r", HEADER, terms, "rcase", "rbad cases", shard=100)
    return races, res, bad, errors


# ------------------------------------------------- probe histories (the real utils.cached)

N_PROBE_OBJS, N_PROBE_ARGS = 9, 12
PROBE_NAMES = ["0", "''", "(None, None)", "(1, 2)", "False", "()", "0.0", "'unknown'", "[None]"]
PROBE_CORPUS = [
    # a result None is memoised like any other; other falsy results too
    {"probe": {"res": [-1, 0, 1, 2, 3, 4, 5, -1, 6, 7, 8, 0], "cmds": [["C", 0], ["C", 0], ["C", 0]]}},
    # distinct argument tuples with equal hashes ((-1,) / (-2,); scale=-1 / scale=-2) have entries of their own
    {"probe": {"res": [-1, 0, 1, 2, 3, 4, 5, -1, 6, 7, 8, 0],
               "cmds": [["C", 8], ["C", 9], ["C", 8], ["C", 9], ["C", 10], ["C", 11], ["C", 10], ["I"], ["C", 9], ["C", 8], ["C", 11],
                        ["C", 10]]}},
    {"probe": {"res": [-1, 0, 1, 2, 3, 4, 5, -1, 6, 7, 8, 0],
               "cmds": [["C", 0], ["C", 1], ["C", 2], ["C", 3], ["C", 4], ["C", 5], ["C", 6], ["C", 7], ["C", 0], ["C", 1],
                        ["C", 2], ["C", 3], ["C", 4], ["C", 5], ["C", 6], ["C", 7], ["I"], ["C", 7], ["C", 7], ["C", 0]]}},
    {"probe": {"res": [3, -1, -1, 7, 8, 6, 2, 0, 1, 2, 3, 4], "cmds": [["I"], ["C", 1], ["I"], ["C", 1], ["C", 1], ["I"], ["I"], ["C", 2], ["C", 1]]}},
]


def gen_probe(rng):
    res = [(-1 if rng.random() < 0.45 else rng.randrange(N_PROBE_OBJS)) for _ in range(N_PROBE_ARGS)]
    hot = [rng.randrange(N_PROBE_ARGS) for _ in range(rng.randint(1, 3))]
    if rng.random() < 0.3:  # a pair of distinct argument tuples with equal hashes
        hot = rng.choice([[8, 9], [10, 11]]) + hot[:1]
        if res[hot[0]] == res[hot[1]]:
            res[hot[1]] = (res[hot[0]] + 2) % N_PROBE_OBJS
    cmds = []
    for _ in range(rng.randint(2, 14)):
        u = rng.random()
        if u < 0.15:
            cmds.append(["I"])
        else:
            cmds.append(["C", rng.choice(hot) if rng.random() < 0.75 else rng.randrange(N_PROBE_ARGS)])
    return {"probe": {"res": res, "cmds": cmds}}


def mres(c):
    return "None" if c < 0 else "(Some %s)" % core.z(c)


def probe_term(c, r):
    pr = c["probe"]
    return "{| p_body := %s; p_cmds := %s; p_runs := %s; p_vals := %s |}" % (
        core.coq_list(pr["res"], mres),
        core.coq_list(pr["cmds"], lambda o: "MInval" if o[0] == "I" else "MCall %d%%nat" % o[1]),
        core.coq_list(r["rows"], lambda x: "%d%%nat" % x["runs"]),
        core.coq_list(r["rows"], lambda x: "None" if x["val"] == "-" else "(Some %s)" % mres(x["val"])))


def eval_probes(cases, tag="c15p"):
    impl = core.run_impl_parallel("impl_c15.py", cases)
    rep, errors = core.coq_shards(tag, HEADER, [probe_term(c, r) for c, r in zip(cases, impl)], "pcase",
                                  "preport cases", shard=150)
    codes = [0] * len(cases)
    if len(rep) != len(cases) and not errors:
        errors.append(f"Coq reported {len(rep)} results for {len(cases)} probe cases")
    for idx, v in rep:
        codes[idx] = v
    return codes, errors, impl


def shrink_probe(case):
    cur = case
    for _ in range(30):
        cmds = cur["probe"]["cmds"]
        cands = [{"probe": {"res": cur["probe"]["res"], "cmds": cmds[:k] + cmds[k + 1:]}} for k in range(len(cmds))
                 if len(cmds) > 1]
        if not cands:
            break
        codes, errors, _ = eval_probes(cands, tag="c15ps")
        nxt = next((c for c, code in zip(cands, codes) if code >= 2), None)
        if nxt is None or errors:
            break
        cur = nxt
    # only the results of the argument tuples still used matter: make the others plain
    used = {o[1] for o in cur["probe"]["cmds"] if o[0] == "C"}
    plain = {"probe": {"res": [r if k in used else 0 for k, r in enumerate(cur["probe"]["res"])],
                       "cmds": cur["probe"]["cmds"]}}
    codes, errors, _ = eval_probes([plain], tag="c15ps")
    return plain if not errors and codes[0] >= 2 else cur


def describe_probe(c):
    pr = c["probe"]
    return "cached probe: " + ", ".join(
        "invalidate" if o[0] == "I" else "call#%d->%s" % (o[1], "None" if pr["res"][o[1]] < 0 else PROBE_NAMES[pr["res"][o[1]]])
        for o in pr["cmds"])


# ------------------------- terminal_size_cached called with several argument tuples

N_TS_ARGS = 7
TS_ARG_NAMES = ["f()", "pane_a.f()", "pane_b.f()", "f(2)", "f(n=2)", "f(1, 2, n=None)", "f([1, 2])"]
TS_SIZES = [[80, 24], [121, 40], [100, 30], [132, 43], [80, 25], [24, 80]]
Z7 = [0] * N_TS_ARGS


def _ta(t0, cmds, offs=None, real=0):
    return {"tsargs": {"t0": t0, "offs": list(offs or Z7), "real": real, "cmds": cmds}}


TSARGS_CORPUS = [
    # two instances cached, a resize, each used again (both orders), and back
    _ta([80, 24], [["C", 1], ["C", 2], ["R", 121, 40], ["C", 1], ["C", 2], ["R", 80, 24], ["C", 2], ["C", 1]], real=1),
    _ta([80, 24], [["C", 3], ["C", 4], ["R", 100, 30], ["C", 4], ["C", 3], ["C", 0]]),
    # three argument tuples, an invalidation, a resize inside a body
    _ta([100, 30], [["C", 0], ["C", 5], ["C", 6], ["I"], ["C", 5], ["R", 80, 25], ["C", 6], ["C", 0], ["C", 5]]),
    _ta([80, 24], [["C", 1], ["CR", 2, 132, 43], ["R", 121, 40], ["CR", 2, 80, 24], ["C", 1], ["C", 2], ["C", 1]], real=1),
    # away and back without a call in between: the slot is still right
    _ta([80, 24], [["C", 1], ["C", 2], ["R", 24, 80], ["R", 80, 24], ["C", 2], ["C", 1]]),
    # a wrapped function that DOES depend on its arguments: the documented "last return value" (argument-blind)
    _ta([80, 24], [["C", 1], ["C", 2], ["R", 121, 40], ["C", 2], ["C", 1], ["I"], ["C", 1]], offs=[0, 1, 2, 3, 4, 5, 6]),
]


def gen_tsargs(rng):
    hot = rng.sample(range(N_TS_ARGS - 1), rng.randint(2, 3))
    if rng.random() < 0.2:
        hot[-1] = N_TS_ARGS - 1     # arguments that are not hashable
    pool = rng.sample(TS_SIZES, rng.randint(2, 3))
    if rng.random() < 0.3:
        pool.append([rng.choice(COLS), rng.randint(1, 60)])
    cur = list(pool[0])
    offs = list(Z7) if rng.random() < 0.7 else [rng.randrange(4) for _ in range(N_TS_ARGS)]
    cmds = []
    for _ in range(rng.randint(4, 14)):
        u = rng.random()
        k = rng.choice(hot) if rng.random() < 0.9 else rng.randrange(N_TS_ARGS)
        if u < 0.60:
            cmds.append(["C", k])
        elif u < 0.85:
            t = rng.choice(pool)
            cmds.append(["R", t[0], t[1]])
        elif u < 0.92:
            cmds.append(["I"])
        else:
            t = rng.choice([x for x in pool if x != cur] or pool)
            cmds.append(["CR", k, t[0], t[1]])
        if cmds[-1][0] == "R":
            cur = cmds[-1][1:3]
    return _ta(pool[0], cmds, offs, int(rng.random() < 0.3))


def tsargs_term(c, r):
    ta = c["tsargs"]

    def tz(t):
        return "(%d%%nat, %d%%nat)" % (t[0], t[1])

    def cmd(o):
        return {"C": lambda: "ACall %d%%nat" % o[1], "CR": lambda: "ACallR %d%%nat %s" % (o[1], tz(o[2:4])),
                "R": lambda: "AResize %s" % tz(o[1:3]), "I": lambda: "AInval"}[o[0]]()

    def oz(v):
        return "None" if v in ("-", None) else "(Some %s)" % core.z(v)
    return "{| a_t0 := %s; a_offs := %s; a_cmds := %s; a_rows := %s; a_fresh := %s |}" % (
        tz(ta["t0"]), core.coq_list(ta["offs"], core.z), core.coq_list(ta["cmds"], cmd),
        core.coq_list(r["rows"], lambda x: "(%s, %s)" % (oz(x["val"]), core.coq_list(x["ran"], lambda n: "%d%%nat" % n))),
        core.coq_list(r["rows"], lambda x: oz(x["fresh"])))


def eval_tsargs(cases, tag="c15a"):
    impl = core.run_impl_parallel("impl_c15.py", cases)
    rep, errors = core.coq_shards(tag, HEADER, [tsargs_term(c, r) for c, r in zip(cases, impl)], "acase",
                                  "areport cases", shard=400)
    codes = [0] * len(cases)
    if len(rep) != len(cases) and not errors:
        errors.append(f"Coq reported {len(rep)} results for {len(cases)} terminal_size_cached histories")
    for idx, v in rep:
        codes[idx] = v
    return codes, errors, impl


def shrink_tsargs(case):
    cur = case
    for _ in range(30):
        ta = cur["tsargs"]
        cmds = ta["cmds"]
        cands = [{"tsargs": dict(ta, cmds=cmds[:k] + cmds[k + 1:])} for k in range(len(cmds)) if len(cmds) > 1]
        cands += [{"tsargs": dict(ta, cmds=cmds[:k] + [["C", o[1]]] + cmds[k + 1:])} for k, o in enumerate(cmds) if o[0] == "CR"]
        if ta["real"]:
            cands.append({"tsargs": dict(ta, real=0)})
        if any(ta["offs"]):
            cands.append({"tsargs": dict(ta, offs=list(Z7))})
        if not cands:
            break
        codes, errors, _ = eval_tsargs(cands, tag="c15as")
        nxt = next((c for c, code in zip(cands, codes) if code >= 2), None)
        if nxt is None or errors:
            break
        cur = nxt
    return cur


def describe_tsargs(c, rows=None):
    ta = c["tsargs"]

    def one(i, o):
        if o[0] == "R":
            return "resize(%dx%d)" % (o[1], o[2])
        if o[0] == "I":
            return "_invalidate_terminal_size_cache()"
        txt = TS_ARG_NAMES[o[1]] + ("[the terminal becomes %dx%d while the body runs]" % (o[2], o[3]) if o[0] == "CR" else "")
        if rows:
            x = rows[i]
            txt += " -> %s (fresh computation with these arguments: %s; body ran: %s)" % (
                x.get("exc", x["val"]) if x["val"] is None else x["val"], x["fresh"], "yes" if x["ran"] else "no")
        return txt
    return "terminal_size_cached probe (%s; body = columns*1000 + lines%s) at %dx%d: " % (
        "real get_terminal_size() on a pty" if ta["real"] else "scripted terminal size",
        " + 1000000*%s[argument tuple]" % ta["offs"] if any(ta["offs"]) else "", *ta["t0"]) + "; ".join(
        one(i, o) for i, o in enumerate(ta["cmds"]))


def tsargs_part(acases, only=False):
    mismatches, failures, errors, extra = [], [], [], {}
    t0 = time.time()
    codes, aerr, impl = eval_tsargs(acases)
    errors += aerr
    st = {"histories": len(acases), "size_only_body": 0, "argument_dependent_body": 0, "real_get_terminal_size_on_pty": 0,
          "calls": 0, "calls_served_by_the_slot": 0, "calls_served_after_a_call_with_other_arguments_computed_at_this_size": 0,
          "first_call_with_other_arguments_after_a_resize_was_noticed": 0, "resize_landed_in_body": 0,
          "unhashable_argument_calls": 0, "distinct_argument_tuples_per_history": {}}
    for c, r in zip(acases, impl):
        ta = c["tsargs"]
        st["size_only_body" if not any(ta["offs"]) else "argument_dependent_body"] += 1
        st["real_get_terminal_size_on_pty"] += bool(ta["real"])
        ks = {o[1] for o in ta["cmds"] if o[0] in ("C", "CR")}
        st["distinct_argument_tuples_per_history"][len(ks)] = st["distinct_argument_tuples_per_history"].get(len(ks), 0) + 1
        filler, resized_since = None, False   # who computed the value in force; was there a size change before it
        cur, seen_sizes = list(ta["t0"]), {}
        for o, row in zip(ta["cmds"], r["rows"]):
            if o[0] == "R":
                cur = list(o[1:3])
            elif o[0] == "I":
                filler = None
            else:
                st["calls"] += 1
                st["unhashable_argument_calls"] += o[1] == N_TS_ARGS - 1
                if row["ran"]:
                    resized_since = filler is not None
                    filler = o[1]
                    if o[0] == "CR":
                        st["resize_landed_in_body"] += 1
                        cur = list(o[2:4])
                else:
                    st["calls_served_by_the_slot"] += 1
                    if filler is not None and filler != o[1]:
                        st["calls_served_after_a_call_with_other_arguments_computed_at_this_size"] += 1
                        st["first_call_with_other_arguments_after_a_resize_was_noticed"] += bool(resized_since)
    extra["tsargs"] = st
    done = 0
    for c, code, r in zip(acases, codes, impl):
        if code >= 2:
            done += 1
            if done > 3:
                continue
            small = shrink_tsargs(c) if done == 1 and not only else c
            codes2, _, impl2 = eval_tsargs([small], tag="c15as")
            failures.append({
                "signature": core.sig(small),
                "what": "a function memoised per terminal size (utils.terminal_size_cached) returned, for one of several "
                        "argument tuples, something else than a fresh computation for the CURRENT terminal size (or raised, "
                        "or ran its body with other arguments): " + describe_tsargs(small, impl2[0]["rows"]),
                "replay": {"tsargs": small["tsargs"], "observed": impl2[0], "code": codes2[0]}})
        elif code:
            mismatches.append({"tsargs": c["tsargs"], "code": code, "observed": r})
    return mismatches, failures, errors, extra, {"tsargs_histories": round(time.time() - t0, 1)}


# ------------------------------------- swap toggles scheduled against get_cell_size

SW_ENVS = [dict(E0, xc=0), dict(E1), dict(E0, xc=0, pres=9), dict(E0, io=0, xc=0, xa=1, pres=3)]
SW_SIZES = [[80, 24, 800, 960], [100, 30, 1000, 600], [132, 43, 1320, 1720], [80, 24, 1000, 487]]


def swap_sched(f0, warm, prog, point):
    """the deterministic schedule of the real threads, in the model's micro-steps (picks of a blocked or
    finished thread are no-ops in run_sched)"""
    n = len(prog)
    rest_a, all_b = [0] * (5 * n), [1] * 5
    if point[0] == "before":
        return all_b + rest_a
    if point[0] == "after":
        return rest_a + all_b
    if point[0] == "ioctl":   # thread 1 first; thread 0 runs while thread 1 is in its ioctl (only on a miss)
        return all_b + rest_a if warm else [1, 1] + rest_a + [1, 1, 1] + rest_a
    steps, flag, eff = 0, f0, 0
    for b in prog:
        if b == flag:
            steps += 1
            continue
        if eff == point[1]:
            return [0] * (steps + (2 if point[0] == "acq" else 5)) + all_b + rest_a
        steps, flag, eff = steps + 5, b, eff + 1
    return rest_a + all_b      # the event never happens: thread 1 runs afterwards


def all_swaps(rng, quick):
    progs = [[1], [0], [1, 0], [0, 1], [1, 1, 0], [0, 1, 0], [1, 0, 1]]
    points = [["before"], ["after"], ["ioctl"], ["acq", 0], ["rel", 0], ["acq", 1], ["rel", 1], ["rel", 2]]
    out = []
    for prog in progs:
        for f0 in (0, 1):
            for warm in (0, 1):
                for point in points:
                    if point[0] in ("acq", "rel") and point[1] >= len(prog):
                        continue
                    out.append({"f0": f0, "warm": warm, "prog": prog, "point": point})
    if quick:   # every (single-toggle x point) combination, and a sample of the rest
        single = [c for c in out if len(c["prog"]) == 1]
        rest = [c for c in out if len(c["prog"]) > 1]
        out = single + rng.sample(rest, 40)
    cases = []
    for i, c in enumerate(out):
        k = rng.randrange(len(SW_ENVS)) if not quick or i % 3 else 0
        cases.append({"swap": dict(c, env=SW_ENVS[k], t0=SW_SIZES[rng.randrange(len(SW_SIZES)) if i % 2 else 0])})
    return cases


def swap_term(c, r):
    sw = c["swap"]
    return ("{| s_f0 := %s; s_warm := %s; s_prog := %s; s_sched := %s; s_flag := %s; s_cache := %s; s_bret := %s; "
            "s_ncomp := %d%%nat; s_after := %s; s_fresh := %s |}" % (
                b(sw["f0"]), b(sw["warm"]), core.coq_list(sw["prog"], lambda x: "WToggle " + b(x)),
                core.coq_list(swap_sched(sw["f0"], sw["warm"], sw["prog"], sw["point"]), lambda x: "%d%%nat" % x),
                b(r["flag"]), core.z(r["cache"]), core.z(r["bret"]), r["ncomp"], zl(r["after"]), zl(r["fresh"])))


def eval_swaps(cases, tag="c15w"):
    impl = core.run_impl_parallel("impl_c15.py", cases, chunk=8)
    rep, errors = core.coq_shards(tag, HEADER, [swap_term(c, r) for c, r in zip(cases, impl)], "scase",
                                  "sreport cases", shard=150)
    codes = [0] * len(cases)
    if len(rep) != len(cases) and not errors:
        errors.append(f"Coq reported {len(rep)} results for {len(cases)} swap schedules")
    for idx, v in rep:
        codes[idx] = v
    for c, r in zip(cases, impl):
        if r["errors"]:
            errors.append("swap schedule %r: %s" % (c["swap"]["point"], r["errors"]))
    return codes, errors, impl


def describe_swap(c):
    sw = c["swap"]
    where = {"before": "before thread 0 starts", "after": "after thread 0 finished",
             "ioctl": "first, thread 0 running while thread 1 is inside its ioctl (lock held)"}.get(sw["point"][0]) or \
        ("when thread 0 %s of its effective toggle #%d" % (
            "is about to acquire _cell_size_lock" if sw["point"][0] == "acq" else "has just released _cell_size_lock", sw["point"][1]))
    return "swap=%s, cache %s, %dx%d %dx%dpx: thread 0: %s; thread 1: get_cell_size() %s; then get_cell_size()" % (
        bool(sw["f0"]), "warm" if sw["warm"] else "cold", *sw["t0"],
        ", ".join("enable_win_size_swap()" if x else "disable_win_size_swap()" for x in sw["prog"]), where)


# ------------------------------------- a memoised call against a concurrent invalidation

IV_ENVS = {
    "nv": [dict(E0), dict(E0, pres=9, envname=[0, 0]), dict(E0, xtname=[3, 4], envname=[7, 3], pres=19)],
    "co": [dict(E0), dict(E0, fg=0x123456, bg=-1, pres=3)],
    "cs": [dict(E0, io=0, xc=1), dict(E1), dict(E0, io=0, xc=0, xa=1, pres=8)],
    "probe": [dict(E0)],
}
IV_KEYS = {"nv": [0], "co": [0, 1, 2], "cs": [0], "probe": [0, 1, 2, 3]}
IV_PICKS = {"C": 7, "E": 5, "I": 4, "D": 1}   # picks a command takes at most (first call; effective enable)
IV_NAMES = {"nv": "get_terminal_name_version()", "co": "get_fg_bg_colors[%d]", "cs": "get_cell_size()", "probe": "probe(%d)"}


def iv_counts(progs):
    return [sum(IV_PICKS[c[0]] for c in p) for p in progs]


def iv_tail(progs):
    """picks that finish every thread whatever was wasted on blocked picks before: two rounds of [each thread in
    turn, as many picks as its program can take] (the thread inside the lock region, if any, finishes in round
    one, the threads that were blocked on it in round two)"""
    return [t for t, n in enumerate(iv_counts(progs)) for _ in range(n)] * 2


def unit_perms(units):
    """all interleavings of the threads' pick sequences; units[t] = the lengths of the blocks of consecutive picks of
    thread t that are kept together (all 1: every interleaving of the single picks)"""
    out, cur, pos = [], [], [0] * len(units)

    def rec():
        if all(pos[t] == len(units[t]) for t in range(len(units))):
            out.append(list(cur))
            return
        for t in range(len(units)):
            if pos[t] < len(units[t]):
                n = units[t][pos[t]]
                pos[t] += 1
                cur.extend([t] * n)
                rec()
                del cur[len(cur) - n:]
                pos[t] -= 1

    rec()
    return out


def iv_units(progs, glue):
    """glue: the caller's last two picks (release; return to its caller) stay together"""
    out = []
    for p in progs:
        u = []
        for c in p:
            u += [1, 1, 1, 1, 1, 2] if glue and c[0] == "C" else [1] * IV_PICKS[c[0]]
        out.append(u)
    return out


def iv_case(fn, env, f0, warm, progs, head):
    return {"inval": {"fn": fn, "env": env, "t0": [80, 24, 800, 480], "f0": f0, "warm": warm, "progs": progs,
                      "sched": list(head) + iv_tail(progs), "head": len(head)}}


def iv_random(rng, fn):
    keys = IV_KEYS[fn]
    k = rng.choice(keys)
    k2 = k if rng.random() < 0.7 else rng.choice(keys)
    call, call2 = ["C", k], ["C", k2]
    clear = [["E"]] if fn == "cs" or rng.random() < 0.6 else [["I"]]
    shapes = [
        [[call], clear[:]],
        [[call], [["D"]] + clear],
        [[call, call2], clear[:]],
        [[call], clear + [call2]],
        [[call], clear[:], [call2]],
        [[call], [["E"], ["D"]], [call2]],
        [[call, ["D"]], [["E"]], [call2]],
        [[["D"], call], [["E"], call2]],
        [[call], [["E"]], [["E"], call2]],
        [[call], [["D"], ["E"]], [["D"]]],
    ]
    progs = rng.choice(shapes)
    f0 = int(rng.random() < 0.35)
    warm = []
    if rng.random() < 0.3:
        warm = [[rng.choice([k, k2]), int(rng.random() < 0.5)]]
    head = [t for t, n in enumerate(iv_counts(progs)) for _ in range(n)]
    rng.shuffle(head)
    return iv_case(fn, rng.choice(IV_ENVS[fn]), f0, warm, progs, head)


def iv_corpus():
    """boundary schedules, run first"""
    ce, ci = [[["C", 0]], [["E"]]], [[["C", 0]], [["I"]]]
    nc, ne, ni = IV_PICKS["C"], IV_PICKS["E"], IV_PICKS["I"]
    out = []
    for fn in ("nv", "co", "cs", "probe"):
        env = IV_ENVS[fn][0]
        # queries disabled; enable_queries() runs while the first call is: about to look up / about to read the flag /
        # waiting for the reply / about to store / about to release / about to return
        for n in (1, 2, 3, 4, 5, 6):
            out.append(iv_case(fn, env, 0, [], ce, [0] * n + [1] * ne + [0] * (nc - n)))
        # ... the caller runs when enable_queries() has written the flag and is about to take the lock / to clear /
        # to release / has released
        for n in (1, 2, 3, 4):
            out.append(iv_case(fn, env, 0, [], ce, [1] * n + [0] * nc + [1] * (ne - n)))
        # ... with an entry made while queries were disabled already there
        out.append(iv_case(fn, env, 0, [[0, 0]], ce, [0, 1, 0, 1, 0, 1, 1, 0, 1]))
        out.append(iv_case(fn, env, 0, [[0, 0]], [[["C", 0]], [["E"], ["C", 0]]], [1, 0, 0, 1, 1, 0, 1, 0, 1, 1, 1, 1, 1]))
        # ... disable / enable round trips around a call in flight
        out.append(iv_case(fn, env, 1, [], [[["C", 0]], [["D"], ["E"]]], [1, 0, 0, 0, 1, 1, 0, 0, 0, 0, 1, 1, 1, 1]))
        out.append(iv_case(fn, env, 1, [[0, 1]], [[["D"], ["C", 0]], [["E"], ["C", 0]]], [0, 1, 0, 0, 1, 0, 1, 0, 1, 1]))
    for fn in ("nv", "co", "probe"):   # the bare _invalidate_cache()
        for n in (2, 3, 4, 5, 6):
            out.append(iv_case(fn, IV_ENVS[fn][0], 1, [], ci, [0] * n + [1] * ni + [0] * (nc - n)))
        out.append(iv_case(fn, IV_ENVS[fn][0], 0, [], [[["C", 0]], [["I"]], [["C", 0]]],
                           [0, 0, 0, 1, 2, 1, 2, 0, 0, 0, 0, 1, 1, 1, 2]))
    return out


def all_invals(rng, quick):
    cases = iv_corpus()
    n_corpus = len(cases)
    # EVERY interleaving of a first call (queries disabled, cold) with enable_queries() / _invalidate_cache()
    full = [("nv", [[["C", 0]], [["E"]]], 0), ("probe", [[["C", 1]], [["I"]]], 1)]
    if not quick:
        full += [("co", [[["C", 2]], [["E"]]], 0), ("cs", [[["C", 0]], [["E"]]], 0), ("probe", [[["C", 0]], [["E"]]], 0),
                 ("nv", [[["C", 0]], [["I"]]], 0), ("co", [[["C", 1]], [["I"]]], 1),
                 ("nv", [[["C", 0]], [["D"], ["E"]]], 1)]
    for fn, progs, f0 in full:
        for head in unit_perms(iv_units(progs, quick)):
            cases.append(iv_case(fn, IV_ENVS[fn][0], f0, [], progs, head))
    n_full = len(cases) - n_corpus
    # the same two scenarios on the other functions, sampled; then random programs / flags / warm entries
    fns = ["nv", "co", "cs", "probe"]
    for i in range(120 if quick else 4000):
        cases.append(iv_random(rng, fns[i % 4]))
    return cases, n_full


def qcmd_term(c):
    return {"C": "QCall %d%%nat" % (c[1] if len(c) > 1 else 0), "I": "QInval", "E": "QEnable", "D": "QDisable"}[c[0]]


def zpair(p):
    return "(%s, %s)" % (core.z(p[0]), core.z(p[1]))


def iev_term(e):
    if e[0] == "B":
        return "IBody %d%%nat" % e[1]
    if e[0] == "XB":
        return "IInvalBegin %d%%nat" % e[1]
    if e[0] == "XE":
        return "IInvalEnd %d%%nat" % e[1]
    if e[0] == "S":
        return "ICallStart %d%%nat" % e[1]
    return "ICallRet %d%%nat %s" % (e[1], core.z(e[2]))


def inval_term(c, r):
    iv = c["inval"]
    nat = lambda x: "%d%%nat" % x  # noqa: E731
    return ("{| i_f0 := %s; i_warm := %s; i_progs := %s; i_sched := %s; i_flag := %s; i_rets := %s; i_nbody := %d%%nat; "
            "i_keys := %s; i_cache := %s; i_after := %s; i_fdis := %s; i_fen := %s; i_log := %s |}" % (
                b(iv["f0"]), core.coq_list(iv["warm"], lambda w: "(%d%%nat, %s)" % (w[0], b(w[1]))),
                core.coq_list(iv["progs"], lambda p: core.coq_list(p, qcmd_term)), core.coq_list(iv["sched"], nat),
                b(r["flag"]), core.coq_list(r["rets"], lambda l: core.coq_list(l, zpair)), r["nbody"],
                core.coq_list(r["keys"], nat), core.coq_list(r["cache"], zpair), core.coq_list(r["after"], zl),
                core.coq_list(r["fdis"], zl), core.coq_list(r["fen"], zl), core.coq_list(r["log"], iev_term)))


def eval_invals(cases, tag="c15i"):
    # (few processes: a schedule is a chain of thread hand-overs, which a loaded machine serves best in few processes)
    impl = core.run_impl_parallel("impl_c15.py", cases, chunk=max(110, (len(cases) + 7) // 8))
    rep, errors = core.coq_shards(tag, HEADER, [inval_term(c, r) for c, r in zip(cases, impl)], "icase",
                                  "ireport cases", shard=120)
    codes = [0] * len(cases)
    if len(rep) != len(cases) and not errors:
        errors.append(f"Coq reported {len(rep)} results for {len(cases)} invalidation schedules")
    for idx, v in rep:
        codes[idx] = v
    for i, (c, r) in enumerate(zip(cases, impl)):
        if r["errors"] or r["stuck"]:
            errors.append("invalidation schedule %s: %s stuck=%d" % (describe_inval(c), r["errors"], r["stuck"]))
        if not r["distinct"]:
            errors.append("invalidation schedule on a terminal whose enabled / disabled values coincide: %r" % c["inval"]["env"])
        if r["drained"] and not codes[i]:
            codes[i] = 1       # the real threads had parking points left where the model had finished
    return codes, errors, impl


def shrink_inval(case):
    """drop whole commands (their picks stay, as no-ops), pre-existing entries, then single picks of the interleaved
    part — latest first — while the observations still contradict the specification"""
    cur = case
    for _ in range(60):
        iv = cur["inval"]
        cands = []
        for t in range(len(iv["progs"])):
            for j in range(len(iv["progs"][t])):
                if sum(len(p) for p in iv["progs"]) > 1:
                    c = copy.deepcopy(cur)
                    del c["inval"]["progs"][t][j]
                    cands.append(c)
        if iv["warm"]:
            c = copy.deepcopy(cur)
            c["inval"]["warm"] = []
            cands.append(c)
        for k in reversed(range(iv["head"])):       # (the tail stays: the replay finishes every thread on correct code)
            c = copy.deepcopy(cur)
            del c["inval"]["sched"][k]
            c["inval"]["head"] = iv["head"] - 1
            cands.append(c)
        if not cands:
            break
        codes, errors, impl = eval_invals(cands, tag="c15is")
        # (at most ONE thread may be left to the free run after the picks: the replay stays deterministic)
        nxt = next((c for c, code, r in zip(cands, codes, impl) if code >= 2 and r["drained"] <= 1), None)
        if nxt is None or errors:
            break
        cur = nxt
    while cur["inval"]["progs"] and not cur["inval"]["progs"][-1]:   # threads left without commands, at the end
        cur["inval"]["progs"].pop()
    return cur


def describe_inval(c, trace=None):
    iv = c["inval"]

    def cmd(x):
        if x[0] == "C":
            n = IV_NAMES[iv["fn"]]
            return n % x[1] if "%" in n else n
        return {"I": "_invalidate_cache()", "E": "enable_queries()", "D": "disable_queries()"}[x[0]]
    txt = "queries %s, %s: %s; picks %s (| the finishing tail); then a call from the main thread" % (
        "enabled" if iv["f0"] else "disabled",
        "entries present " + repr(iv["warm"]) if iv["warm"] else "memo cold",
        "; ".join("thread %d: %s" % (t, ", ".join(map(cmd, p))) for t, p in enumerate(iv["progs"])),
        "".join(map(str, iv["sched"][:iv["head"]])) + "|" + "".join(map(str, iv["sched"][iv["head"]:])))
    if trace:
        txt += " [" + " ".join("%d:%s>%s" % tuple(x) for x in trace if x[1] != "done") + "]"
    return txt


# ------------------------------------- the cache hand-over at the first Process.start()

HD_SWAP = [(dict(E0, xc=0), [80, 24, 800, 960]), (dict(E1), [100, 30, 1000, 600]), (dict(E0, io=0, xc=0, xa=1, pres=3), [80, 24, 1000, 487])]
HD_QUERIES = [(dict(E0, io=0, xc=1), [80, 24, 800, 480]), (dict(E0, io=0, xc=0, xa=1, pres=9), [100, 30, 1000, 600])]
HD_PICKS = {"T": 4, "S": 7, "G": 9}   # picks a command takes at most


def hd_counts(progs):
    return [sum(HD_PICKS[c[0]] for c in p) for p in progs]


def hd_tail(progs):
    """picks that finish every thread whatever was wasted on blocked picks before (two rounds, see iv_tail)"""
    return [t for t, n in enumerate(hd_counts(progs)) for _ in range(n)] * 2


def hd_case(kind, k, f0, warm, progs, head):
    env, t0 = (HD_SWAP if kind == "swap" else HD_QUERIES)[k]
    return {"hand": {"kind": kind, "env": env, "t0": t0, "f0": f0, "warm": warm, "progs": progs,
                     "sched": list(head) + hd_tail(progs), "head": len(head)}}


def hd_corpus():
    """boundary schedules, run first"""
    st, ts = [[["S"]], [["T", 1]]], HD_PICKS["T"]
    out = []
    for kind in ("swap", "queries"):
        # the toggle runs — as far as it gets — when the start is: not begun / about to acquire / inside, about to
        # test / about to copy / has copied / has rebound the cache global / about to release / done
        for n in range(0, 8):
            out.append(hd_case(kind, 0, 0, 1, st, [0] * n + [1] * ts + [0] * (7 - n)))
        # ... the start runs when the toggle has: written the flag and evaluated the lock / acquired / cleared
        for n in (1, 2, 3):
            out.append(hd_case(kind, 0, 0, 1, st, [1] * n + [0] * 7 + [1] * (ts - n)))
        # ... the toggle is blocked on the OLD lock across the whole hand-over
        out.append(hd_case(kind, 0, 0, 1, st, [0, 0, 1, 1, 0, 1, 0, 1, 0, 1, 0, 0, 1, 1, 1]))
    # get_cell_size() around the hand-over: served from the array; computing while the start waits; holding the old
    # lock when the globals are rebound (its second lock expression)
    sg = [[["S"]], [["G"], ["G"]]]
    out.append(hd_case("swap", 0, 0, 1, sg, [0] * 7 + [1] * 12))
    out.append(hd_case("swap", 0, 0, 0, sg, [1, 1, 0, 1, 0, 1, 1, 0, 1, 0, 0, 0, 0, 0, 0, 1, 1, 1, 1, 1, 1]))
    out.append(hd_case("swap", 0, 1, 0, sg, [0, 0, 1, 0, 0, 0, 0, 1, 1, 1, 0, 1, 1, 1, 1, 1, 1]))
    out.append(hd_case("swap", 0, 0, 1, [[["S"], ["S"]], [["T", 1], ["G"]]], [0] * 7 + [1] * 4 + [0] * 4 + [1] * 9))
    # two starters and a toggle; a toggle there and back
    out.append(hd_case("swap", 0, 0, 1, [[["S"]], [["S"]], [["T", 1]]], [0, 1, 0, 2, 0, 2, 0, 1, 0, 2, 0, 2, 1, 1, 1, 1]))
    out.append(hd_case("swap", 0, 0, 1, [[["S"]], [["T", 1], ["T", 0]], [["G"]]], [0, 0, 1, 2, 0, 1, 0, 2, 1, 0, 0, 1, 2, 2, 1, 1, 2, 2, 1, 1, 2]))
    return out


def hd_random(rng, i):
    kind = "queries" if i % 4 == 3 else "swap"
    tg = [["T", 1]] if kind == "queries" else rng.choice([[["T", 1]], [["T", 1]], [["T", 0]], [["T", 1], ["T", 0]], [["T", 0], ["T", 1]]])
    f0 = 0 if kind == "queries" else int(rng.random() < 0.3)
    shapes = [
        [[["S"]], tg, [["G"]]],
        [[["S"]], tg, [["G"], ["G"]]],
        [[["S"], ["G"]], tg],
        [[["S"]], tg + [["G"]]],
        [[["S"]], tg, [["S"]]],
        [[["G"], ["S"]], tg],
        [[["S"]], [["G"], ["G"]]],
        [[["S"]], tg, [["T", 1]] if kind == "queries" else [["T", rng.randrange(2)]]],
    ]
    progs = rng.choice(shapes)
    head = [t for t, n in enumerate(hd_counts(progs)) for _ in range(n)]
    rng.shuffle(head)
    return hd_case(kind, rng.randrange(len(HD_SWAP if kind == "swap" else HD_QUERIES)), f0, int(rng.random() < 0.7), progs, head)


def all_hands(rng, quick):
    cases = hd_corpus()
    n_corpus = len(cases)
    # EVERY interleaving of the picks of [Process.start() || a toggle] on a warm cache
    full = [("swap", 0, [[["S"]], [["T", 1]]]), ("queries", 0, [[["S"]], [["T", 1]]])]
    if not quick:
        full += [("swap", 1, [[["S"]], [["T", 0]]])]
    for kind, f0, progs in full:
        for head in unit_perms([[1] * n for n in hd_counts(progs)]):
            cases.append(hd_case(kind, 0, f0, 1, progs, head))
    n_full = len(cases) - n_corpus
    for i in range(100 if quick else 4000):
        cases.append(hd_random(rng, i))
    return cases, n_full


def xcmd_term(c):
    return {"T": "XToggle " + b(c[1] if len(c) > 1 else 1), "G": "XGet", "S": "XStart"}[c[0]]


def hand_term(c, r):
    hd = c["hand"]
    nat = lambda x: "%d%%nat" % x  # noqa: E731
    return ("{| xc_f0 := %s; xc_warm := %s; xc_progs := %s; xc_sched := %s; xc_flag := %s; xc_cache := %s; xc_shared := %s; "
            "xc_lockshared := %s; xc_rets := %s; xc_ncomp := %d%%nat; xc_after := %s; xc_fresh := %s |}" % (
                b(hd["f0"]), b(hd["warm"]), core.coq_list(hd["progs"], lambda p: core.coq_list(p, xcmd_term)),
                core.coq_list(hd["sched"], nat), b(r["flag"]), core.z(r["cache"]), b(r["shared"]), b(r["lockshared"]),
                core.coq_list(r["rets"], zl), r["ncomp"], zl(r["after"]), zl(r["fresh"])))


def eval_hands(cases, tag="c15h"):
    impl = core.run_impl_parallel("impl_c15.py", cases, chunk=max(60, (len(cases) + 7) // 8))
    rep, errors = core.coq_shards(tag, HEADER, [hand_term(c, r) for c, r in zip(cases, impl)], "xcase",
                                  "xreport cases", shard=120)
    codes = [0] * len(cases)
    if len(rep) != len(cases) and not errors:
        errors.append(f"Coq reported {len(rep)} results for {len(cases)} hand-over schedules")
    for idx, v in rep:
        codes[idx] = v
    for i, (c, r) in enumerate(zip(cases, impl)):
        if r["errors"] or r["stuck"]:
            errors.append("hand-over schedule %s: %s stuck=%d" % (describe_hand(c), r["errors"], r["stuck"]))
        if not r["distinct"]:
            errors.append("hand-over schedule on a terminal whose values for the two settings coincide: %r" % c["hand"]["env"])
        if r["drained"] and not codes[i]:
            codes[i] = 1       # the real threads had parking points left where the model had finished
    return codes, errors, impl


def shrink_hand(case):
    """drop whole commands (their picks stay, as no-ops), the pre-existing entry, then single picks of the interleaved
    part — latest first — while the observations still contradict the specification"""
    cur = case
    for _ in range(60):
        hd = cur["hand"]
        cands = []
        for t in range(len(hd["progs"])):
            for j in range(len(hd["progs"][t])):
                if sum(len(p) for p in hd["progs"]) > 1:
                    c = copy.deepcopy(cur)
                    del c["hand"]["progs"][t][j]
                    cands.append(c)
        for k in reversed(range(hd["head"])):
            c = copy.deepcopy(cur)
            del c["hand"]["sched"][k]
            c["hand"]["head"] = hd["head"] - 1
            cands.append(c)
        if not cands:
            break
        codes, errors, impl = eval_hands(cands, tag="c15hs")
        nxt = next((c for c, code, r in zip(cands, codes, impl) if code >= 2 and r["drained"] <= 1), None)
        if nxt is None or errors:
            break
        cur = nxt
    while cur["hand"]["progs"] and not cur["hand"]["progs"][-1]:
        cur["hand"]["progs"].pop()
    return cur


def describe_hand(c, trace=None):
    hd = c["hand"]

    def cmd(x):
        if x[0] == "T":
            if hd["kind"] == "queries":
                return "enable_queries()"
            return "enable_win_size_swap()" if x[1] else "disable_win_size_swap()"
        return {"G": "get_cell_size()", "S": "Process.start()"}[x[0]]
    txt = "%s %s, cell-size cache %s, %dx%d %dx%dpx: %s; picks %s (| the finishing tail); then get_cell_size() from the main thread" % (
        "win-size swap" if hd["kind"] == "swap" else "queries", "on" if hd["f0"] else "off", "warm" if hd["warm"] else "cold", *hd["t0"],
        "; ".join("thread %d: %s" % (t, ", ".join(map(cmd, p))) for t, p in enumerate(hd["progs"])),
        "".join(map(str, hd["sched"][:hd["head"]])) + "|" + "".join(map(str, hd["sched"][hd["head"]:])))
    if trace:
        txt += " [" + " ".join("%d:%s>%s" % tuple(x) for x in trace if x[1] != "done") + "]"
    return txt


def gen_parts(rng, quick):
    """the cases of the parts beside the histories, generated in a fixed order from the one random source"""
    pcases = copy.deepcopy(PROBE_CORPUS) + [gen_probe(rng) for _ in range(150 if quick else 3000)]
    scases = all_swaps(rng, quick)
    icases, n_full = all_invals(rng, quick)
    hcases, h_full = all_hands(rng, quick)
    return {"probe": pcases, "swap": scases, "inval": (icases, n_full), "hand": (hcases, h_full)}


def probe_part(pcases, only=False):
    mismatches, failures, errors, extra = [], [], [], {}
    t0 = time.time()
    codes, perr, impl = eval_probes(pcases)
    errors += perr
    none_again = 0
    for c, r in zip(pcases, impl):
        seen = set()
        for o, row in zip(c["probe"]["cmds"], r["rows"]):
            if o[0] == "I":
                seen = set()
            elif o[1] in seen:
                none_again += c["probe"]["res"][o[1]] < 0
            else:
                seen.add(o[1])
    extra["probe_histories"] = len(pcases)
    extra["probe_calls_again_in_epoch_with_result_None"] = none_again
    done = 0
    for c, code, r in zip(pcases, codes, impl):
        if code >= 2:
            small = shrink_probe(c) if done < 1 else c
            done += 1
            if done > 3:
                continue
            codes2, _, impl2 = eval_probes([small], tag="c15ps")
            failures.append({
                "signature": core.sig(small),
                "what": "a function memoised by utils.cached ran its body more than once for one argument tuple within "
                        "one invalidation epoch (or returned something else than the body's result): " + describe_probe(small),
                "replay": {"probe": small["probe"], "observed": impl2[0], "code": codes2[0]}})
        elif code:
            mismatches.append({"probe": c["probe"], "code": code, "observed": r})
    return mismatches, failures, errors, extra, {"probe_histories": round(time.time() - t0, 1)}


def swap_part(scases, only=False):
    mismatches, failures, errors, extra = [], [], [], {}
    t0 = time.time()
    codes, serr, impl = eval_swaps(scases)
    errors += serr
    extra["swap_schedules"] = len(scases)
    extra["swap_schedules_hook_fired"] = sum(r["fired"] for r in impl)
    extra["swap_schedules_swapped_differs"] = sum(r["distinct"] for r in impl)
    pts = {}
    for c in scases:
        pts[c["swap"]["point"][0]] = pts.get(c["swap"]["point"][0], 0) + 1
    extra["swap_schedule_points"] = pts
    done = 0
    for c, code, r in sorted(zip(scases, codes, impl), key=lambda x: len(x[0]["swap"]["prog"])):
        if code >= 2:
            done += 1
            if done > 3:
                continue
            sw = c["swap"]
            failures.append({
                "signature": core.sig({k: sw[k] for k in ("f0", "warm", "prog", "point")}),
                "what": "after a win-size-swap toggle returned, get_cell_size() is not the fresh value for the current "
                        "setting under this schedule of two threads: " + describe_swap(c),
                "replay": {"swap": sw, "observed": r, "code": code}})
        elif code:
            mismatches.append({"swap": c["swap"], "code": code, "observed": r})
    return mismatches, failures, errors, extra, {"swap_schedules": round(time.time() - t0, 1)}


def inval_part(icases, n_full, only=False):
    mismatches, failures, errors, extra = [], [], [], {}
    t0 = time.time()
    codes, ierr, impl = eval_invals(icases)
    errors += ierr
    extra["inval_schedules"] = len(icases)
    extra["inval_schedules_fully_enumerated"] = n_full
    by_fn, overlap, noop = {}, 0, 0
    for c, r in zip(icases, impl):
        by_fn[c["inval"]["fn"]] = by_fn.get(c["inval"]["fn"], 0) + 1
        inside, hit = set(), False
        for t, was, now in r["trace"]:
            # a thread picked while ANOTHER thread is inside the lock region of a call / in its body
            if any(u != t for u in inside) and was in ("idle", "acq"):
                hit = True
                noop += now == "acq" and was == "acq"
            (inside.add if now in ("held", "body", "reply", "store", "rel") else inside.discard)(t)
        overlap += hit
    extra["inval_schedules_by_function"] = by_fn
    extra["inval_schedules_with_a_pick_while_another_thread_is_inside_the_lock_region"] = overlap
    extra["inval_blocked_picks"] = noop
    done, fns_seen = 0, set()
    for c, code, r in sorted(zip(icases, codes, impl), key=lambda x: (len(x[0]["inval"]["progs"]), x[0]["inval"]["head"],
                                                                      x[0]["inval"]["sched"])):
        if code >= 2:
            if c["inval"]["fn"] in fns_seen:     # one failing schedule per function under test
                continue
            fns_seen.add(c["inval"]["fn"])
            done += 1
            small = shrink_inval(c) if done <= 2 and not only else c
            codes2, _, impl2 = eval_invals([small], tag="c15is")
            iv = small["inval"]
            failures.append({
                "signature": core.sig({k: iv[k] for k in ("fn", "f0", "warm", "progs", "sched")}),
                "what": "a memoised value outlived an invalidation that overlapped its computation (a call made after "
                        "enable_queries() / _invalidate_cache() had returned got a value whose body started before): "
                        + iv["fn"] + ": " + describe_inval(small, impl2[0]["trace"]),
                "replay": {"inval": iv, "observed": impl2[0], "code": codes2[0]}})
        elif code:
            mismatches.append({"inval": c["inval"], "code": code, "observed": r})
    return mismatches, failures, errors, extra, {"inval_schedules": round(time.time() - t0, 1)}


def hand_part(hcases, n_full, only=False):
    mismatches, failures, errors, extra = [], [], [], {}
    t0 = time.time()
    codes, herr, impl = eval_hands(hcases)
    errors += herr
    extra["handover_schedules"] = len(hcases)
    extra["handover_schedules_fully_enumerated"] = n_full
    by_kind, between, oos, getters = {}, 0, 0, 0
    for c, r in zip(hcases, impl):
        hd = c["hand"]
        by_kind[hd["kind"]] = by_kind.get(hd["kind"], 0) + 1
        starters = {t for t, p in enumerate(hd["progs"]) if any(x[0] == "S" for x in p)}
        mid, waiting, stale, hit, late = set(), set(), set(), False, False
        for t, was, now in r["trace"]:
            if t in starters:
                if was == "getlock":          # the lock global is rebound during this pick
                    stale |= waiting
                (mid.add if now in ("held", "copy", "copied", "getlock", "rel") else mid.discard)(t)
                continue
            # another thread picked while a start is between its acquisition and its release
            hit = hit or (bool(mid) and was != "done")
            # ... a thread that evaluated the OLD lock before the rebinding and acquires it afterwards
            late = late or (t in stale and was == "acq" and now == "held")
            (waiting.add if now == "acq" else waiting.discard)(t)
            if now in ("idle", "done"):
                stale.discard(t)
        between += hit
        oos += late
        getters += any(x[0] == "G" for p in hd["progs"] for x in p)
    extra["handover_schedules_by_kind"] = by_kind
    extra["handover_schedules_with_a_pick_while_a_start_is_inside_its_lock_region"] = between
    extra["handover_schedules_with_a_thread_acquiring_the_old_lock_after_the_rebinding"] = oos
    extra["handover_schedules_with_get_cell_size"] = getters
    done, kinds_seen = 0, set()
    for c, code, r in sorted(zip(hcases, codes, impl), key=lambda x: (len(x[0]["hand"]["progs"]), x[0]["hand"]["head"],
                                                                      x[0]["hand"]["sched"])):
        if code >= 2:
            if c["hand"]["kind"] in kinds_seen:     # one failing schedule per kind of invalidator
                continue
            kinds_seen.add(c["hand"]["kind"])
            done += 1
            small = shrink_hand(c) if not only else c
            codes2, _, impl2 = eval_hands([small], tag="c15hs")
            hd = small["hand"]
            failures.append({
                "signature": core.sig({k: hd[k] for k in ("kind", "f0", "warm", "progs", "sched")}),
                "what": "a cell size computed under the previous setting survived: after all threads have finished (every "
                        "toggle / enable_queries() has returned) get_cell_size() is not the fresh value for the current "
                        "setting under this schedule with the cache hand-over of Process.start(): "
                        + describe_hand(small, impl2[0]["trace"]),
                "replay": {"hand": hd, "observed": impl2[0], "code": codes2[0]}})
        elif code:
            mismatches.append({"hand": c["hand"], "code": code, "observed": r})
    return mismatches, failures, errors, extra, {"handover_schedules": round(time.time() - t0, 1)}


def run_parts(parts):
    """the parts beside the histories, concurrently -> (mismatches, failures, errors, extra)"""
    jobs = []
    if "probe" in parts:
        jobs.append(lambda: probe_part(parts["probe"], parts.get("only", False)))
    if "tsargs" in parts:
        jobs.append(lambda: tsargs_part(parts["tsargs"], parts.get("only", False)))
    if "swap" in parts:
        jobs.append(lambda: swap_part(parts["swap"], parts.get("only", False)))
    if "inval" in parts:
        jobs.append(lambda: inval_part(*parts["inval"], parts.get("only", False)))
    if "hand" in parts:
        jobs.append(lambda: hand_part(*parts["hand"], parts.get("only", False)))
    mismatches, failures, errors, extra = [], [], [], {"seconds": {}}
    with ThreadPoolExecutor(max_workers=max(1, len(jobs))) as ex:
        for m, f, e, x, secs in ex.map(lambda j: j(), jobs):
            mismatches += m
            failures += f
            errors += e
            extra.update(x)
            extra["seconds"].update(secs)
    return mismatches, failures, errors, extra


def run(ctx):
    rng = ctx.rng
    if ctx.replay and any(k in ctx.replay["replay"] for k in ("probe", "swap", "inval", "hand", "tsargs")):
        rc = ctx.replay["replay"]
        kind = next(k for k in ("probe", "swap", "inval", "hand", "tsargs") if k in rc)
        only = {kind: rc[kind]}
        parts = {"only": True, kind: ([only], 0) if kind in ("inval", "hand") else [only]}
        mismatches, failures, errors, extra = run_parts(parts)
        return {"corr_name": "replay of a probe history / swap schedule / invalidation schedule / hand-over schedule",
                "evaluations": 1, "distinct_nontrivial": 1, "rule": "replay",
                "samples": [{"probe": describe_probe, "swap": describe_swap, "inval": describe_inval,
                             "hand": describe_hand, "tsargs": describe_tsargs}[kind](only)],
                "histogram": {}, "mismatches": mismatches, "failures": failures, "errors": errors,
                "assumptions": [], "trusted": [], "extra": extra}
    races, parts, n_real = [], {}, 0
    if ctx.replay:
        cases = [ctx.replay["replay"]["case"]]
    else:
        # (all cases are generated first, in a fixed order from the one random source; the parts are then evaluated
        # concurrently)
        n = 420 if ctx.quick else 6000
        cases = copy.deepcopy(CORPUS) + [gen_abort_case(rng) if i % 4 == 1 else gen_tsr_case(rng) if i % 8 == 3
                                         else gen_case(rng, 20 if i % 4 else 8) for i in range(n)]
        races = gen_races(rng, ctx.quick)
        parts = gen_parts(rng, ctx.quick)
        reals = copy.deepcopy(REAL_CORPUS) + [gen_real_case(rng, i) for i in range(70 if ctx.quick else 1500)]
        n_real = len(reals)
        cases += reals
        # (drawn last: every older case is the same as before for a given seed)
        parts["tsargs"] = copy.deepcopy(TSARGS_CORPUS) + [gen_tsargs(rng) for _ in range(150 if ctx.quick else 3000)]
    t_start = time.time()
    pool = ThreadPoolExecutor(max_workers=4)
    f_races = pool.submit(run_races, races) if races else None
    f_parts = pool.submit(run_parts, parts) if parts else None
    impl = core.run_impl_parallel("impl_c15.py", cases)
    f_fresh = None
    if not ctx.replay:
        # fresh computations in new interpreters (final states of the first histories)
        fcs = fresh_cases(cases, impl, 24 if ctx.quick else 400)
        f_fresh = pool.submit(lambda: (run_fresh(fcs), time.time()))
    codes, side, errors, impl = evaluate(cases, impl=impl)
    t_hist = time.time() - t_start
    mismatches, failures = [], []
    hist = {"ops_len": {}, "op_kinds": {}, "caps": {}, "side_condition_holds": sum(side),
            "side_condition_broken_on_purpose": len(cases) - sum(side), "none_cell_size_answers": 0,
            "cache_hits": 0, "recomputations": 0, "armed_calls_raised": 0, "armed_calls_returned": 0,
            "get_after_aborted_get_same_size": 0, "probe_resized_in_body": 0, "probe_armed_resize_not_run(hit)": 0,
            "probe_call_right_after_resize_in_body": 0, "probe_call_after_resize_in_body_other_px": 0,
            "real_terminal": {"histories": 0, "start_env": {}, "env_changes_in_history": 0,
                              "getter_calls_while_a_usable_COLUMNS_or_LINES_differs_from_the_window": 0,
                              "histories_with_such_a_call": 0, "window_resizes": 0}}
    distinct = set()

    def usable(v):
        try:
            return int(v) if int(v) > 0 else None
        except (TypeError, ValueError):
            return None

    def env_class(v, n):
        return "absent" if v is None else "unusable" if usable(v) is None else "equal" if usable(v) == n else "different"

    for c, r in zip(cases, impl):
        if c.get("real") is not None:
            hr = hist["real_terminal"]
            hr["histories"] += 1
            pe, win, stale = [c["real"].get("COLUMNS"), c["real"].get("LINES")], list(c["t0"][:2]), 0
            k = "COLUMNS %s, LINES %s" % (env_class(pe[0], win[0]), env_class(pe[1], win[1]))
            hr["start_env"][k] = hr["start_env"].get(k, 0) + 1
            n_ts = 0
            for o, row in zip(c["ops"], r["rows"]):
                if o[0] == "ENV":
                    pe = [o[1], o[2]]
                    hr["env_changes_in_history"] += 1
                elif o[0] in ("CS", "CR", "TS", "TSR", "CSA", "CRA"):
                    stale += any(usable(v) is not None and usable(v) != n for v, n in zip(pe, win))
                if o[0] == "R" or (o[0] == "TSR" and row["n"][3] != n_ts):   # (a resize armed in the probe's body lands iff the body runs)
                    win = list(o[1:3])
                    hr["window_resizes"] += 1
                n_ts = row["n"][3]
            hr["getter_calls_while_a_usable_COLUMNS_or_LINES_differs_from_the_window"] += stale
            hr["histories_with_such_a_call"] += stale > 0
        L = len(c["ops"])
        hist["ops_len"][L // 5 * 5] = hist["ops_len"].get(L // 5 * 5, 0) + 1
        e = c["env"]
        key = "tty%d io%d xc%d xa%d" % (e["tty"], e["io"], e["xc"], e["xa"])
        hist["caps"][key] = hist["caps"].get(key, 0) + 1
        prev = prev_ts = 0
        kinds = [ABORTED.get(o[0], o[0]) for o in c["ops"]]
        pending_abort = False
        in_body = None      # the pixel size the last probe body saw when a resize landed in it
        for o, row in zip(c["ops"], r["rows"]):
            hist["op_kinds"][o[0]] = hist["op_kinds"].get(o[0], 0) + 1
            if o[0] in ("TS", "TSR") and in_body is not None:
                hist["probe_call_right_after_resize_in_body"] += 1
                hist["probe_call_after_resize_in_body_other_px"] += row["fc"] != in_body
            if o[0] == "TSR":
                ran = row["n"][3] != prev_ts
                hist["probe_resized_in_body" if ran else "probe_armed_resize_not_run(hit)"] += 1
                in_body = row["obs"] if ran else None
            else:
                in_body = None
            prev_ts = row["n"][3]
            if o[0] in ABORTED:
                hist["armed_calls_raised" if row["obs"] == [-1] else "armed_calls_returned"] += 1
            if o[0] in ("CSA", "CRA") and row["obs"] == [-1]:
                pending_abort = True
            elif o[0] in ("CS", "CR") and pending_abort:
                hist["get_after_aborted_get_same_size"] += 1
                pending_abort = False
            elif o[0] in ("R", "ES", "DS", "EQ"):
                pending_abort = False
            if o[0] == "CS":
                hist["none_cell_size_answers"] += row["obs"] == [0]
                hist["cache_hits" if row["n"][0] == prev else "recomputations"] += 1
            prev = row["n"][0]
        getters = sum(k in ("CS", "CR", "CO", "NV", "K", "TS", "TSR") for k in kinds)
        changes = sum(k in ("R", "ES", "DS", "EQ", "DQ", "SR") for k in kinds)
        if getters >= 2 and changes >= 1 and e["tty"]:
            distinct.add(core.sig(c))
    for i, code in enumerate(codes):
        if not code:
            continue
        if code >= 2:
            small = shrink(cases[i]) if len(failures) < 2 else cases[i]
            codes2, _, _, impl2 = evaluate([small], tag="c15r")
            env = {k: small["env"][k] for k in ("tty", "io", "xc", "xa", "xtname", "envname", "fg", "bg")}
            sig = {"env": env, "t0": small["t0"], "ops": small["ops"]}
            if small.get("real") is not None:
                sig["real"] = small["real"]
            failures.append({
                "signature": core.sig(sig),
                "what": "a cached terminal fact outlived its condition (observed value differs from a fresh computation "
                        "for the current terminal and settings): " + describe(small),
                "replay": {"case": small, "observed": impl2[0], "code": codes2[0]},
            })
        else:
            mismatches.append({"case": cases[i], "code": code, "observed": [r["obs"] for r in impl[i]["rows"]]})
    extra = {}
    if not ctx.replay:
        # fresh computations in new interpreters
        (fbad, ferr, fres), t_end = f_fresh.result()
        t_fresh = t_end - t_start
        errors += ferr
        for idx, _ in fbad:
            mismatches.append({"new_interpreter_fresh": fcs[idx], "observed": fres[idx]})
        extra["fresh_in_new_interpreter"] = len(fcs)
        # thread races
        races, rres, rbad, rerr = f_races.result()
        errors += rerr
        for idx, code in rbad:
            item = {"race": {k: races[idx][k] for k in ("threads", "fn")}, "observed": rres[idx], "code": code}
            if code >= 2:
                failures.append({"signature": core.sig(["race", races[idx]["fn"]]),
                                 "what": "memoised body ran more than once per invalidation epoch (or callers got different values) "
                                         f"under {races[idx]['threads']} threads released together on {races[idx]['fn']}",
                                 "replay": item})
            else:
                mismatches.append(item)
        extra["thread_races"] = len(races)
        # sequential histories of a probe under the real utils.cached; swap toggles scheduled against get_cell_size;
        # memoised calls against invalidations; the cache hand-over of Process.start()
        m2, f2, e2, x2 = f_parts.result()
        mismatches += m2
        failures += f2
        errors += e2
        extra.update(x2)
        extra["real_terminal_histories"] = n_real
        extra["seconds"].update({"histories(impl+coq)": round(t_hist, 1), "fresh_in_new_interpreters(done at)": round(t_fresh, 1),
                                 "all_parts_concurrently": round(time.time() - t_start, 1)})
    pool.shutdown()
    return {
        "corr_name": "Caches.trace (model) == real term_image getters/toggles over a scripted terminal; "
                     "Caches.spec_trace (fresh computations under provenance) == observed; CachesEnv.etrace key_window == the same "
                     "with the library's own get_terminal_size() on a pty under COLUMNS / LINES; CachesHand.xstep under the "
                     "schedule == real threads incl. the Process.start() hand-over",
        "evaluations": len(cases),
        "distinct_nontrivial": len(distinct),
        "rule": "corpus + random histories (1-20 ops) over resize / swap toggles / query toggles / set_cell_ratio "
                "(FIXED, DYNAMIC, floats incl. non-positive) / get_cell_size / get_cell_ratio / get_fg_bg_colors "
                "(three argument tuples) / get_terminal_name_version / TextImage._is_on_kitty / a terminal_size_cached "
                "probe / the probe with a resize landing WHILE ITS BODY RUNS (every 8th history is built around [(probe; resize;) "
                "computing probe with a resize to another size in its body; probe]) / the same getters with a fault armed inside query_terminal (KeyboardInterrupt, OSError, "
                "termios.error: ABORTED computations; every 4th history is built around [get; resize in cells without "
                "ioctl pixel size; aborted get; get again]), on scripted terminals (ioctl pixel size or not, XTWINOPS cell / text-area replies or not, "
                "XTVERSION or TERM_PROGRAM, colours or not, no tty).  After every op: return value + body counters; "
                "for every getter additionally the value of a twin package copy run from empty caches.  "
                "Non-trivial: a tty, >= 2 getter calls and >= 1 state change; distinct by full case hash.  "
                "~15% of histories break the side condition on purpose (model compared, property not judged).  "
                "PLUS (extra.probe_histories) sequential histories of 2-14 calls / invalidations of a probe under the real "
                "utils.cached over 12 argument tuples (positional, keyword, None arguments, two pairs of distinct tuples with equal hashes) whose body returns None (45%) or one "
                "of 9 other objects incl. the falsy 0, '', False, (), 0.0, (None, None), runs counted per command; PLUS "
                "(extra.swap_schedules) deterministic two-thread schedules: programs of 1-3 enable_/disable_win_size_swap calls "
                "x initial flag x warm/cold cache x the point at which the other thread's get_cell_size() runs (before, after, "
                "at the acquire / the release of the j-th effective toggle, or the toggler running while the getter is inside "
                "its ioctl), on terminals whose swapped and unswapped cell sizes differ; PLUS (extra.inval_schedules) schedules of 2-3 real "
                "threads under a cooperative scheduler running programs of memoised calls / _invalidate_cache() / enable_queries() / "
                "disable_queries() on get_terminal_name_version, get_fg_bg_colors (3 argument tuples), get_cell_size and a probe under "
                "the real utils.cached, with parking points at the memo's lock (about to acquire / acquired / about to release), at the "
                "start of the memoised body, inside the body after _queries_enabled was read (the terminal's reply pending) and at the "
                "table's setdefault: a corpus, EVERY interleaving of the picks of [first call || enable_queries()] (queries disabled, "
                "memo cold; quick: the caller's release and return kept together: 462) and of [first call || _invalidate_cache()] (210) "
                "(thorough: at the grain of single picks, for every function, plus [call || disable;enable]), and random programs (two callers, enable/disable round trips, two "
                "enablers, entries already present, initial flag) under random interleavings; picks of a thread that finds the lock "
                "taken are part of the schedules (no-ops on the unchanged code).  PLUS (histogram.real_terminal; the last "
                "extra.real_terminal_histories of the histories) histories run with the library's OWN get_terminal_size() (not replaced) "
                "on a pty whose window — cells and pixels — is set with TIOCSWINSZ at the start, at every resize and when a resize "
                "lands in the probe's body, the real ioctl serving get_cell_size, in a process environment holding COLUMNS / LINES "
                "each absent (30%) / equal to the window at start-up, i.e. stale after the first resize (35%) / different (20%) / "
                "unusable: 0, negative, not a number (15%), changed by 0-2 os.environ updates in mid-history; built around [getter; "
                "resize of the window in columns AND rows; getter] for get_cell_size / DYNAMIC get_cell_ratio / the "
                "terminal_size_cached probe, embedded in a random / aborted-computation / resize-in-body history; a corpus of 8 "
                "boundary histories first.  PLUS (extra.handover_schedules) schedules of 2-3 real threads under the cooperative "
                "scheduler running programs of Process.start() (utils._process_start_wrapper around a start that does not fork) / "
                "enable_/disable_win_size_swap() or enable_queries() / get_cell_size(), parking points: every acquisition from outside "
                "(about to acquire, acquired) and every complete release of the import-time lock and of the shared array's lock, the "
                "creation of the shared array (about to copy, copied), its get_lock() (cache global rebound, lock global not yet), "
                "inside get_cell_size's ioctl (flag not read yet) and at its cache write: a corpus, EVERY interleaving of the picks of "
                "[Process.start() || enable_win_size_swap()] and of [Process.start() || enable_queries()] on a warm cache (330 each; "
                "thorough: also with disable_win_size_swap()), and random programs (a getter as third thread, two starts, toggles there and back, "
                "both kinds of invalidator, warm / cold) under random interleavings.  PLUS (extra.tsargs) histories of 4-14 commands on a "
                "probe under the real utils.terminal_size_cached called with 2-3 hot argument tuples out of 7 ((), two instances as for a "
                "decorated method, f(2), f(n=2), mixed positional/keyword, an unhashable argument): call 60% / resize among 2-4 sizes (so "
                "sizes are revisited) 25% / _invalidate_terminal_size_cache() 7% / call with a resize landing in the body 8%; body = a "
                "function of the terminal size alone (70%) or depending on the argument tuple (30%); terminal size scripted (70%) or the "
                "library's own get_terminal_size() on a pty resized with TIOCSWINSZ (30%); a corpus of 6 first.",
        "samples": ([describe(c) for c in cases[:1] + cases[14:15] + cases[len(CORPUS):len(CORPUS) + 1]
                     + (cases[len(cases) - n_real:len(cases) - n_real + 1] + cases[-1:] if n_real else [])]
                    + ([describe_hand(parts["hand"][0][3])] if parts.get("hand") else [])
                    + [describe(c) for c in cases[1:2] + cases[len(CORPUS) - 4:len(CORPUS) - 3]])[:6],
        "histogram": hist,
        "mismatches": mismatches,
        "failures": failures,
        "errors": errors,
        "assumptions": [
            "side condition of the property: at a call that needs the cell size, a live entry for the current size in "
            "cells was made at the same pixel size (pixel-only changes between two calls are not required to be noticed)",
            "terminal name/version, colours and capabilities do not change during a session (they are parameters of a history)",
            "freshness per argument tuple of a terminal_size_cached function is claimed for wrapped functions whose result depends "
            "on the terminal size only (size_only; the decorator is documented to return 'the last return value' whatever the "
            "arguments, and the library never calls such a function with differing arguments)",
            "the body of a memoised function is atomic with respect to its own lock and does not call the same memoised function",
            "AutoCellRatio.is_supported is sticky by documentation and modelled as such (outside the property)",
            "a resize during a memoised computation lands after the body has looked at the terminal (the body's value is "
            "the one for the size the wrapper read before it); a body that reads the terminal again after the resize is "
            "not modelled",
            "swap toggles under concurrency: the terminal is not resized while toggles and get_cell_size calls interleave; "
            "get_cell_size's double acquisition of _cell_size_lock (the lock-swap protocol, C14) is modelled as one "
            "acquisition; the statement read and the flag write of a toggle, and the flag read and the cache write of "
            "get_cell_size, are separate micro-steps",
            "a call against a concurrent invalidation: one memo at a time (enable_queries invalidates its memos in turn, each as "
            "modelled); the body reads _queries_enabled once, at its start (query_terminal's entry; the second read in the getters, "
            "which only decides whether the rest of the DA1 reply is drained, does not influence the value); the statement is about "
            "states in which no enable_queries() is between its flag write and its clear (a second enable_queries() that finds the "
            "flag already written returns while the first one still has its clear ahead)",
            "where the cache key comes from: an active terminal exists and os.get_terminal_size() works on it (then the window "
            "decides; with no active terminal the library itself falls back to shutil, and 'the terminal size' is by definition "
            "what shutil reports); COLUMNS / LINES hold plain decimal numerals or non-numbers (Python's int() also accepts "
            "surrounding blanks, a sign, underscores)",
            "the cache hand-over: the shared array and its lock are created once per process (the first Process.start()); the "
            "statement `_cell_size_cache[:] = ...` (load of the global, then the store into that object) and the comparison with "
            "the cache key are one micro-step each; enable_queries() as an invalidator of the cell-size cache has the shape of a "
            "win-size-swap toggle with _queries_enabled as the flag (its two memo invalidations before are CachesInval's); the "
            "tty lock's hand-over in the same wrapper belongs to C14",
            "aborted computations: the exception is raised inside query_terminal (request write, tcsetattr, or the wait "
            "for the reply); an abort at other points (inside the ioctl, between Python statements by an asynchronous "
            "signal) is not modelled",
        ],
        "trusted": [
            "scripted terminal in impl_c15.py (FIFO of replies; replaces get_terminal_size, fcntl.ioctl, termios.tc*attr, "
            "write_tty/read_tty, _tty_fd, TERM_PROGRAM*); query_terminal and everything above it is the real code",
            "body executions are counted by a pass-through wrapper around utils.query_terminal and by ioctl calls; the "
            "counters are put back when the call raises (they count COMPLETED computations)",
            "fault injection: the scripted terminal raises KeyboardInterrupt from the timed read, OSError from the write, "
            "termios.error from tcsetattr(TCSAFLUSH), once per armed call",
            "resize during a body: the terminal_size_cached probe's body itself sets the scripted terminal to the new "
            "size after reading it (single-threaded, deterministic stand-in for a SIGWINCH-time change during a slow body)",
            "swap schedules: utils._cell_size_lock is replaced by a wrapper around a real RLock that runs the other thread to "
            "completion at the chosen lock event of the toggling thread (or starts the toggling thread from inside the "
            "getter's ioctl and waits until it reaches the lock); the schedule given to the model is computed from the "
            "unchanged code's step counts",
            "invalidation schedules: the lock and the table of utils.cached are reached through the closure cells shared by the "
            "wrapper and its _invalidate_cache and replaced by a reporting re-entrant lock (try-acquire only: a pick of a blocked "
            "thread is a no-op) and a reporting dict (for get_cell_size: utils._cell_size_lock / _cell_size_cache are replaced "
            "likewise); body parking points sit in a pass-through wrapper of utils.query_terminal (before the real function reads "
            "_queries_enabled, and after it returned); the cooperative scheduler lets exactly one controlled thread run at a time; "
            "what is left unfinished after the picks runs freely; the log of body starts / begins and returns of invalidations / call starts "
            "and returns is appended by the threads themselves while they hold the turn",
            "real-terminal histories: the kernel's pty (TIOCSWINSZ / TIOCGWINSZ); utils._tty_fd is pointed at the pty's slave "
            "side and utils.get_terminal_size is the function object utils.py defined (the driver never imports the test-suite "
            "stubs, so every module that imported it by name holds the same object); queries still go to the scripted terminal; "
            "the twin is given the window the driver set, not the function under test nor the environment",
            "hand-over schedules: utils._cell_size_lock is an instance of a subclass of threading.RLock's type (so that "
            "isinstance(lock, utils._rlock_type) holds) that parks and never blocks under the scheduler; utils.Array is replaced "
            "by a factory returning a list subclass with get_lock() (nothing is forked: the start wrapped by "
            "utils._process_start_wrapper is a stub, and utils.mp_RLock returns a thread lock for the tty lock's hand-over); the "
            "rebinding statements themselves are not instrumented: the parking points before / after them are the array factory's "
            "return and the call of get_lock()",
            "probe histories: the probe's body counts its runs and returns scripted objects; returned objects are "
            "identified by identity",
            "terminal_size_cached with several argument tuples: the probe's body asks utils.get_terminal_size() and logs the "
            "argument tuple it ran with; the fresh computation is probe.__wrapped__ called with the call's own arguments just "
            "before the call (not logged); the in-body resize is done by the body itself",
            "thread races use real threads (outcome is schedule-independent on correct code); CPython's RLock is trusted",
        ],
        "extra": extra,
    }
