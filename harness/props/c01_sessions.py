"""C01, sessions: several render requests on ONE image instance, some of them interrupted.

A session case is an ordinary render case (style, image, terminal identity, ...) with the extra
key "session": a list of steps.  Every step is self-contained ("size", "via", "spec", "alpha",
"args" are absolute, never relative to the previous step) so that steps can be dropped when a
failing session is shrunk.  "fault" (optional) interrupts the request:
    {"async": {"frac": f}}   asynchronous KeyboardInterrupt at line event 1 + floor(f * n) of the n
                             line events a render with these settings executes in term_image code
    {"async": {"k": k}}      ... at the k-th line event (what a replay file contains)
    {"raise": {"target": "module:attr.path", "nth": n, "exc": "MemoryError"}}
                             the n-th call of something the render calls raises
Every completed request is judged exactly like a single render: lexed fail-closed, compared with the
token model through the session model (model/RenderSessionTie.v: scheck) and run through rect_checkb."""
from __future__ import annotations

import copy

import core
import lexer
import renderlib as R

HEADER = ("From Coq Require Import List ZArith.\nImport ListNotations.\n"
          "From TI Require Import lib.Term lib.RectCheck model.Block model.RenderTie model.RenderSessionTie.\n"
          "Open Scope Z_scope.\n")

DEFAULT_ALPHA = 40 / 255  # term_image.image.common._ALPHA_THRESHOLD (str(image), format without '#')

TERMS = ["konsole", "wezterm", "iterm2", ""]
WIDTHS = [1, 2, 3, 5, 8, 12]
HEIGHTS = [1, 2, 3, 4, 6]

RAISE_TARGETS = {
    "block": [("io:StringIO.write", 40), ("PIL.Image:Image.resize", 1), ("PIL.Image:Image.convert", 2),
              ("PIL.Image:Image.getdata", 2), ("term_image.image.block:get_fg_bg_colors", 1)],
    "kitty": [("io:StringIO.write", 8), ("term_image.image.kitty:compress", 4),
              ("term_image.image.kitty:standard_b64encode", 4), ("PIL.Image:Image.tobytes", 1),
              ("PIL.Image:Image.resize", 1), ("io:BytesIO.read", 4)],
    "iterm2": [("io:StringIO.write", 8), ("io:BytesIO.write", 6), ("term_image.image.iterm2:standard_b64encode", 4),
               ("PIL.Image:Image.save", 3), ("PIL.Image:Image.resize", 1), ("PIL.Image:Image.crop", 3)],
}
EXCS = ["MemoryError", "OSError", "ValueError", "KeyboardInterrupt"]


# ------------------------------------------------------------------------------- generation


def gen_args(rng, style):
    a = {}
    if style == "block":
        if rng.random() < 0.3:
            a["split_cells"] = True
        return a
    methods = ["lines", "whole", "LINES", "Whole"] + (["anim"] if style == "iterm2" else [])
    if rng.random() < 0.85:
        a["method"] = rng.choice(methods)
    if rng.random() < 0.5:
        a["mix"] = rng.random() < 0.5
    if rng.random() < 0.4:
        a["compress"] = rng.randrange(10)
    if style == "kitty":
        if rng.random() < 0.4:
            a["z_index"] = rng.choice([0, 1, -1, 5, -(2 ** 31) + 1, 2 ** 31 - 1])
        if rng.random() < 0.4:
            a["blend"] = rng.random() < 0.5
    return a


def alpha_spec(alpha):
    """Format-specifier text selecting `alpha`, or None when it has none."""
    if alpha is None:
        return "#"
    if alpha == "#":
        return "##"
    if isinstance(alpha, str):
        return alpha
    r = repr(float(alpha))
    if r.startswith("0.") and "e" not in r:
        return "#" + r[1:]
    return None


def style_spec(style, args):
    """(spec text, the style arguments it stands for): what a format specifier can express."""
    kept, text = {}, ""
    if style == "block":
        return "", {}
    m = args.get("method")
    if m:
        text += m[0].upper()
        kept["method"] = m
    if style == "kitty" and "z_index" in args:
        text += f"z{args['z_index']}"
        kept["z_index"] = args["z_index"]
    if "mix" in args:
        text += f"m{int(args['mix'])}"
        kept["mix"] = args["mix"]
    if "compress" in args:
        text += f"c{args['compress']}"
        kept["compress"] = args["compress"]
    return ("+" + text if text else ""), kept


def gen_step(rng, style, size, faulty):
    alpha = rng.choice(R.ALPHAS)
    args = gen_args(rng, style)
    via = rng.choice(["renderer", "renderer", "renderer", "str", "format"])
    step = {"size": size, "via": via}
    if via == "str":
        step.update(alpha=DEFAULT_ALPHA, args={})
    elif via == "format":
        a = alpha_spec(alpha)
        if a is None or rng.random() < 0.2:
            a, alpha = "", DEFAULT_ALPHA
        st, kept = style_spec(style, args)
        step.update(spec="1.1" + a + st, alpha=alpha, args=kept)
    else:
        step.update(alpha=alpha, args=args)
    if faulty:
        if rng.random() < 0.7:
            step["fault"] = {"async": {"frac": round(rng.random(), 4)}}
        else:
            target, top = rng.choice(RAISE_TARGETS[style])
            step["fault"] = {"raise": {"target": target, "nth": rng.randint(1, top), "exc": rng.choice(EXCS)}}
    return step


def gen_base(rng):
    style = rng.choice(["block", "block", "kitty", "kitty", "iterm2", "iterm2"])
    base = {"style": style, "cells": [rng.choice(WIDTHS), rng.choice(HEIGHTS)], "alpha": None, "args": {}, "term": "",
            "img": R.gen_image(rng, 12, kinds=("random", "runs", "uniform", "alpha-flip", "bands"))}
    if style == "block":
        base["on_kitty"] = rng.random() < 0.3
        base["term_bg"] = rng.choice([None, [0, 0, 0], [255, 255, 255], [18, 52, 86]])
    else:
        base["cell_size"] = [rng.choice([1, 3, 8, 10]), rng.choice([1, 5, 16, 20])]
        if style == "iterm2":
            base["term"] = rng.choice(TERMS)
            if rng.random() < 0.25:
                base["img"]["frames"] = rng.choice([2, 3])
    return base


def gen_session(rng):
    base = gen_base(rng)
    style = base["style"]
    n = rng.choice([2, 2, 3, 3, 4, 5])
    size = list(base["cells"])
    dynamic_ok = rng.random() < 0.25
    if dynamic_ok:
        base["term_size"] = [rng.choice([10, 16, 24]), rng.choice([6, 10])]
    steps = []
    for j in range(n):
        r = rng.random()
        if r < 0.35:
            size = [rng.choice(WIDTHS), rng.choice(HEIGHTS)]
        elif dynamic_ok and r < 0.55:
            size = rng.choice(["fit", "auto"])
        last = j == n - 1
        steps.append(gen_step(rng, style, copy.copy(size), faulty=not last and rng.random() < 0.65))
    if not any("fault" in s for s in steps):
        j = rng.randrange(n - 1)
        steps[j] = gen_step(rng, style, steps[j]["size"], faulty=True)
    base["session"] = steps
    return base


def corpus():
    """[complete, interrupted half-way, complete] and [interrupted as the very first render,
    complete] for every style x method, plus an exception out of the n-th buffer write."""
    cs = []
    img = {"mode": "RGBA", "size": [8, 8], "seed": 11, "kind": "random", "alphas": [255, 255, 0]}
    for style, methods in (("block", [None]), ("kitty", ["lines", "whole"]), ("iterm2", ["lines", "whole", "anim"])):
        for m in methods:
            args = {"method": m} if m else {}
            base = {"style": style, "cells": [4, 3], "alpha": None, "args": {}, "img": dict(img),
                    "term": "konsole" if style == "iterm2" else "", "cell_size": [4, 4]}
            done = {"size": [4, 3], "via": "renderer", "alpha": 0.5, "args": args}
            for frac in (0.3, 0.6, 0.9):
                cut = dict(done, fault={"async": {"frac": frac}})
                cs.append(dict(base, session=[done, cut, done]))
                cs.append(dict(base, session=[cut, dict(done, size=[3, 2])]))
            boom = dict(done, fault={"raise": {"target": "io:StringIO.write", "nth": 7 if style == "block" else 2,
                                               "exc": "MemoryError"}})
            cs.append(dict(base, session=[boom, done, dict(done, via="str", alpha=DEFAULT_ALPHA, args={})]))
    return copy.deepcopy(cs)


def small_scenarios():
    """Thorough tier: scenarios small enough to interrupt at EVERY line event."""
    out = []
    img = {"mode": "RGBA", "size": [4, 4], "seed": 5, "kind": "random", "alphas": [255, 0]}
    for style, methods in (("block", [None]), ("kitty", ["lines", "whole"]), ("iterm2", ["lines", "whole", "anim"])):
        for m in methods:
            for term in (["konsole", ""] if style == "iterm2" else [""]):
                for via in ("renderer", "str"):
                    if via == "str" and m not in (None, "lines"):
                        continue
                    args = ({"method": m} if m else {}) if via == "renderer" else {}
                    base = {"style": style, "cells": [3, 2], "alpha": None, "args": {}, "img": dict(img),
                            "term": term, "cell_size": [2, 2]}
                    step = {"size": [3, 2], "via": via, "alpha": 0.5 if via == "renderer" else DEFAULT_ALPHA, "args": args}
                    out.append((base, step))
    # a dynamically sized instance (the size is pinned for the duration of a render)
    base = {"style": "block", "cells": [0, 0], "dynamic": {}, "term_size": [6, 4], "alpha": None, "args": {},
            "img": dict(img), "term": ""}
    out.append((base, {"size": "fit", "via": "str", "alpha": DEFAULT_ALPHA, "args": {}}))
    return out


def every_position(scenarios):
    """For each (base, step): learn n with one run, then one session per k in 1..n:
    [step interrupted at k, step] (and every 7th also followed by a render at another size)."""
    probes = [dict(copy.deepcopy(b), session=[dict(copy.deepcopy(s), fault={"async": {"frac": 0.0}})]) for b, s in scenarios]
    impl = core.run_impl_parallel("impl_render.py", probes)
    cases = []
    for (b, s), r in zip(scenarios, impl):
        n = (r.get("session") or [{}])[0].get("n", 0)
        for k in range(1, n + 1):
            steps = [dict(copy.deepcopy(s), fault={"async": {"k": k}}), copy.deepcopy(s)]
            if k % 7 == 0 and s["size"] != "fit":
                steps.append(dict(copy.deepcopy(s), size=[2, 3]))
            cases.append(dict(copy.deepcopy(b), session=steps))
    return cases


# --------------------------------------------------------------------------------- judging


def step_case(case, step):
    c = {k: v for k, v in case.items() if k != "session"}
    c["args"] = step.get("args", {})
    c["alpha"] = step.get("alpha")
    return c


def judge(cases, tag):
    """Runs the sessions.  Returns (verdicts, impl results, infrastructure errors); a verdict is
    {"code": bits (1 model / 2 contract / 4 pixels), "step": index of the first offending step or
     None, "lexerr": message or None}."""
    impl = core.run_impl_parallel("impl_render.py", cases)
    verdicts = [{"code": 0, "step": None, "lexerr": None} for _ in cases]
    terms, owner = [], []
    for i, (c, r) in enumerate(zip(cases, impl)):
        v = verdicts[i]
        if "error" in r or "session" not in r:
            v["lexerr"], v["step"] = "session could not be set up: " + str(r.get("error")), 0
            continue
        steps = []
        for j, (st, sr) in enumerate(zip(c["session"], r["session"])):
            msg = None
            if "interrupted" in sr:
                steps.append(f"SCut {min(int(sr.get('k') or sr.get('calls') or 0), 1000)}")
                continue
            if "error" in sr:
                msg = "render raised " + sr["error"]
            else:
                try:
                    full = lexer.lex(sr["out"])
                    sr["toks"] = R.strip_payload(full)
                    bad = R.kitty_payload_errors(full) if c["style"] == "kitty" else None
                    if bad:
                        msg = f"a kitty terminal rejects the render's data: {bad}"
                except lexer.LexError as e:
                    msg = f"unlexable output: {e}"
            if msg:
                v["lexerr"], v["step"] = f"request {j + 1} of the session: {msg}", j
                break
            steps.append("SDone (" + R.case_term(step_case(c, st), sr, sr["toks"]) + ")")
        if v["lexerr"] is None:
            terms.append(core.coq_list(steps))
            owner.append(i)
    errors = []
    if terms:
        bad, errs = core.coq_shards(tag, HEADER, terms, "list sstep", "sbad cases", shard=40)
        errors += errs
        for idx, code in bad:
            v = verdicts[owner[idx]]
            v["code"], v["step"] = code % 8, code // 8
    return verdicts, impl, errors


def failing(v):
    return v["lexerr"] is not None or v["code"] & 2


def concrete(case, res):
    """The session with every fault position made absolute (what the driver actually did)."""
    c = copy.deepcopy(case)
    for st, sr in zip(c["session"], (res or {}).get("session", [])):
        f = st.get("fault")
        if f and "async" in f and sr.get("k") is not None:
            f["async"] = {"k": sr["k"], **({"exc": f["async"]["exc"]} if "exc" in f["async"] else {})}
    return c


def shrink(case, verdict, res, tag):
    """Smallest sub-session that still fails: [one interrupted request, the offending request],
    the offending request alone, the prefix up to it."""
    case = concrete(case, res)
    j = verdict["step"] if verdict["step"] is not None else len(case["session"]) - 1
    steps = case["session"]
    cands = [[steps[j]]]
    cands += [[steps[i], steps[j]] for i in range(j - 1, -1, -1) if "fault" in steps[i]]
    cands += [[steps[i], steps[j]] for i in range(j - 1, -1, -1) if "fault" not in steps[i]]
    cands.append(steps[: j + 1])
    cs = [dict(case, session=copy.deepcopy(x)) for x in cands]
    vs, impl, _ = judge(cs, tag + "_shrink")
    for c, v, r in zip(cs, vs, impl):
        if failing(v):
            return c, v, r
    return case, verdict, res


def explain(case, verdict, res, tag):
    j = verdict["step"]
    try:
        st, sr = case["session"][j], res["session"][j]
        return R.explain(step_case(case, st), sr, tag)
    except Exception as e:  # noqa: BLE001
        return f"(no explanation: {type(e).__name__})"


def describe(case, res=None):
    parts = []
    for j, st in enumerate(case["session"]):
        sr = (res or {}).get("session", [{}] * (j + 1))[j] if res and j < len(res.get("session", [])) else {}
        f = st.get("fault")
        what = f"{st.get('via')}{'(' + repr(st.get('spec')) + ')' if st.get('via') == 'format' else ''} size={st.get('size')} alpha={st.get('alpha')!r} args={st.get('args')}"
        if f and "async" in f:
            what += f" !async {f['async']}" + (f" -> {sr.get('interrupted')} at {sr.get('where')}" if "interrupted" in sr else "")
        elif f:
            what += f" !raise {f['raise']}"
        parts.append(f"[{j + 1}] {what}")
    c = {k: v for k, v in case.items() if k != "session"}
    c.setdefault("args", {})
    return R.describe(c) + " SESSION " + " ; ".join(parts)
