"""C02, render SEQUENCES: a list of render requests in ONE driver process over several image
instances (BlockImage and subclasses of it, instances of the same and of different images, renders of
other styles in between), multi-frame sources whose frames differ in mode and alpha content (multi-page
TIFF: RGB / RGBA / LA / L / 1 / CMYK pages; GIF: first frame P with a transparent index, later frames
RGBA), frames selected with seek() in any order or yielded by the image iterator, the transparency
setting given explicitly or through a format specifier ('#', '#.5', '#rrggbb' incl. all-decimal and
exponent-shaped colours), the same colour / size requested repeatedly; SOURCE FORMATS behind a lazy,
configurable decoder (JPEG stills in RGB / L / CMYK, two-frame MPO), handed over as a file path, as a PIL
image decoding lazily from memory, or as a file-backed PIL image the caller opened but never loaded, and
rendered at 1/1, 1/2, 1/4, 1/8 of their pixel size in every order (thumbnail first, then pixel-for-pixel).

A sequence case is a render case of harness/impl/impl_render.py with "instances" and "session" (see the
driver).  Every block render handed out is judged by ITS OWN request: like a single render, against the
source pixels of the frame its own history selects (exact composite oracle at render resolution; off render
resolution, for frames without an alpha channel, against the FULL fresh decode converted and BOX-resampled
to render resolution -- "the image at render resolution"), and against equal requests of the same sequence
(model/BlockSeqTie.v: qcheck, evaluated inside Coq).  After every sequence each PIL image the caller handed
in must still decode to its full-size pixels (model/BlockSeqSrc.v: the source objects stay intact)."""
from __future__ import annotations

import copy

import core
import lexer
import renderlib as R

HEADER = ("From Coq Require Import List ZArith Bool.\nImport ListNotations.\n"
          "From TI Require Import lib.Term lib.RectCheck model.Block model.RenderData model.RenderTie "
          "model.BlockSeq model.BlockSeqTie.\nOpen Scope Z_scope.\n")

DEFAULT_ALPHA = 40 / 255  # term_image.image.common._ALPHA_THRESHOLD (str(image), format without '#')
NO_ALPHA_MODES = {"1", "L", "RGB", "HSV", "CMYK"}
BLOCK_CLASSES = ("block", "sub", "subsub")
COLOURS = ["#102030", "#000000", "#123456", "#0e1234", "#12e456", "#999999", "#ff0000", "#ffffff", "#00c800"]
THRESHOLDS = [0.0, 0.5, DEFAULT_ALPHA, 1 / 255, 0.999]
TERM_BGS = [None, [0, 0, 0], [255, 255, 255], [18, 52, 86], [255, 0, 0]]
ALPHA_SETS = [[0, 255, 255], [0, 255, 128, 1, 254, 37, 200], [255, 128, 200], [0, 128], [254, 1, 127, 128], [0], [255]]
TIFF_MODES = ["RGB", "RGBA", "RGBA", "LA", "L", "1", "CMYK"]
DUMMY = {"mode": "RGB", "size": [1, 2], "seed": 1, "kind": "uniform"}


# ------------------------------------------------------------------------------- generation


def alpha_spec(alpha):
    """Format-specifier text selecting `alpha`, or None when it has none."""
    if alpha is None:
        return "#"
    if alpha == "#":
        return "##"
    if isinstance(alpha, str):
        return alpha
    r = repr(float(alpha))
    if r.startswith("0.") and "e" not in r:
        return "#" + r[1:]
    return None


def gen_still(rng, size, mode=None):
    mode = mode or rng.choice(["RGBA", "RGBA", "RGBA", "LA", "P", "RGB", "L", "PA"])
    img = {"mode": mode, "size": list(size), "seed": rng.randrange(1 << 30),
           "kind": rng.choice(["runs", "runs", "alpha-flip", "random", "uniform"]), "alphas": rng.choice(ALPHA_SETS)}
    if mode == "P":
        img["ptrans"] = rng.randrange(8)
    return img


def gen_img(rng, size):
    """A still, or a multi-frame source whose frames differ in mode and alpha content."""
    r = rng.random()
    if r < 0.3:
        n = rng.choice([2, 2, 3, 4])
        modes = [rng.choice(TIFF_MODES) for _ in range(n)]
        if rng.random() < 0.6:  # an opaque page next to a page with alpha, in either order
            i, j = rng.sample(range(n), 2)
            modes[i], modes[j] = rng.choice(["RGB", "L", "1", "CMYK"]), rng.choice(["RGBA", "LA"])
        return {"pages": [gen_still(rng, size, m) for m in modes], "container": "tiff"}
    if r < 0.4:
        n = rng.choice([2, 3])
        pages = [gen_still(rng, size, "P")] + [gen_still(rng, size, rng.choice(["RGBA", "RGB", "P"])) for _ in range(n - 1)]
        for p in pages:  # GIF alpha is bilevel; keep the palette small enough to survive quantisation
            p["alphas"] = rng.choice([[0, 255], [0, 255, 255], [255]])
        return {"pages": pages, "container": "gif"}
    return gen_still(rng, size)


LAZY_SIZES = [[8, 8], [16, 8], [16, 16], [8, 16], [32, 16], [24, 16], [16, 32]]
LAZY_SOURCES = ["file", "pil", "pil-file", "pil-file"]


def gen_lazy_img(rng, big=False):
    """A source behind a lazy / configurable decoder: a JPEG still (RGB, L, CMYK) or a two-frame MPO, of a
    size whose 1/2, 1/4, 1/8 scale renders are whole numbers of cells."""
    size = rng.choice(LAZY_SIZES + ([[32, 32], [64, 48]] if big else []))
    opts = {"quality": rng.choice([90, 92, 95, 95, 98, 100])}
    if rng.random() < 0.4:
        opts["subsampling"] = rng.choice([0, 1, 2])

    def still(mode):
        return {"mode": mode, "size": list(size), "seed": rng.randrange(1 << 30),
                "kind": rng.choice(["runs", "random", "random", "alpha-flip", "bands"]), "alphas": [255]}
    if rng.random() < 0.3:
        return {"pages": [still("RGB"), still("RGB")], "container": "mpo", **opts}
    return {**still(rng.choice(["RGB", "RGB", "RGB", "L", "CMYK"])), "container": "jpeg", **opts}


def lazy_scales(size):
    """Render sizes in cells at 1/1 .. 1/8 of the pixel size (whole cells only)."""
    w, h = size
    return [[w // d, h // (2 * d)] for d in (1, 2, 4, 8) if w % d == 0 and h % (2 * d) == 0]


def img_size(img):
    return img["pages"][0]["size"] if "pages" in img else img["size"]


def gen_lazy_sequence(rng, big=False):
    """Renders of lazily decoded sources at several scales in one process: small first and then at the
    pixel size, the other way round, repeatedly; one or two instances (another instance of the same
    image / the same file through another kind of source)."""
    insts = []
    for _ in range(rng.choice([1, 1, 2])):
        if insts and rng.random() < 0.5:
            inst = copy.deepcopy(insts[0])
            inst["cls"], inst["source"] = rng.choice(BLOCK_CLASSES), rng.choice(LAZY_SOURCES)
        else:
            img = gen_lazy_img(rng, big)
            inst = {"cls": rng.choice(["block", "block", "sub", "subsub"]), "img": img, "source": rng.choice(LAZY_SOURCES),
                    "cells": rng.choice(lazy_scales(img_size(img))[1:] or lazy_scales(img_size(img)))}
        insts.append(inst)
    case = {"style": "block", "cells": [1, 1], "img": dict(DUMMY), "alpha": None, "args": {}, "cell_size": [1, 2],
            "term_bg": rng.choice(TERM_BGS), "on_kitty": rng.random() < 0.2, "instances": insts, "session": []}
    for _ in range(rng.choice([2, 3, 3, 4, 5])):
        k = rng.randrange(len(insts))
        inst = insts[k]
        scales = lazy_scales(img_size(inst["img"]))
        alpha = rng.choice([None, None, "#", "#102030", 0.5, DEFAULT_ALPHA])
        step = {"inst": k, "alpha": alpha, "args": {}, "want_source_pixels": True}
        r = rng.random()
        if r < 0.45:
            step["size"] = list(scales[0])  # the image's own pixel size: pixel-for-pixel
        elif r < 0.85:
            step["size"] = list(rng.choice(scales))
        elif r < 0.92:
            step["size"] = [rng.randint(1, scales[0][0]), rng.randint(1, scales[0][1])]  # not a whole fraction
        pages = inst["img"].get("pages")
        if pages and rng.random() < 0.6:
            step["seek"] = rng.randrange(len(pages))
        via = rng.choice(["renderer", "renderer", "format", "str"] + (["iter"] if pages else []))
        step["via"] = via
        if via == "str":
            step["alpha"] = DEFAULT_ALPHA
        elif via in ("format", "iter"):
            a = alpha_spec(alpha)
            if a is None:
                a, step["alpha"] = "", DEFAULT_ALPHA
            step["spec"] = "1.1" + a
            if via == "iter":
                step["frames"] = rng.choice([[0, 1], [0, 1, 0], [0, 0, 1]])
                step.pop("seek", None)
        case["session"].append(step)
    return finalize(case)


def finalize(case):
    """Every sequence: the world also holds, off render resolution, the frames without an alpha channel
    (full fresh decode, converted + BOX-resampled); the caller's PIL images are examined afterwards."""
    case["check_caller_sources"] = True
    for st in case["session"]:
        if st.get("want_source_pixels"):
            st["want_resampled_pixels"] = True
    return case


def gen_sequence(rng):
    return finalize(_gen_sequence(rng))


def _gen_sequence(rng):
    w, h = rng.choice([1, 2, 3, 4, 6, 8]), rng.choice([1, 1, 2, 3])
    sizes = [[w, h]] + ([[rng.choice([1, 2, 3, 5]), rng.choice([1, 2])]] if rng.random() < 0.3 else [])
    colours = rng.sample(COLOURS, 2)
    insts = []
    for _ in range(rng.choice([1, 2, 2, 3, 3, 4])):
        if insts and rng.random() < 0.25:  # another instance (maybe of another class) of an image already used
            inst = copy.deepcopy(rng.choice(insts))
            inst["cls"] = rng.choice(BLOCK_CLASSES)
            inst["source"] = rng.choice(["pil", "file"])
        else:
            cells = rng.choice(sizes)
            px = [cells[0], 2 * cells[1]]
            if rng.random() < 0.15:  # not at render resolution: resampled by Pillow
                px = [rng.randint(1, 12), rng.randint(1, 12)]
            inst = {"cls": rng.choice(["block", "block", "sub", "subsub"]), "img": gen_img(rng, px),
                    "source": rng.choice(["pil", "pil", "file"]), "cells": list(cells)}
            if rng.random() < 0.12:
                inst["cls"] = rng.choice(["kitty", "kitty", "iterm2"])
        if inst["source"] == "file" and "pages" not in inst["img"] and inst["img"]["mode"] not in ("1", "L", "LA", "P", "RGB", "RGBA"):
            inst["source"] = "pil"  # no file format keeps that mode
        insts.append(inst)
    if all(i["cls"] not in BLOCK_CLASSES for i in insts):
        insts[0]["cls"] = "block"
    case = {"style": "block", "cells": [1, 1], "img": dict(DUMMY), "alpha": None, "args": {}, "cell_size": [1, 2],
            "term_bg": rng.choice(TERM_BGS), "on_kitty": rng.random() < 0.3, "instances": insts, "session": []}
    for _ in range(rng.choice([3, 4, 5, 6, 7, 8])):
        k = rng.randrange(len(insts))
        inst = insts[k]
        r = rng.random()
        alpha = (colours[0] if r < 0.4 else colours[1] if r < 0.5 else "#" if r < 0.6 else None if r < 0.68
                 else rng.choice(THRESHOLDS))
        step = {"inst": k, "alpha": alpha, "args": {}}
        pages = inst["img"].get("pages")
        if pages and rng.random() < 0.75:
            step["seek"] = rng.randrange(len(pages))
        if rng.random() < 0.2:
            step["size"] = list(rng.choice(sizes + [[rng.choice([1, 2, 3, 5]), rng.choice([1, 2, 3])]]))
        if inst["cls"] not in BLOCK_CLASSES:
            step["via"] = "renderer"
        else:
            via = rng.choice(["renderer", "renderer", "format", "format", "str", "iter", "iter"])
            if via == "iter" and not pages:
                via = "format"
            step["via"] = via
            if via == "str":
                step["alpha"] = DEFAULT_ALPHA
            elif via in ("format", "iter"):
                a = alpha_spec(alpha)
                if a is None or rng.random() < 0.1:
                    a, step["alpha"] = "", DEFAULT_ALPHA
                step["spec"] = "1.1" + a
                if via == "iter":
                    n = len(pages)
                    step["frames"] = [0] + [rng.randrange(n) for _ in range(rng.choice([1, 2, 3]))]
                    if rng.random() < 0.5:
                        step["frames"] = list(range(n))[: rng.choice([2, n])]
                    if rng.random() < 0.3:
                        step.update(repeat=2, cached=True)
                    step.pop("seek", None)
            elif rng.random() < 0.25:
                step["args"] = {"split_cells": True}
            step["want_source_pixels"] = True
        if rng.random() < 0.15:
            step["term_bg"] = rng.choice(TERM_BGS)
        if rng.random() < 0.1:
            step["on_kitty"] = not case["on_kitty"]
        case["session"].append(step)
    return case


def _seq(insts, steps, **kw):
    c = {"style": "block", "cells": [1, 1], "img": dict(DUMMY), "alpha": None, "args": {}, "cell_size": [1, 2],
         "term_bg": [12, 34, 56], "on_kitty": False, "instances": insts, "session": steps}
    c.update(kw)
    for s in c["session"]:
        s.setdefault("args", {})
        if insts[s["inst"]]["cls"] in BLOCK_CLASSES:
            s.setdefault("want_source_pixels", True)
    return finalize(copy.deepcopy(c))


def corpus():
    """Boundary sequences: the same background colour and render size requested repeatedly (opaque image
    first, then images with fully / partly transparent pixels; same instance, other instances, other
    classes, another style in between); all-decimal and exponent-shaped colours through the format
    specifier next to the explicit parameter; mixed-mode multi-page sources after seek() in every order
    through str / format / the iterator."""
    cs = []
    opaque = {"mode": "RGB", "size": [6, 4], "seed": 21, "kind": "runs"}
    holed = {"mode": "RGBA", "size": [6, 4], "seed": 22, "kind": "alpha-flip", "alphas": [0, 128, 255, 0]}
    la = {"mode": "LA", "size": [6, 4], "seed": 23, "kind": "runs", "alphas": [0, 77, 255]}
    ptr = {"mode": "P", "size": [6, 4], "seed": 24, "kind": "runs", "ptrans": 1, "alphas": [255]}

    def inst(img, cls="block", source="pil"):
        return {"cls": cls, "img": img, "source": source, "cells": [6, 2]}

    for colour in ("#ff0000", "#102030"):
        cs.append(_seq([inst(opaque), inst(holed, "sub"), inst(la, "subsub", "file")],
                       [{"inst": 0, "via": "renderer", "alpha": colour}, {"inst": 1, "via": "renderer", "alpha": colour},
                        {"inst": 1, "via": "renderer", "alpha": colour}, {"inst": 2, "via": "renderer", "alpha": colour},
                        {"inst": 1, "via": "renderer", "alpha": 0.5}, {"inst": 1, "via": "renderer", "alpha": colour}]))
    cs.append(_seq([inst(opaque, "kitty"), inst(holed), inst(ptr, "sub", "file")],
                   [{"inst": 0, "via": "renderer", "alpha": "#00c800"}, {"inst": 1, "via": "renderer", "alpha": "#00c800"},
                    {"inst": 2, "via": "renderer", "alpha": "#00c800"}, {"inst": 1, "via": "renderer", "alpha": "#"},
                    {"inst": 1, "via": "renderer", "alpha": "#", "term_bg": [0, 200, 0]}]))
    # threshold boundaries through both routes (alpha 127 / 128 around .5, 254 / 255 around .999, 0 / 1 around 1/255)
    edge = {"mode": "RGBA", "size": [6, 2], "seed": 25, "kind": "random", "alphas": [127, 128, 254, 255, 0, 1]}
    cs.append(_seq([{"cls": "block", "img": edge, "source": "pil", "cells": [6, 1]},
                    {"cls": "sub", "img": dict(edge, mode="LA"), "source": "file", "cells": [6, 1]}],
                   [{"inst": k, "via": via, "alpha": a, **({"spec": "1.1" + alpha_spec(a)} if via == "format" else {})}
                    for a in (0.5, 0.999, 1 / 255) for k, via in ((0, "format"), (1, "renderer"))]))
    # the format-specifier route next to the explicit-parameter route, every kind of alpha field
    holed, la = dict(holed, size=[4, 2]), dict(la, size=[4, 2])

    def inst(img, cls="block", source="pil"):  # noqa: F811
        return {"cls": cls, "img": img, "source": source, "cells": [4, 1]}

    for alpha in (None, "#", 0.5, 0.0, DEFAULT_ALPHA, "#102030", "#000000", "#123456", "#0e1234", "#12e456", "#999999", "#ffffff"):
        steps = [{"inst": 0, "via": "format", "spec": "1.1" + alpha_spec(alpha), "alpha": alpha},
                 {"inst": 0, "via": "renderer", "alpha": alpha},
                 {"inst": 1, "via": "format", "spec": "1.1" + alpha_spec(alpha), "alpha": alpha}]
        cs.append(_seq([inst(holed), inst(la, "sub")], steps, term_bg=[255, 255, 255]))
    # mixed-mode pages, every order of two / three pages, every route
    rgbp = {"mode": "RGB", "size": [4, 4], "seed": 31, "kind": "runs"}
    rgbap = {"mode": "RGBA", "size": [4, 4], "seed": 32, "kind": "alpha-flip", "alphas": [0, 255, 0, 128]}
    lap = {"mode": "LA", "size": [4, 4], "seed": 33, "kind": "runs", "alphas": [0, 255]}
    lp = {"mode": "L", "size": [4, 4], "seed": 34, "kind": "random"}
    gifp = {"mode": "P", "size": [4, 4], "seed": 35, "kind": "runs", "ptrans": 0, "alphas": [255]}
    import itertools
    for pages, container in (([rgbp, rgbap], "tiff"), ([rgbap, rgbp], "tiff"), ([lp, lap, rgbap], "tiff"),
                             ([gifp, dict(rgbap, alphas=[0, 255]), rgbp], "gif")):
        img = {"pages": pages, "container": container}
        orders = list(itertools.permutations(range(len(pages))))
        for source in ("file", "pil"):
            steps = []
            # (two pages: both orders on both sources; three pages: the orders are shared out)
            for order in (orders if len(pages) == 2 else orders[0::2] if source == "file" else orders[1::2]):
                for n in order:
                    via = ["str", "format", "renderer"][(n + len(steps)) % 3]
                    st = {"inst": 0, "seek": n, "via": via, "alpha": DEFAULT_ALPHA if via != "renderer" else 0.5}
                    if via == "format":
                        st["spec"] = "1.1"
                    steps.append(st)
            steps.append({"inst": 0, "via": "iter", "spec": "1.1", "alpha": DEFAULT_ALPHA, "frames": list(range(len(pages)))})
            steps.append({"inst": 0, "via": "str", "alpha": DEFAULT_ALPHA})  # the iterator's last frame stays selected
            steps.append({"inst": 0, "via": "iter", "spec": "1.1#", "alpha": None, "frames": [0, len(pages) - 1, 1]})
            cs.append(_seq([{"cls": "block" if source == "file" else "sub", "img": img, "source": source, "cells": [4, 2]}], steps))
    cs += lazy_corpus()
    return cs


def lazy_corpus():
    """Sources behind a lazy / configurable decoder, every kind of hand-over: thumbnail renders (1/8, 1/4,
    1/2 of the pixel size) followed by a render at the image's own pixel size and the other way round, on
    one instance; the same for the two frames of an MPO incl. the image iterator."""
    cs = []
    jpg = {"mode": "RGB", "size": [16, 16], "seed": 41, "kind": "random", "alphas": [255], "container": "jpeg", "quality": 95}
    grey = dict(jpg, mode="L", seed=42, size=[16, 8], kind="runs", quality=90)
    wide = dict(jpg, seed=43, size=[32, 16], kind="bands", quality=100, subsampling=0)
    page = {"mode": "RGB", "size": [16, 16], "seed": 44, "kind": "random", "alphas": [255]}
    mpo = {"pages": [page, dict(page, seed=45, kind="runs")], "container": "mpo", "quality": 95}
    for source in ("pil-file", "pil", "file"):
        for img, order in ((jpg, [8, 1, 4, 1]), (grey, [2, 1, 1, 4]), (wide, [1, 8, 2, 1])):
            w, h = img["size"]
            steps = [{"inst": 0, "via": ["renderer", "format", "str", "renderer"][n % 4], "size": [w // d, h // (2 * d)],
                      "alpha": [None, None, DEFAULT_ALPHA, "#102030"][n % 4], **({"spec": "1.1#"} if n % 4 == 1 else {})}
                     for n, d in enumerate(order)]
            cs.append(_seq([{"cls": "block", "img": img, "source": source, "cells": [w // order[0], h // (2 * order[0])]}], steps))
        steps = [{"inst": 0, "seek": 1, "via": "renderer", "size": [4, 2], "alpha": None},
                 {"inst": 0, "seek": 1, "via": "renderer", "size": [16, 8], "alpha": None},
                 {"inst": 0, "seek": 0, "via": "str", "size": [2, 1], "alpha": DEFAULT_ALPHA},
                 {"inst": 0, "via": "iter", "spec": "1.1#", "alpha": None, "size": [16, 8], "frames": [0, 1]},
                 {"inst": 0, "seek": 0, "via": "format", "spec": "1.1", "size": [16, 8], "alpha": DEFAULT_ALPHA}]
        cs.append(_seq([{"cls": "sub", "img": mpo, "source": source, "cells": [4, 2]}], steps))
    # one file through two kinds of hand-over in one process
    cs.append(_seq([{"cls": "block", "img": jpg, "source": "file", "cells": [4, 2]},
                    {"cls": "subsub", "img": jpg, "source": "pil-file", "cells": [4, 2]}],
                   [{"inst": 0, "via": "renderer", "alpha": None}, {"inst": 1, "via": "renderer", "alpha": None},
                    {"inst": 1, "via": "renderer", "alpha": None, "size": [16, 8]},
                    {"inst": 0, "via": "renderer", "alpha": None, "size": [16, 8]}]))
    return cs


# --------------------------------------------------------------------------------- judging


def aset(alpha):
    if alpha is None:
        return "ANone"
    if isinstance(alpha, str):
        return "ABg None" if alpha == "#" else "ABg (Some (%d, %d, %d))" % tuple(int(alpha[i:i + 2], 16) for i in (1, 3, 5))
    return f"AThreshold {round(float(alpha) * 255)}"


def settings_term(case, step):
    bg = step.get("term_bg", case.get("term_bg"))
    return (f"{{| st_alpha := {aset(step.get('alpha'))}; st_termbg := {'(Some ' + R.rgb_t(bg) + ')' if bg else 'None'}; "
            f"st_kitty := {R.b(step.get('on_kitty', case.get('on_kitty', False)))}; "
            f"st_split := {R.b(step.get('args', {}).get('split_cells', False))} |}}")


def frame_term(mode, src, w):
    def px(p):
        return f"{{| s_rgb := {R.rgb_t(p[:3])}; s_a := {p[3]} |}}"
    rows = []
    for x in range(0, len(src), 2 * w):
        up, lo = src[x:x + w], src[x + w:x + 2 * w]
        rows.append(core.coq_list(list(zip(up, lo)), lambda ul: f"({px(ul[0])}, {px(ul[1])})"))
    return f"{{| f_has_alpha := {R.b(mode not in NO_ALPHA_MODES)}; f_rows := [{'; '.join(rows)}] |}}"


def requests(case, res):
    """Flattens a driven sequence into the list of requests made: dicts with "step" (index of the driver
    step), "op" (Coq term of the model request), and for judged block renders "sr" (the result)."""
    reqs = []
    size, mpos = {}, {}
    seen_size = set()
    for j, (st, sr) in enumerate(zip(case["session"], res.get("session", []))):
        k = st["inst"]
        inst = case["instances"][k]
        if k not in seen_size:
            seen_size.add(k)
            size[k] = list(inst["cells"])
            reqs.append({"step": j, "op": f"OSize {k} ({size[k][0]}, {size[k][1]})%nat"})
        if inst["cls"] not in BLOCK_CLASSES:
            reqs.append({"step": j, "op": "OOther", "other": sr})
            continue
        if st.get("size") is not None:
            size[k] = list(st["size"])
            reqs.append({"step": j, "op": f"OSize {k} ({size[k][0]}, {size[k][1]})%nat"})
        s = settings_term(case, st)
        if "multi" in sr:
            for fr in sr["multi"]:
                reqs.append({"step": j, "op": f"OIterFrame {k} {fr.get('frame', 0)} {s}", "sr": fr, "size": list(size[k])})
                mpos[k] = fr.get("frame", 0)
            continue
        if st.get("seek") is not None and "frame" in sr:
            reqs.append({"step": j, "op": f"OSeek {k} {sr['frame']}"})
            mpos[k] = sr["frame"]
        reqs.append({"step": j, "op": f"ORender {k} {s}", "sr": sr, "size": list(size[k])})
        if "frame" in sr and sr["frame"] != mpos.get(k, 0):
            # the driver's bookkeeping and the model's history function must select the same frame
            reqs[-1]["desync"] = f"driver selected frame {sr['frame']}, the history selects {mpos.get(k, 0)}"
    return reqs


def request_key(case, st, sr, size):
    inst = case["instances"][st["inst"]]
    return core.sig([inst["img"], sr.get("frame"), size, st.get("alpha"), st.get("term_bg", case.get("term_bg")),
                     bool(st.get("on_kitty", case.get("on_kitty", False))), bool(st.get("args", {}).get("split_cells", False))])


def judge(cases, tag, impl=None):
    """Runs the sequences.  Returns (verdicts, impl results, infrastructure errors); a verdict is
    {"code": bits (1 model / 2 contract / 4 pixels of the data / 8 source pixels / 16 equal requests),
     "step": index of the first offending driver step or None, "lexerr": message or None, "reqs": [...]}."""
    if impl is None:
        impl = core.run_impl_parallel("impl_render.py", cases)
    verdicts = [{"code": 0, "step": None, "lexerr": None, "reqs": [], "renders": 0, "at_resolution": 0, "resampled": 0,
                 "caller": None} for _ in cases]
    terms, owner, errors = [], [], []
    for i, (c, r) in enumerate(zip(cases, impl)):
        v = verdicts[i]
        if "error" in r or "session" not in r or len(r["session"]) != len(c["session"]):
            v["lexerr"], v["step"] = "sequence could not be set up: " + str(r.get("error")), 0
            continue
        reqs = requests(c, r)
        v["reqs"] = reqs
        for rec in r.get("caller_sources") or []:
            if not rec.get("ok") and v["caller"] is None:
                v["caller"] = caller_msg(c, rec)
        table, elems, keys = {}, [], {}
        for q in reqs:
            j, st = q["step"], c["session"][q["step"]]
            sr = q.get("sr") or q.get("other")
            if sr is None:
                elems.append(f"({q['op']}, None)")
                continue
            msg = None
            if "error" in sr:
                msg = "render raised " + sr["error"]
            elif "other" in q:
                elems.append("(OOther, None)")
                continue
            else:
                try:
                    sr["toks"] = R.strip_payload(lexer.lex(sr["out"]))
                except lexer.LexError as e:
                    msg = f"unlexable output: {e}"
                if msg is None and ("rgb" not in sr or len(sr["rgb"]) != sr["render_px"][0] * sr["render_px"][1]):
                    msg = "the renderer was not given pixel data of the render size"
                if msg is None and sr.get("tell") != sr.get("frame"):
                    msg = f"the instance reports frame {sr.get('tell')} after frame {sr.get('frame')} was selected"
            if msg:
                v["lexerr"], v["step"] = f"request {j + 1} of the sequence: {msg}", j
                break
            v["renders"] += 1
            w, h = q["size"]
            if "src" in sr and sr.get("src_size") == [w, 2 * h] and len(sr["src"]) == 2 * w * h:
                # at render resolution: the frame the DRIVER selected, decoded afresh, enters the world
                key = (st["inst"], sr["frame"], w, h)
                table[key] = f"(({key[0]}, {key[1]}, ({w}, {h}))%nat, {frame_term(sr['frame_mode'], sr['src'], w)})"
                sr["at_resolution"] = True
                v["at_resolution"] += 1
            elif "src_box" in sr and len(sr["src_box"]) == 2 * w * h and sr.get("frame_mode") in NO_ALPHA_MODES:
                # off render resolution, a frame without an alpha channel: "the image at render resolution" is
                # the full fresh decode, converted and BOX-resampled (Pillow's resampling, not the library's decode)
                key = (st["inst"], sr["frame"], w, h)
                table[key] = f"(({key[0]}, {key[1]}, ({w}, {h}))%nat, {frame_term(sr['frame_mode'], sr['src_box'], w)})"
                sr["resampled"] = True
                v["resampled"] += 1
            kid = keys.setdefault(request_key(c, st, sr, q["size"]), len(keys))
            rw, rh = sr["rendered_size"]
            obs = (f"{{| o_key := {kid}; o_w := {rw}; o_h := {rh}; o_amode := {R.b(sr['alpha_mode'])}; "
                   f"o_rows := {R.rows_term(R.block_rows(sr))}; o_toks := {lexer.coq_toks(sr['toks'])} |}}")
            elems.append(f"({q['op']}, Some {obs})")
        desync = [q["desync"] for q in reqs if "desync" in q]
        if desync:
            errors.append(f"sequence {i}: harness bookkeeping: {desync[0]}")
        if v["lexerr"] is None:
            terms.append(f"{{| q_tbl := {core.coq_list(list(table.values()))}; q_elems := {core.coq_list(elems)} |}}")
            owner.append(i)
    if terms:
        bad, errs = core.coq_shards(tag, HEADER, terms, "qcase", "qbad cases", shard=6)
        errors += errs
        for idx, code in bad:
            v = verdicts[owner[idx]]
            v["code"] = code % 32
            e = code // 32
            v["elem"] = e
            v["step"] = v["reqs"][e]["step"] if e < len(v["reqs"]) else None
    return verdicts, impl, errors


def failing(v):
    return v["lexerr"] is not None or bool(v["code"] & 30) or v.get("caller") is not None


def caller_msg(case, rec):
    inst = case["instances"][rec["inst"]]
    if "error" in rec:
        what = f"can no longer be read ({rec['error']})"
    elif rec.get("size") != rec.get("want_size"):
        what = (f"is now a {rec['size'][0]}x{rec['size'][1]} image (frame {rec.get('frame')}; the same source opened afresh "
                f"decodes to {rec['want_size'][0]}x{rec['want_size'][1]} pixels)")
    else:
        what = f"no longer has the pixels of a fresh full decode (frame {rec.get('frame')}: {rec.get('ndiff')} pixels differ)"
    return (f"after the sequence the PIL image the caller handed in for instance #{rec['inst']} ({inst['source']}) {what}: "
            "the library reconfigured / degraded a caller-supplied image")


def concrete(case, res):
    """The sequence with every frame selection made explicit (what the driver actually did), so that
    requests can be dropped without changing what the others mean."""
    c = copy.deepcopy(case)
    pos = {}
    for st, sr in zip(c["session"], (res or {}).get("session", [])):
        k = st["inst"]
        if "multi" in sr:
            st["frames"] = [fr.get("frame", 0) for fr in sr["multi"]] or st["frames"]
            pos[k] = st["frames"][-1]
        elif "frame" in sr:
            if "pages" in c["instances"][k]["img"] and c["instances"][k]["cls"] in BLOCK_CLASSES:
                st["seek"] = sr["frame"]
    sizes = {}
    for st in c["session"]:  # sizes made absolute as well
        k = st["inst"]
        if st.get("size") is not None:
            sizes[k] = st["size"]
        elif k in sizes:
            st["size"] = list(sizes[k])
    return c


def shrink(case, verdict, res, tag):
    """Smallest sub-sequence that still fails: the offending request alone, one earlier request + the
    offending one, the prefix up to it; then the instances not addressed are dropped."""
    case = concrete(case, res)
    j = verdict["step"] if verdict["step"] is not None else len(case["session"]) - 1
    steps = case["session"]
    cands = [[steps[j]]] + [[steps[i], steps[j]] for i in range(j - 1, -1, -1)]
    cands += [[steps[i], steps[j], steps[m]] for i in range(j) for m in range(j + 1, len(steps))][:6]
    cands.append(steps[: j + 1])
    cs = []
    for x in cands:
        c = dict(case, session=copy.deepcopy(x))
        used = sorted({s["inst"] for s in c["session"]})
        c["instances"] = [copy.deepcopy(case["instances"][k]) for k in used]
        for s in c["session"]:
            s["inst"] = used.index(s["inst"])
        cs.append(c)
    vs, impl, _ = judge(cs, tag + "_shrink")
    for c, v, r in zip(cs, vs, impl):
        if failing(v):
            return c, v, r
    return case, verdict, res


def composite(s, a, d):
    return (2 * (s * a + d * (255 - a)) + 255) // 510


def why(case, verdict):
    """Human-readable reason for the first offending request."""
    if verdict["lexerr"]:
        return verdict["lexerr"]
    code, e = verdict["code"], verdict.get("elem")
    parts = []
    if verdict.get("caller") and not code & 30:
        return verdict["caller"]
    if code & 2:
        parts.append("the render violates the rectangle contract")
    if code & 4:
        parts.append("the cells do not show the pixel data the renderer was given")
    q = verdict["reqs"][e] if e is not None and e < len(verdict["reqs"]) else None
    if code & 8 and q and "sr" in q:
        st, sr = case["session"][q["step"]], q["sr"]
        parts.append("the source pixels of the selected frame are not shown as the property demands: "
                     + (source_diff(case, st, sr) or "(see the Coq verdict)"))
    elif code & 8:
        parts.append("the source pixels of the selected frame are not shown as the property demands")
    if code & 16:
        twin = None
        if q and "sr" in q:
            key = request_key(case, case["session"][q["step"]], q["sr"], q["size"])
            for q2 in verdict["reqs"][:e]:
                if "sr" in q2 and "out" in q2["sr"] and request_key(case, case["session"][q2["step"]], q2["sr"], q2["size"]) == key:
                    twin = q2["step"] + 1
        parts.append("it shows other pixels than an earlier EQUAL request of the sequence (same image content, frame, size and "
                     "settings)" + (f": request {twin}" if twin and e is not None and not code & 14 else ""))
    if verdict.get("caller"):
        parts.append(verdict["caller"])
    return "; ".join(parts) or f"code {code}"


def source_diff(case, st, sr):
    """First source pixel that is not shown as demanded (explanation only; the verdict is Coq's)."""
    alpha = st.get("alpha")
    has_alpha = sr.get("frame_mode") not in NO_ALPHA_MODES
    term_bg = st.get("term_bg", case.get("term_bg")) or [0, 0, 0]
    amode = sr.get("alpha_mode", False)
    resampled = bool(sr.get("resampled"))
    for k, (s, c, av) in enumerate(zip(sr["src_box"] if resampled else sr["src"], sr["rgb"], sr["a"])):
        shown = "terminal background" if amode and av == 0 else list(c)
        if alpha is None or not has_alpha:
            want = list(s[:3])
        elif isinstance(alpha, str):
            under = term_bg if alpha == "#" else [int(alpha[i:i + 2], 16) for i in (1, 3, 5)]
            want = [composite(s[i], s[3], under[i]) for i in range(3)]
        else:
            want = "terminal background" if s[3] < round(float(alpha) * 255) else [composite(s[i], s[3], term_bg[i]) for i in range(3)]
        if shown != want:
            return (f"pixel {k} of frame {sr.get('frame')} (mode {sr.get('frame_mode')}"
                    + (f", the {sr['src_size'][0]}x{sr['src_size'][1]} source decoded in full and BOX-resampled to render "
                       f"resolution {sr['render_px'][0]}x{sr['render_px'][1]}" if resampled else "")
                    + f"): source {s} under alpha setting {alpha!r} must show {want}, shows {shown}")
    return None


def describe(case, res=None):
    insts = []
    for k, i in enumerate(case["instances"]):
        img = i["img"]
        what = (f"{img.get('container')}[{','.join(p['mode'] for p in img['pages'])}]{img['pages'][0]['size']}" if "pages" in img
                else f"{img.get('container', '')}{img['mode']}{img['size']}/{img.get('kind')}")
        insts.append(f"#{k} {i['cls']}({what}, {i['source']}, cells={i['cells']})")
    parts = []
    for j, st in enumerate(case["session"]):
        what = f"#{st['inst']}"
        if st.get("seek") is not None:
            what += f" seek({st['seek']})"
        if st.get("size") is not None:
            what += f" size={st['size']}"
        via = st.get("via")
        what += f" {via}" + (f"({st.get('spec')!r})" if via in ("format", "iter") else "") + (f" frames={st['frames']}" if via == "iter" else "")
        what += f" alpha={st.get('alpha')!r}"
        for key in ("term_bg", "on_kitty"):
            if key in st:
                what += f" {key}={st[key]}"
        if st.get("args"):
            what += f" args={st['args']}"
        parts.append(f"[{j + 1}] {what}")
    return (f"SEQUENCE term_bg={case.get('term_bg')} on_kitty={case.get('on_kitty')} instances: " + ", ".join(insts)
            + " requests: " + " ; ".join(parts))
