"""C13 -- terminal attributes are always put back exactly as found.

Claim = the theorems of coq/props/C13.v over the skeletons translated from the current
source (T).  Tie, checked on every run:
  * translation: harness/tx/tx_skel.py regenerates coq/gen/Skeletons.v (fail-closed);
  * FAULT ENUMERATION on a real pty (harness/impl/impl_c13.py): for initial attribute sets
    x read modes, the k-th tracked call raises (KeyboardInterrupt / an Exception, before or
    after the real call; a real SIGINT through signal.raise_signal) FOR ALL k;
    termios.tcgetattr(slave) is compared before/after, and the observed sequence of
    tracked calls is judged INSIDE Coq (model/C13Tie.v, model/SkelTie.v) to be a run of the
    translated skeleton (validates the call table and "untracked calls have no tracked
    effect").
Round 4 -- faults ANYWHERE, the operation's own clean-up included ("interrupted by a signal at any
point"; theorems C13_*_anywhere over model/C13Any.v):
  * the k-th tracked call raising is IN SCOPE wherever it stands -- the final writes / flush of
    draw()'s finally, the render-data finalizer (the renderable's `_finalize_render_data_` hook) --
    and judged against `anyfault sk`; only the restoring tcsetattr of a clean-up block itself
    failing is outside the property;
  * ASYNCHRONOUS faults: KeyboardInterrupt (or an Exception) raised at the k-th signal point of the
    package code (every position at which CPython would run a raising signal handler: after a call
    returns, at function entry, on a backward jump), for ALL k in a few scenarios and a spread
    elsewhere; oracle = the property on the raw attribute vectors, evaluated in Coq (C13Tie.acheck);
  * attributes are compared at TWO times: when the call exits (exception still referenced) and
    after the exception is released + gc.collect().
A run whose fault is in scope and whose final attributes differ is the replay.
Round 8 -- WHICH terminal (theorems C13_multi_* over model/C13Multi.v; harness/tx/tx_attrfd.py -> gen/AttrFd.v
extracts the descriptor argument of every tcgetattr / tcsetattr call site, fail-closed):
  * the driver process gets a LAYOUT of terminals generated as data: 1..3 ptys with their own initial
    attributes; stdin = the slave of any of them, a pipe or /dev/null; stdout and the library's active
    terminal `_tty_fd` = the slave of any of them; ptys nothing refers to are bystanders;
  * the attributes of EVERY pty are read before / when the call exits / after release + gc, for the fault-free
    run, the k-th tracked call raising AFTER its effect (KeyboardInterrupt / Exception / real SIGINT: all in
    scope wherever they stand) and asynchronous KeyboardInterrupts; oracle = the property itself, for every
    terminal, evaluated in Coq (model/C13MultiTie.mcheck); no skeleton is involved in that judgement."""
from __future__ import annotations

import itertools
import json
import sys
from pathlib import Path

import core

LEVEL = "proof"
EXTRA_TARGETS = ["model/C13Tie.vo", "model/C13AsyncTie.vo", "model/C13MultiTie.vo"]

FN_IDX = {"read_tty": 0, "query_terminal": 1, "draw": 2}
NVARS = {"read_tty": 1, "query_terminal": 1, "draw": 6}

ATTRS_QUICK = [
    ("canon-echo", {"raw": False, "echo": True, "vmin": 1, "vtime": 0}),
    ("canon-noecho-v0/5", {"raw": False, "echo": False, "vmin": 0, "vtime": 5}),
    ("raw-noecho-v1/0", {"raw": True, "echo": False, "vmin": 1, "vtime": 0}),
    ("raw-echo-v5/1", {"raw": True, "echo": True, "vmin": 5, "vtime": 1}),
]
ATTRS_ALL = [
    (f"{'raw' if raw else 'canon'}-{'echo' if echo else 'noecho'}-v{vmin}/{vtime}",
     {"raw": raw, "echo": echo, "vmin": vmin, "vtime": vtime})
    for raw in (False, True) for echo in (True, False) for vmin in (0, 1, 5) for vtime in (0, 1, 5)
]

# class ids: 0 tcgetattr 1 tcsetattr 2 os.read 3 os.write 4 select 5 tcdrain 6 monotonic 7 more
#            8 stream write 9 flush 10 render 11 sleep 12 interrupt handler 13 finalize
OBS_ALL = list(range(14))
OBS_NO_MORE = [c for c in OBS_ALL if c != 7]

MODES = [
    # read_tty -------------------------------------------------------------------------
    ("read_tty", "none/empty", {"timeout": None, "preload": 0}, OBS_NO_MORE),
    ("read_tty", "none/5", {"timeout": None, "preload": 5}, OBS_NO_MORE),
    ("read_tty", "none/150", {"timeout": None, "preload": 150}, OBS_NO_MORE),
    ("read_tty", "t>0/default-more", {"timeout": 0.05, "preload": 2}, OBS_NO_MORE),
    ("read_tty", "t>0/more-stops", {"timeout": 0.05, "preload": 4, "more_stop": 2}, OBS_ALL),
    ("read_tty", "t>0/more-never/timeout", {"timeout": 0.05, "preload": 1, "more_given": True}, OBS_ALL),
    ("read_tty", "t=0", {"timeout": 0.0, "preload": 2, "more_given": True}, OBS_ALL),
    ("read_tty", "t>0/min2", {"timeout": 0.05, "min": 2, "preload": 3, "more_stop": 3}, OBS_ALL),
    ("read_tty", "t>0/min2/echo", {"timeout": 0.05, "min": 2, "preload": 3, "more_stop": 3, "echo": True}, OBS_ALL),
    ("read_tty", "t<0/more-stops", {"timeout": -1, "preload": 3, "more_stop": 2}, OBS_ALL),
    ("read_tty", "t<0/min3", {"timeout": -1, "min": 3, "preload": 3, "more_stop": 3}, OBS_ALL),
    ("read_tty", "none/echo", {"timeout": None, "preload": 2, "echo": True}, OBS_NO_MORE),
    # query_terminal -------------------------------------------------------------------
    ("query_terminal", "reply", {"reply": "\x1b[?62c", "more_stop": 6}, OBS_ALL),
    ("query_terminal", "silent/timeout", {"reply": "", "more_stop": 6}, OBS_ALL),
    ("query_terminal", "disabled", {"enabled": False, "more_stop": 6}, OBS_ALL),
    ("query_terminal", "t<0/reply", {"reply": "\x1b[?62c", "more_stop": 6, "timeout": -1}, OBS_ALL),
    # Renderable.draw ------------------------------------------------------------------
    ("draw", "still", {"frames": 1}, OBS_ALL),
    ("draw", "still/echo_input", {"frames": 1, "echo_input": True}, OBS_ALL),
    ("draw", "still/no-hide", {"frames": 1, "hide_cursor": False}, OBS_ALL),
    ("draw", "anim3", {"frames": 3, "loops": 1}, OBS_ALL),
    ("draw", "anim2x2/cache", {"frames": 2, "loops": 2, "cache": True}, OBS_ALL),
    ("draw", "anim3/animate=False", {"frames": 3, "animate": False}, OBS_ALL),
    ("draw", "indefinite/0", {"indefinite": 0}, OBS_ALL),
    ("draw", "indefinite/2", {"indefinite": 2}, OBS_ALL),
]

KINDS_ALL = [("KI", False), ("KI", True), ("Exc", False), ("Exc", True), ("SIGINT", True)]
KINDS_AFTER = [("KI", True), ("Exc", True), ("SIGINT", True)]  # in scope wherever the call stands

# ---- round 8: layouts of terminals over the standard descriptors and the library's active terminal (data)
LAYOUT_MODES_QUICK = [("draw", "still"), ("draw", "anim3"), ("draw", "still/echo_input"),
                      ("read_tty", "t>0/more-stops"), ("read_tty", "none/echo"), ("query_terminal", "reply")]
LAYOUT_ASYNC_MODES = [("draw", "still"), ("read_tty", "t>0/more-stops"), ("query_terminal", "reply")]
STDIN_KINDS = ("pipe", "null")


def layout_name(lay):
    return (f"{len(lay['ptys'])}pty:stdin={lay['stdin']},stdout={lay['stdout']},tty={lay['tty']};attrs="
            + "|".join(lay["names"]))


def mk_layout(specs, stdin, stdout, tty):
    return {"ptys": [a for _, a in specs], "names": [n for n, _ in specs], "stdin": stdin, "stdout": stdout, "tty": tty}


def layout_corpus():
    a = ATTRS_QUICK
    return [
        mk_layout([a[0]], 0, 0, 0),                 # (a) everything on one pty
        mk_layout([a[0], a[0]], 1, 0, 0),           # (b) stdin on a second pty, same attributes
        mk_layout([a[0], a[3]], 1, 0, 0),           # (d) stdin on a second pty, DIFFERENT attributes
        mk_layout([a[0], a[1]], "pipe", 0, 0),      # (c) stdin not a tty; pty 1 is a bystander
        mk_layout([a[2], a[0]], "null", 0, 0),
        mk_layout([a[0], a[2]], 0, 0, 1),           # the active terminal is another one
        mk_layout([a[3], a[0]], 0, 1, 0),           # stdout on the second pty
        mk_layout([a[0], a[3], a[1]], 1, 0, 2),     # three different terminals
    ]


def layouts_for(quick, rng):
    out = layout_corpus()
    if quick:
        for _ in range(2):
            n = rng.choice((2, 3))
            specs = [rng.choice(ATTRS_ALL) for _ in range(n)]
            out.append(mk_layout(specs, rng.choice(list(range(n)) + list(STDIN_KINDS)), rng.randrange(n), rng.randrange(n)))
    else:
        i = 0
        for stdin in (0, 1, 2) + STDIN_KINDS:
            for stdout in range(3):
                for tty in range(3):
                    specs = [ATTRS_ALL[(5 * i + 7 * j) % len(ATTRS_ALL)] for j in range(3)]
                    i += 1
                    out.append(mk_layout(specs, stdin, stdout, tty))
    return out


def ev_term(e):
    cls, arg, f = e
    ft = ["FNone", "(FBefore KI)", "(FBefore Exc)", "(FAfter KI)", "(FAfter Exc)"][f]
    return f"mkev {cls} {'true' if arg else 'false'} {ft}"


def case_term(key):
    fn, obs, vars_, events, out, clean = key
    return (f"mkcase {FN_IDX[fn]} {core.coq_list(obs)} (mkrun {core.coq_list(['true' if v else 'false' for v in vars_])} "
            f"{core.coq_list(list(events), ev_term)} {out} {'true' if clean else 'false'})")


def run_key(case, res):
    fn = case["fn"]
    vars_ = [False] * NVARS[fn]
    if fn == "read_tty":
        vars_[0] = bool(case["mode"].get("echo", False))
    return (fn, tuple(case["obs"]), tuple(vars_), tuple(tuple(e) for e in res["events"]), res["out"], bool(res["restored"]))


def describe(case, res=None):
    f = case.get("fault")
    a = case.get("async")
    s = f"{case['fn']}[{case['mode_name']}] attrs={case['attrs_name']} "
    if case.get("layout"):
        lay = case["layout"]
        s += (f"LAYOUT {len(lay['ptys'])} terminal(s) [{', '.join(lay.get('names', []))}]: stdin -> "
              + (f"pty {lay['stdin']}" if isinstance(lay["stdin"], int) else f"{lay['stdin']} (not a tty)")
              + f", stdout -> pty {lay['stdout']}, active terminal -> pty {lay['tty']}; ")
    if a:
        s += f"asynchronous {'KeyboardInterrupt' if a.get('kind', 'KI') == 'KI' else 'Exception'} at signal point #{a['k']}"
        if res is not None and res.get("where"):
            w = res["where"]
            s += f" ({w[0]}:{w[1]} in {w[2]}, {w[3]})"
    else:
        s += "no fault" if not f else f"call #{f['k']} raises {f['kind']} {'after' if f['after'] else 'before'} taking effect"
    if res is not None:
        names = ["tcgetattr", "tcsetattr", "os.read", "os.write", "select", "tcdrain", "monotonic", "more", "write", "flush",
                 "render", "sleep", "handle_interrupt", "finalize"]
        s += " | calls: " + " ".join(names[e[0]] + ("!" if e[2] else "") for e in res["events"])
        s += f" | ended: {['returned', 'KeyboardInterrupt', 'Exception'][res['out']]}"
        if not res["restored"] and res.get("terms"):
            for ti, t in enumerate(res["terms"]):
                for key, when in (("held", "when the call exits"), ("after", "after release + gc")):
                    diff = [i for i, (x, y) in enumerate(zip(t["before"], t[key])) if x != y]
                    if diff:
                        s += (f" | TERMINAL pty {ti}: ATTRIBUTES DIFFER {when} in fields {diff} "
                              f"(lflag {t['before'][3]:#x} -> {t[key][3]:#x})")
        elif not res["restored"]:
            for key, when in (("held", "WHEN THE CALL EXITS (exception still referenced)"),
                              ("after", "AFTER the exception was released and gc.collect()")):
                diff = [i for i, (x, y) in enumerate(zip(res["before"], res.get(key) or res["before"])) if x != y]
                if diff:
                    s += f" | ATTRIBUTES DIFFER {when} in fields {diff} (iflag,oflag,cflag,lflag,ispeed,ospeed,cc)"
    return s


def heuristic_in_scope(case, res):
    """Only used when the Coq judgement is unavailable (translator refused the source): the fault is
    in scope unless the call it was injected into is a tcsetattr that was writing the attributes found
    at entry (a restoring call) failing before it took effect."""
    ev = res["events"]
    k = (case.get("fault") or {}).get("k")
    if k is None or k >= len(ev):
        return True
    e = ev[k]
    return not (e[0] == 1 and e[1] == 1 and e[2] in (1, 2))


def attr_vec(a):
    return list(a[:6]) + list(a[6]) if a else []


def acase_term(r):
    return "mkacase " + " ".join(core.coq_list(attr_vec(r[k]), core.z) for k in ("before", "held", "after"))


def mcase_term(r):
    return core.coq_list(r["terms"], lambda t: "(" + acase_term(t) + ")")


# scenarios whose signal points are ALL enumerated in the quick tier (the others: a spread)
ASYNC_FULL_QUICK = {("draw", "still"), ("read_tty", "t>0/more-stops"), ("query_terminal", "reply"), ("read_tty", "t>0/min2")}
ASYNC_STRIDE_QUICK = 7


def run(ctx):
    import time as _t, os as _os
    _t0 = _t.time(); _c0 = _os.times()
    def _tick(tag):
        if _os.environ.get('C13_TIMING'):
            c = _os.times(); print(f'[c13 timing] {tag}: wall {_t.time()-_t0:.1f}s childcpu {c.children_user+c.children_system-_c0.children_user-_c0.children_system:.1f}s', file=sys.stderr)
    quick = ctx.quick
    hist = {"fn": {}, "fault_kind": {}, "outcome": {}, "judgement": {}, "calls_per_run": {}, "attrs": {},
            "signal_points_per_scenario": {}, "async_fault_in": {}}
    errors, mismatches, failures = [], [], []

    if ctx.replay:
        c = ctx.replay["replay"]["case"]
        cases = [c]
        base = []
    else:
        attrs = ATTRS_QUICK if quick else ATTRS_ALL
        base = []
        for (an, a), (fn, mn, mode, obs) in itertools.product(attrs, MODES):
            base.append({"fn": fn, "attrs": a, "attrs_name": an, "mode": mode, "mode_name": mn, "obs": obs, "fault": None})
        # ---- round 8: the same operations under layouts of several terminals
        lays = layouts_for(quick, ctx.rng)
        by_name = {(fn, mn): (mode, obs) for fn, mn, mode, obs in MODES}
        lay_modes = LAYOUT_MODES_QUICK if quick else [(fn, mn) for fn, mn, _, _ in MODES]
        corpus_names_all = {layout_name(lay) for lay in layout_corpus()}
        for lay in lays:
            prim_names = lay["names"]
            for fn, mn in lay_modes:
                mode, obs = by_name[(fn, mn)]
                prim = lay["stdout"] if fn == "draw" else lay["tty"]
                base.append({"fn": fn, "attrs": lay["ptys"][prim], "attrs_name": prim_names[prim], "mode": mode,
                             "mode_name": mn, "obs": obs, "fault": None, "layout": lay, "layout_name": layout_name(lay)})
        base_res = core.run_impl_parallel("impl_c13.py", base)
        _tick('base')
        cases = []
        for bi, (c, r) in enumerate(zip(base, base_res)):
            if r.get("abort"):
                errors.append(f"fault-free run aborted: {describe(c)}: {r['abort']}")
                continue
            cases.append(c)
            if c.get("layout"):
                n = r["ncalls"]
                if quick or c["layout_name"] not in corpus_names_all:
                    ks = sorted({0, n - 1, ctx.rng.randrange(n), ctx.rng.randrange(n)}) if n else []
                    for j, k in enumerate(ks):
                        kind, after = KINDS_AFTER[(bi + j) % len(KINDS_AFTER)]
                        cases.append(dict(c, fault={"k": k, "kind": kind, "after": after}))
                else:
                    for k in range(n):
                        cases.append(dict(c, fault={"k": k, "kind": "KI", "after": True}))
                continue
            # quick: the first attribute set gets every kind of fault, the others KeyboardInterrupt after the effect
            full = (not quick) or c["attrs_name"] == attrs[0][0]
            kinds = KINDS_ALL if full else [("KI", True)]
            for k in range(r["ncalls"]):
                for kind, after in kinds:
                    cases.append(dict(c, fault={"k": k, "kind": kind, "after": after}))
        # ---- asynchronous faults at the signal points of the package code (clean-up included)
        a_attrs = attrs[:1] if quick else attrs[:2]
        a_base = [dict(c, **{"async": {"k": None}}) for c in base
                  if not c.get("layout") and c["attrs_name"] in {n for n, _ in a_attrs}]
        corpus_names = [layout_name(lay) for lay in layout_corpus()]
        a_lay = {corpus_names[i] for i in (0, 2, 3, 7)}
        a_base += [dict(c, **{"async": {"k": None}}) for c in base
                   if c.get("layout") and c["layout_name"] in a_lay and (c["fn"], c["mode_name"]) in LAYOUT_ASYNC_MODES]
        a_res = core.run_impl_parallel("impl_c13.py", a_base)
        _tick('async count')
        for c, r in zip(a_base, a_res):
            if r.get("abort") or r.get("npoints") is None:
                errors.append(f"counting run aborted: {describe(c)}: {r.get('abort')}")
                continue
            n = r["npoints"]
            hist["signal_points_per_scenario"][min(n // 50 * 50, 500)] = \
                hist["signal_points_per_scenario"].get(min(n // 50 * 50, 500), 0) + 1
            if c.get("layout"):
                step = max(1, n // 4) if quick else 5
                ks = range(1 + ctx.rng.randrange(step), n + 1, step)
            elif not quick or (c["fn"], c["mode_name"]) in ASYNC_FULL_QUICK:
                ks = range(1, n + 1)
            else:
                ks = range(1 + ctx.rng.randrange(ASYNC_STRIDE_QUICK), n + 1, ASYNC_STRIDE_QUICK)
            for k in ks:
                for kind in (("KI",) if quick or c.get("layout") else ("KI", "Exc")):
                    cases.append(dict(c, **{"async": {"k": k, "kind": kind}}))
    # round-robin over the worker processes (the asynchronous cases, slower, are at the end of the list)
    order = [i for r in range(core.NCPU) for i in range(r, len(cases), core.NCPU)]
    shuffled = core.run_impl_parallel("impl_c13.py", [cases[i] for i in order])
    results = [None] * len(cases)
    for i, r in zip(order, shuffled):
        results[i] = r
    _tick(f'all {len(cases)} cases')

    # ---- judge inside Coq (distinct observations only)
    keys, key_idx, owner = [], {}, []
    a_terms, a_owner = [], {}
    m_terms, m_owner, m_index = [], {}, {}
    for ci, (c, r) in enumerate(zip(cases, results)):
        if r.get("abort"):
            errors.append(f"run aborted: {describe(c)}: {r['abort']}")
            owner.append(None)
            continue
        if c.get("layout"):
            if not r.get("terms") or len(r["terms"]) != len(c["layout"]["ptys"]):
                errors.append(f"the driver did not report every terminal: {describe(c)}")
            else:
                t = mcase_term(r)  # distinct observations only
                if t not in m_index:
                    m_index[t] = len(m_terms)
                    m_terms.append(t)
                m_owner[ci] = m_index[t]
            owner.append(None)
            continue
        if c.get("async"):
            a_owner[ci] = len(a_terms)
            a_terms.append(acase_term(r))
            owner.append(None)
            continue
        k = run_key(c, r)
        if k not in key_idx:
            key_idx[k] = len(keys)
            keys.append(k)
        owner.append(key_idx[k])
    header = ("From Coq Require Import List Bool Arith.\nImport ListNotations.\n"
              "From TI Require Import lib.Eff model.SkelTie model.C13Tie.\nOpen Scope nat_scope.\n")
    codes = {}
    # never judge against a stale comparison module (its build fails when the translator refuses the source)
    tie, gen = core.COQ / "model" / "C13Tie.vo", core.COQ / "gen" / "Skeletons.v"
    coq_ok = tie.exists() and gen.exists() and tie.stat().st_mtime >= gen.stat().st_mtime
    # the three evaluations run side by side
    from concurrent.futures import ThreadPoolExecutor
    pool = ThreadPoolExecutor(2)
    a_codes, a_coq_ok = {}, (core.COQ / "model" / "C13AsyncTie.vo").exists()
    m_codes, m_coq_ok = {}, (core.COQ / "model" / "C13MultiTie.vo").exists()
    a_header = ("From Coq Require Import List Bool Arith ZArith.\nImport ListNotations.\n"
                "From TI Require Import model.C13AsyncTie.\nOpen Scope nat_scope.\n")
    m_header = ("From Coq Require Import List Bool Arith ZArith.\nImport ListNotations.\n"
                "From TI Require Import model.C13AsyncTie model.C13MultiTie.\nOpen Scope nat_scope.\n")
    a_fut = pool.submit(core.coq_shards, "c13a", a_header, a_terms, "acase", "abad cases", shard=200) \
        if a_terms and a_coq_ok else None
    m_fut = pool.submit(core.coq_shards, "c13m", m_header, m_terms, "mcase", "mbad cases", shard=100) \
        if m_terms and m_coq_ok else None
    if keys and coq_ok:
        bad, errs = core.coq_shards("c13", header, [case_term(k) for k in keys], "tcase", "bad cases", shard=150)
        if errs:
            coq_ok = False
            errors += [e[-700:] for e in errs[:3]]
        codes = {i: code for i, code in bad}
    _tick(f'coq judge {len(keys)} keys')
    if a_fut is not None:
        bad, errs = a_fut.result()
        if errs:
            a_coq_ok = False
            errors += [e[-700:] for e in errs[:3]]
        a_codes = {i: code for i, code in bad}
    _tick(f'coq async {len(a_terms)}')
    if m_fut is not None:
        bad, errs = m_fut.result()
        if errs:
            m_coq_ok = False
            errors += [e[-700:] for e in errs[:3]]
        m_codes = {i: code for i, code in bad}
    _tick(f'coq multi {len(m_terms)}')
    pool.shutdown()

    distinct = set()
    in_scope_fault_runs = 0
    async_runs = async_fired = 0
    layout_runs = 0
    hist["layout"] = {}
    hist["layout_fault"] = {}
    for ci, (c, r) in enumerate(zip(cases, results)):
        if ci in m_owner:
            lay, f, a = c["layout"], c.get("fault"), c.get("async")
            layout_runs += 1
            shape = (f"{len(lay['ptys'])}pty stdin={'same' if lay['stdin'] == lay['stdout'] else lay['stdin'] if isinstance(lay['stdin'], str) else 'other-pty'}"
                     f" tty={'stdout' if lay['tty'] == lay['stdout'] else 'other-pty'}")
            hist["layout"][shape] = hist["layout"].get(shape, 0) + 1
            fk = "async" if a else "none" if not f else f"{f['kind']}-after"
            hist["layout_fault"][fk] = hist["layout_fault"].get(fk, 0) + 1
            hist["fn"][c["fn"] + " (layout)"] = hist["fn"].get(c["fn"] + " (layout)", 0) + 1
            code = m_codes.get(m_owner[ci], 0) if m_coq_ok else (0 if r["restored"] else 2)
            hist["judgement"]["layout:" + str(code)] = hist["judgement"].get("layout:" + str(code), 0) + 1
            if (code == 0) != bool(r["restored"]):
                errors.append(f"the Coq comparison of the attribute vectors disagrees with the driver's: {describe(c, r)}")
            if code == 0 and len(lay["ptys"]) > 1 and (not a or r.get("fired")):
                distinct.add(("layout", c["fn"], c["mode_name"], c.get("layout_name"), json.dumps(f or a, sort_keys=True)))
            if code >= 2:
                failures.append({
                    "signature": core.sig({"fn": c["fn"], "mode": c["mode_name"], "fault": f, "async": a,
                                           "layout": c.get("layout_name")}),
                    "what": "terminal attributes not restored on every terminal: " + describe(c, r),
                    "replay": {"case": c, "observed": {k: r.get(k) for k in ("events", "out", "exc", "terms", "restored",
                                                                              "where", "npoints")}, "code": code},
                })
            continue
        if ci in a_owner:
            a = c["async"]
            async_runs += 1
            hist["fn"][c["fn"] + " (async)"] = hist["fn"].get(c["fn"] + " (async)", 0) + 1
            if not r.get("fired"):
                hist["async_fault_in"]["(not reached)"] = hist["async_fault_in"].get("(not reached)", 0) + 1
            else:
                async_fired += 1
                w = r["where"]
                hist["async_fault_in"][w[2]] = hist["async_fault_in"].get(w[2], 0) + 1
            hist["outcome"][str(r["out"])] = hist["outcome"].get(str(r["out"]), 0) + 1
            code = a_codes.get(a_owner[ci], 0) if a_coq_ok else (0 if r["restored"] else 2)
            hist["judgement"]["async:" + str(code)] = hist["judgement"].get("async:" + str(code), 0) + 1
            if (code == 0) != bool(r["restored"]):
                errors.append(f"the Coq comparison of the attribute vectors disagrees with the driver's: {describe(c, r)}")
            if code == 0 and r.get("fired"):
                distinct.add(("async", c["fn"], c["mode_name"], tuple(r["where"]), a.get("kind")))
            if code >= 2:
                failures.append({
                    "signature": core.sig({"fn": c["fn"], "mode": c["mode_name"], "async": a, "attrs": c["attrs_name"]}),
                    "what": "terminal attributes not restored: " + describe(c, r),
                    "replay": {"case": c, "observed": {k: r.get(k) for k in ("events", "out", "exc", "before", "held", "after",
                                                                              "restored", "where", "npoints")}, "code": code},
                })
            continue
        if owner[ci] is None:
            continue
        f = c.get("fault")
        hist["fn"][c["fn"]] = hist["fn"].get(c["fn"], 0) + 1
        fk = "none" if not f else f"{f['kind']}-{'after' if f['after'] else 'before'}"
        hist["fault_kind"][fk] = hist["fault_kind"].get(fk, 0) + 1
        hist["outcome"][str(r["out"])] = hist["outcome"].get(str(r["out"]), 0) + 1
        hist["attrs"][c["attrs_name"]] = hist["attrs"].get(c["attrs_name"], 0) + 1
        b = min(r["ncalls"] // 10 * 10, 60)
        hist["calls_per_run"][b] = hist["calls_per_run"].get(b, 0) + 1
        code = codes.get(owner[ci], 0) if coq_ok else (0 if (r["restored"] or not heuristic_in_scope(c, r)) else 2)
        hist["judgement"][str(code)] = hist["judgement"].get(str(code), 0) + 1
        if f and code == 0:
            in_scope_fault_runs += 1
            distinct.add(owner[ci])
        if code in (2, 3) or (not f and not r["restored"]):
            failures.append({
                "signature": core.sig({"fn": c["fn"], "mode": c["mode_name"], "fault": f, "attrs": c["attrs_name"]}),
                "what": "terminal attributes not restored: " + describe(c, r)
                        + ("" if coq_ok else " [scope judged heuristically: the translated skeleton is unavailable]"),
                "replay": {"case": c, "observed": {k: r.get(k) for k in ("events", "out", "exc", "before", "held", "after",
                                                                          "restored")}, "code": code},
            })
        elif code == 1:
            mismatches.append({"case": describe(c, r), "why": "the observed sequence of tracked calls is not a run of the translated skeleton"})
    # smallest failing input first (no fault < small k); one per function and mode
    def fkey(f):
        c = f["replay"]["case"]
        flt = c.get("fault") or c.get("async")
        return (flt is not None, c.get("async") is not None, (flt or {}).get("k", 0), len((c.get("layout") or {}).get("ptys", [])))
    failures.sort(key=fkey)
    total_failing = len(failures)
    seen, kept = set(), []
    for f in failures:
        key = (f["replay"]["case"]["fn"], f["replay"]["case"]["mode_name"], f["replay"]["case"].get("async") is not None,
               f["replay"]["case"].get("layout") is not None)
        if key not in seen:
            seen.add(key)
            kept.append(f)
    failures = kept

    sys.path.insert(0, str(Path(core.VERIF) / "harness" / "tx"))
    assumed = []
    try:
        import tx_skel
        _, meta = tx_skel.build(core.REPO)
        assumed = meta["assumed_stable"]
    except Exception:
        pass
    samples = [describe(c, r) for c, r in list(zip(cases, results))[:1]]
    picks = [i for i, c in enumerate(cases) if c.get("fault")]
    for i in picks[:: max(1, len(picks) // 4)][:4]:
        samples.append(describe(cases[i], results[i]))
    return {
        "corr_name": "fault enumeration on a pty: read_tty / query_terminal / Renderable.draw vs. translated skeletons "
                     "(trace is a run of the skeleton; attributes byte-identical before/after)",
        "evaluations": len(cases),
        "distinct_nontrivial": len(distinct),
        "rule": "initial attribute sets (canonical/raw x echo on/off x VMIN/VTIME in {0,1,5}; quick: 4 of the 36) x "
                f"{len(MODES)} read/query/draw modes (timeout None / >= 0 / < 0 / 0, min, echo, predicate stopping / never / "
                "default, reply / silence / queries disabled, still / animation / indefinite, echo_input, hide_cursor); for "
                "each, the fault-free run and then, FOR ALL k, the k-th tracked call raising KeyboardInterrupt or an Exception "
                "(termios.error / OSError / RuntimeError) before or after the real call, and a real SIGINT "
                "(signal.raise_signal) after it (quick: all five kinds on the first attribute set, KeyboardInterrupt-after on "
                "the others) WHEREVER the call stands, the function's own finally / except blocks included (only the "
                "restoring tcsetattr of a clean-up block itself failing is outside the property).  Plus asynchronous faults: "
                "KeyboardInterrupt (thorough: also an Exception) at the k-th signal point of the package code (bytecode "
                "positions where CPython runs signal handlers), ALL k for "
                + ("four scenarios and every " + str(ASYNC_STRIDE_QUICK) + "th (random phase) for the others, first attribute set"
                   if quick else "every scenario, first two attribute sets")
                + ".  Attributes read before the call, when it exits (exception still referenced) and after release + "
                "gc.collect().  Non-trivial: distinct observed traces with an in-scope fault that were judged (in Coq) to be "
                "runs of `anyfault skeleton`, plus distinct (scenario, position) pairs of fired asynchronous faults.  "
                "Round 8, several terminals: layouts generated as data (1..3 ptys with their own attribute sets; stdin -> "
                "any pty / a pipe / /dev/null, stdout -> any pty, utils._tty_fd -> any pty; a committed corpus of 8 + "
                + ("2 random ones" if quick else "all 45 assignments over 3 ptys") + ") x "
                + (f"{len(LAYOUT_MODES_QUICK)} modes" if quick else "every mode")
                + ": the fault-free run, the k-th tracked call raising AFTER its effect ("
                + ("first, last and two random k, kinds rotating KeyboardInterrupt / Exception / SIGINT" if quick
                   else "all k with KeyboardInterrupt for the corpus layouts, first / last / two random k with rotating kinds "
                        "for the enumerated ones")
                + ") and asynchronous KeyboardInterrupts at a spread of signal points (4 layouts x 3 modes); the "
                "attributes of EVERY pty (bystanders included) are compared at the three times, in Coq "
                "(C13MultiTie.mcheck); non-trivial: distinct passing runs in a layout with at least two terminals.",
        "samples": samples,
        "histogram": hist,
        "mismatches": mismatches,
        "failures": failures,
        "errors": errors,
        "assumptions": [
            "the effect of each tracked call on the terminal attributes is as in coq/lib/Eff.v (tcgetattr reads, tcsetattr(x) "
            "writes the list x, in-place updates of a list change it); validated at run time by the trace judgement "
            "(value written/read = entry attributes whenever the model says so)",
            "calls outside the call table of harness/tx/tx_skel.py do not change terminal attributes (validated by the "
            "byte-for-byte comparison on every enumerated run)",
            "decorators unix_tty_only / lock_tty are transparent for terminal attributes",
            "a signal handler's exception is raised by CPython only where the evaluation loop polls for pending signals "
            "(after a call returns, at function / generator entry, on a backward jump): the asynchronous family enumerates "
            "exactly those positions inside package code (clean-up blocks included); a 'line' position between the return "
            "of the previous call and the restoring tcsetattr of a finally block is not one",
            "the restoring tcsetattr of a clean-up block failing before it takes effect (the OS refuses the restore) is "
            "outside the property: no code can put the attributes back then",
            "several terminals: a descriptor expression (a local assigned once / a module global the function does not "
            "assign) refers to ONE terminal during the call; tcgetattr / tcsetattr act on the terminal their descriptor "
            "refers to and on no other (validated on every layout run: bystander ptys are compared too)",
        ] + [f"`{s}` keeps one truth value during a call" for s in assumed],
        "trusted": ["harness/tx/tx_skel.py (Python ast -> prog, fail-closed)",
                    "harness/tx/tx_attrfd.py (descriptor argument of the tcgetattr / tcsetattr call sites, fail-closed; the "
                    "identification of a call site with the Snap / Put op of the skeleton is by snapshot variable)", "the pty driver harness/impl/impl_c13.py "
                    "(patches termios.*, utils.os/select/monotonic, sys.stdout, RenderIterator.__next__, sleep)"],
        "extra": {"in_scope_fault_runs": in_scope_fault_runs, "distinct_traces_judged": len(keys),
                  "async_runs": async_runs, "async_fired": async_fired, "failing_runs_total": total_failing,
                  "layout_runs": layout_runs},
    }
