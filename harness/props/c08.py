"""C08 — a render iterator yields exactly the frames its operation history dictates.

Correspondence: generated operation histories run on a real `RenderIterator` over the
instrumented renderable of impl/impl_c08.py and on model/Iter.v inside Coq
(model/IterTie.v: [check8] compares the observed trace with the model's trace AND with
the trace of the documented machine model/IterSpec.v, which is the property oracle).

The generator / encoder / evaluator here are shared by C09 and C10."""
from __future__ import annotations

import copy
import json

import core

LEVEL = "proof"
EXTRA_TARGETS = ["model/IterTie.vo", "model/IterEnvTie.vo", "model/IterArgsTie.vo", "model/IterPadClsTie.vo"]

SIZES = [[1, 1], [2, 1], [3, 2], [2, 3]]
DURS = [1, 7, 40, None]  # None = DYNAMIC
BAD_DURS = [0, -3]
ARGS = ["none", 0, 1, 2, "base"]
PADS_EXACT = [["E", 0, 0, 0, 0], ["E", 1, 0, 0, 0], ["E", 0, 1, 2, 0], ["E", 2, 1, 1, 3]]
PADS_ABS = [["A", 5, 4, 0, 0], ["A", 6, 4, 2, 2], ["A", 1, 1, 1, 1], ["A", 4, 1, 1, 1], ["A", 7, 6, 1, 1]]
PADS_REL = [["A", 0, 0, 1, 1], ["A", -70, -25, 0, 2], ["A", 0, 3, 1, 1], ["A", 5, -28, 2, 1],
            ["A", -200, -200, 1, 1]]
WH = ["WStart", "WCurrent", "WEnd"]


def pad_kind(p):
    if p[0] == "E":
        return "exact"
    return "aligned-absolute" if p[1] > 0 and p[2] > 0 else "aligned-relative"


def gen_pad(rng):
    return list(rng.choice(rng.choice([PADS_EXACT, PADS_ABS, PADS_REL])))


def gen_seek(rng, n, pos):
    """A seek aimed at the boundaries: targets {0, n-1, n, -1, current}."""
    if n is None:
        wh = rng.choice([0, 1, 1, 2])
        off = rng.choice([0, 0, 1, 2, 3, -1, -2, 5, 9])
        return ["seek", off, wh, True]
    target = rng.choice([0, n - 1, n, -1, pos, pos, pos - 1, pos + 1, rng.randint(-1, n + 1)])
    wh = rng.choice([0, 0, 1, 1, 2])
    if wh == 0:
        return ["seek", target, 0, rng.random() < 0.7]
    if wh == 1:
        return ["seek", target - pos, 1, True]
    return ["seek", target - (n - 1), 2, True]


def gen_case(rng, length=25, fault_p=0.15, cached_bias=False, setting_bias=False):
    n = rng.choice([2, 2, 3, 3, 5, None, None]) if rng.random() > 0.02 else 1
    loops = rng.choice([-1, 1, 2, 2, 3]) if rng.random() > 0.02 else 0
    if n is None:
        cache = rng.choice([False, True, 1, 100])
    else:
        cache = rng.choice([False, True, True, max(n - 1, 1), n, n + 1])
        if cached_bias:
            cache = rng.choice([True, n, n + 1, 100])
    if rng.random() < 0.02:
        cache = rng.choice([0, -1])
    size = list(rng.choice(SIZES))
    case = {
        "n": n, "total": rng.randint(3, 8), "loops": loops, "cache": cache, "size": size,
        "dur": rng.choice(DURS), "args": rng.choice(ARGS) if rng.random() > 0.02 else "bad",
        "pad": gen_pad(rng), "owns": rng.random() > 0.15,
        "frame": 0 if n is None or n < 2 or rng.random() < 0.6 else rng.randrange(n),
        "stamp": rng.random() < 0.5, "faults": {},
    }
    if rng.random() < fault_p:
        case["faults"][str(rng.randrange(0, 12))] = rng.choice([0, 0, 1, 2, 3, 4, 5])
    ops, pos = [], 0
    nops = rng.randint(1, length)
    w_next, w_seek, w_set = (50, 15, 30) if setting_bias else (55, 22, 18)
    boundary = 0
    after_close = None
    while len(ops) < nops:
        if after_close is not None:
            after_close -= 1
            if after_close < 0:
                break
        k = rng.choices(["next", "seek", "set", "close", "drop", "topass"],
                        [w_next, w_seek, w_set, 1.5, 1.0, 6])[0]
        if k == "next":
            ops.append(["next"])
            if n:
                pos = pos + 1 if pos < n else 1
        elif k == "topass" and n:  # run to the end-of-pass boundary, then poke at it
            while pos < n and len(ops) < nops + 6:
                ops.append(["next"])
                pos += 1
            boundary += 1
            if rng.random() < 0.7:
                o = gen_seek(rng, n, pos)
                ops.append(o)
        elif k == "seek":
            o = gen_seek(rng, n, pos)
            ops.append(o)
            if n:
                t = o[1] if o[2] == 0 else (pos + o[1] if o[2] == 1 else n - 1 + o[1])
                if 0 <= t < n:
                    pos = t
        elif k == "set":
            what = rng.choice(["dur", "pad", "args", "size"])
            if what == "dur":
                ops.append(["dur", rng.choice(DURS) if rng.random() > 0.15 else rng.choice(BAD_DURS)])
            elif what == "pad":
                ops.append(["pad", gen_pad(rng)])
            elif what == "args":
                ops.append(["args", rng.choice(ARGS[1:]) if rng.random() > 0.1 else "bad"])
            else:
                ops.append(["size", list(rng.choice(SIZES))])
        elif k in ("close", "drop"):
            ops.append([k])
            if after_close is None:
                after_close = rng.randint(0, 4)
    case["ops"] = ops
    return case


def base_case(**kw):
    c = {"n": 2, "total": 5, "loops": 1, "cache": False, "size": [1, 1], "dur": 1, "args": "none",
         "pad": ["E", 0, 0, 0, 0], "owns": True, "frame": 0, "stamp": False, "faults": {}, "ffaults": {},
         "ops": []}
    c.update(kw)
    return c


N, S = ["next"], lambda off, wh=0, ex=True: ["seek", off, wh, ex]
CORPUS = [
    # F2 shape: terminal-relative aligned padding handed to set_padding
    base_case(ops=[["pad", ["A", 0, 0, 1, 1]], N]),
    base_case(n=3, pad=["E", 1, 0, 0, 0], ops=[N, ["pad", ["A", 0, -2, 1, 1]], N, ["size", [2, 1]], N]),
    # plain exhaustion, loops x n frames then Stop forever
    base_case(n=3, loops=2, cache=True, stamp=True, ops=[N] * 8),
    base_case(n=2, loops=3, cache=2, ops=[N] * 7 + [S(0)]),
    base_case(n=2, loops=-1, cache=3, ops=[N] * 9),
    # seek at the end-of-pass boundary: does not consume a loop
    base_case(n=3, loops=2, ops=[N, N, N, S(0), N, N, N, N, N, N, N, N]),
    base_case(n=3, loops=1, ops=[N, N, N, S(-1, 1), N, S(-3, 1), N, N, N, N]),
    base_case(n=3, loops=2, ops=[N, N, N, S(0, 1), S(3), S(-3, 2), S(-2, 2), N, N, N]),
    base_case(n=5, loops=2, frame=3, ops=[S(4), N, S(0, 2), N, N, S(-5, 1), N]),
    # seek before the first frame, CURRENT relative to the next frame, cumulative
    base_case(n=5, ops=[S(2, 1), S(1, 1), N, S(-1, 1), N, S(2, 0, False), S(-1, 1), N]),
    # INDEFINITE: the pending seek is handed over exactly once; the last one wins
    base_case(n=None, total=6, loops=3, cache=True, ops=[N, S(2, 1), N, N, S(1), S(-1, 2), N, N, N]),
    base_case(n=None, total=4, ops=[S(-1), S(1, 2), S(9, 1), N, N]),
    base_case(n=None, total=3, pad=["A", 0, 0, 1, 1], ops=[N, N, N, N, N, S(0)]),
    # settings apply from the next frame; cache keyed by all of (size, duration, args)
    base_case(n=2, loops=3, cache=True, stamp=True,
              ops=[N, N, ["args", 1], N, ["args", 0], N, ["dur", None], N, N, ["size", [2, 1]], N, N]),
    base_case(n=2, loops=-1, cache=True, stamp=True, pad=["A", 5, 4, 0, 0],
              ops=[N, N, ["pad", ["E", 1, 1, 1, 1]], N, N, ["pad", ["A", 1, 1, 1, 1]], N, ["size", [3, 2]], N]),
    # rejected operations change nothing
    base_case(n=3, ops=[N, ["dur", 0], ["dur", -3], ["args", "bad"], S(3), S(-1), S(1, 2), S(-3, 2), S(2, 1), N]),
    # closed iterator
    base_case(n=2, ops=[N, ["close"], N, S(0), ["dur", 5], ["pad", ["E", 0, 0, 0, 0]], ["args", 0],
                        ["size", [1, 1]], ["close"], ["drop"], N]),
    base_case(n=2, ops=[["drop"], N, S(0)]),
    # faults: first frame, later frame, StopIteration from a definite source
    base_case(n=3, faults={"0": 1}, ops=[N, N, S(0)]),
    base_case(n=3, cache=True, faults={"2": 0}, ops=[N, N, N, N]),
    base_case(n=None, total=9, faults={"1": 0}, ops=[N, N, N]),
    base_case(n=3, faults={"1": 2}, ops=[N, N, N, ["close"]]),
    # caller-owned data
    base_case(n=2, owns=False, loops=2, ops=[N, N, N, N, N]),
    base_case(n=2, owns=False, ops=[N, ["close"], N]),
    # invalid construction
    base_case(loops=0), base_case(cache=0), base_case(cache=-1), base_case(args="bad"), base_case(n=1),
]


# ----------------------------------------------------------------- encoding to Coq


def z(v):
    return core.z(int(v))


def size_t(s):
    return f"({z(s[0])}, {z(s[1])})"


def dur_t(d):
    return "DDynamic" if d is None else f"(DStatic {z(d)})"


def pad_t(p):
    return f"(PExact {z(p[1])} {z(p[2])} {z(p[3])} {z(p[4])})" if p[0] == "E" else \
        f"(PAligned {z(p[1])} {z(p[2])} {z(p[3])} {z(p[4])})"


def args_t(a):
    if a == "bad":
        return "None"
    return f"(Some {z(0 if a in ('none', 'base') else a)})"


def cache_t(c):
    if c is True or c is False:
        return f"(CBool {'true' if c else 'false'})"
    return f"(CInt {z(c)})"


def op_t(o):
    k = o[0]
    if k == "next":
        return "Next"
    if k == "seek":
        return f"Seek {z(o[1])} {WH[o[2]]}"
    if k == "dur":
        return f"SetDuration {dur_t(o[1])}"
    if k == "pad":
        return f"SetPadding {pad_t(o[1])}"
    if k == "args":
        return f"SetArgs {args_t(o[1])}"
    if k == "size":
        return f"SetSize {size_t(o[1])}"
    return "Close" if k == "close" else "Drop"


ERR = {"finalized": "EFinalized", "value": "EValue", "incompat": "EIncompat", "stopdef": "EStopDefinite"}


def err_t(e):
    if e[0] in ERR:
        return ERR[e[0]]
    if e[0] == "render":
        return f"(ERender {z(e[1])})"
    return "(ERender (-100)%Z)"  # an exception the documentation does not provide for


def out_t(o):
    if o[0] == "F":
        _, num, dur, w, h, raw, dims = o
        d = "None" if dims is None else f"(Some ({z(dims[0])}, {z(dims[1])}, {z(dims[2])}, {z(dims[3])}))"
        return (f"(OFrame {{| f_number := {z(num)}; f_duration := {z(dur)}; f_size := ({z(w)}, {z(h)}); "
                f"f_output := {core.coq_list(raw, z)}; f_pad := {d} |}})")
    if o[0] == "S":
        return "OStop"
    if o[0] == "K":
        return "OOk"
    return f"(OErr {err_t(o[1:])})"


def rcall_t(r):
    fo, wh, w, h, dur, a, fin = r
    d = "DDynamic" if dur == -1 else f"(DStatic {z(dur)})"
    return (f"{{| rc_fo := {z(fo)}; rc_wh := {WH[wh]}; rc_size := ({z(w)}, {z(h)}); rc_dur := {d}; "
            f"rc_args := {z(a)}; rc_finalized := {'true' if fin else 'false'} |}}")


def cfg_t(c):
    return (f"{{| c_loops := {z(c['loops'])}; c_cache := {cache_t(c['cache'])}; c_size := {size_t(c['size'])}; "
            f"c_dur := {dur_t(c['dur'])}; c_args := {args_t(c['args'])}; c_pad := {pad_t(c['pad'])}; "
            f"c_owns := {'true' if c.get('owns', True) else 'false'}; c_frame := {z(c.get('frame', 0))} |}}")


def case_t(c, r):
    faults = core.coq_list(sorted((int(k), v) for k, v in c.get("faults", {}).items()),
                           lambda kv: f"({kv[0]}%nat, {z(kv[1])})")
    ffaults = core.coq_list(sorted((int(k), v) for k, v in c.get("ffaults", {}).items()),
                            lambda kv: f"({z(kv[0])}, {z(kv[1])})")
    ctor = "None" if r["ctor"][0] == "ok" else f"(Some {err_t(r['ctor'][1:])})"
    obs = core.coq_list(r["ops"], lambda x: f"({out_t(x[0])}, {z(x[1])})")
    tells = core.coq_list(r["ops"], lambda x: z(x[2]))
    n = "None" if c["n"] is None else f"(Some {z(c['n'])})"
    return (f"{{| t_n := {n}; t_total := {z(c.get('total', 5))}; t_faults := {faults}; t_ffaults := {ffaults}; "
            f"t_stamp := {'true' if c.get('stamp') else 'false'}; t_cfg := {cfg_t(c)}; "
            f"t_ops := {core.coq_list(c['ops'], op_t)}; t_ctor := {ctor}; t_obs := {obs}; t_tells := {tells}; "
            f"t_log := {core.coq_list(r['log'], rcall_t)}; t_fin := {r['fin']}%nat; "
            f"t_finalized_end := {'true' if r['finalized_end'] else 'false'} |}}")


HEADER = ("From Coq Require Import List ZArith.\nImport ListNotations.\n"
          "From TI Require Import model.Iter model.IterSpec model.IterTie.\nOpen Scope nat_scope.\n")


IMPL_TIMEOUT = [900]  # seconds per driver process (raised in the thorough tier: the machine may be loaded)


def evaluate(cases, tag="c08", bad="bad8"):
    """Returns (codes per case, errors, impl results)."""
    impl = core.run_impl_parallel("impl_c08.py", cases, timeout=IMPL_TIMEOUT[0])
    terms = [case_t(c, r) for c, r in zip(cases, impl)]
    codes = [0] * len(cases)
    res, errors = core.coq_shards(tag, HEADER, terms, "tcase", f"{bad} cases", shard=150)
    for idx, code in res:
        codes[idx] = code
    return codes, errors, impl


# ----------------------------------------------------------------- shrinking


def shrink(case, fails, tag):
    """Greedy, batched: candidates smallest first (single operations, prefixes, the
    all-default configuration, single removals, single configuration resets); the first
    candidate on which `fails(list of cases, tag) -> list of bool` (the property oracle on
    the implementation) still holds replaces the case."""
    cur = case
    dflt = base_case()
    cfg_fields = ("faults", "ffaults", "stamp", "frame", "owns", "args", "dur", "size", "cache", "loops", "pad", "n", "total")
    for _ in range(40):
        if core.over_budget():
            break
        cands = []
        nops = len(cur["ops"])
        if nops > 1:
            for k in range(nops):
                c = copy.deepcopy(cur)
                c["ops"] = [cur["ops"][k]]
                cands.append(c)
            for k in range(1, nops):
                c = copy.deepcopy(cur)
                c["ops"] = cur["ops"][:k]
                cands.append(c)
        if any(cur.get(f) != dflt[f] for f in cfg_fields):
            c = copy.deepcopy(cur)
            for f in cfg_fields:
                c[f] = copy.deepcopy(dflt[f])
            cands.append(c)
        if nops > 1:
            for k in range(nops):
                c = copy.deepcopy(cur)
                del c["ops"][k]
                cands.append(c)
        for f in cfg_fields:
            if cur.get(f) != dflt[f]:
                c = copy.deepcopy(cur)
                c[f] = copy.deepcopy(dflt[f])
                cands.append(c)
        for k, o in enumerate(cur["ops"]):
            if o[0] == "pad" and o[1] != ["A", 0, 0, 1, 1] and pad_kind(o[1]) == "aligned-relative":
                c = copy.deepcopy(cur)
                c["ops"][k] = ["pad", ["A", 0, 0, 1, 1]]
                cands.append(c)
        # drop candidates the driver cannot even set up (e.g. start frame beyond a reduced frame count)
        cands = [c for c in cands if c.get("n") is None or (0 <= c.get("frame", 0) < c["n"])]
        if not cands:
            break
        try:
            verdicts = fails(cands, tag)
        except Exception:  # noqa: BLE001 — an invalid candidate crashed the driver: judge one by one
            verdicts = []
            for c in cands:
                try:
                    verdicts.append(fails([c], tag)[0])
                except Exception:  # noqa: BLE001
                    verdicts.append(False)
        nxt = next((c for c, v in zip(cands, verdicts) if v), None)
        if nxt is None:
            break
        cur = nxt
    return cur


def describe(c):
    def one(o):
        if o[0] == "seek":
            return f"seek({o[1]},{WH[o[2]][1:].upper()})"
        return o[0] if len(o) == 1 else f"{o[0]}({json.dumps(o[1])})"
    n = "INDEFINITE" if c["n"] is None else c["n"]
    return (f"frames={n} loops={c['loops']} cache={c['cache']} size={c['size']} dur={c['dur']} args={c['args']} "
            f"pad={c['pad']} owns={c.get('owns', True)} tell={c.get('frame', 0)} faults={c.get('faults', {})} "
            f"frame_faults={c.get('ffaults', {})} "
            f"ops=[{', '.join(map(one, c['ops']))}]")


def signature(c):
    return core.sig({k: c.get(k) for k in ("n", "loops", "cache", "size", "dur", "args", "pad", "owns", "frame",
                                           "faults", "ffaults", "ops")})


def histogram(cases, impl):
    h = {"frame_count": {}, "loops": {}, "cache": {}, "padding_kind_ctor": {}, "padding_kind_set": {},
         "duration": {}, "ops_len": {}, "op_kinds": {}, "seek_whence": {}, "owns": {}, "fault_kinds": {},
         "ctor_rejected": 0, "histories_reaching_exhaustion": 0, "histories_crossing_a_pass_boundary": 0,
         "seeks_at_pass_boundary": 0, "seeks_rejected": 0, "seeks_accepted": 0, "ops_on_closed_iterator": 0,
         "frames_yielded": 0, "render_faults_hit": 0}

    def inc(k, v):
        v = str(v)
        h[k][v] = h[k].get(v, 0) + 1

    for c, r in zip(cases, impl):
        n = c["n"]
        inc("frame_count", "INDEFINITE" if n is None else n)
        inc("loops", c["loops"])
        if n is None or isinstance(c["cache"], bool):
            inc("cache", c["cache"])
        else:
            inc("cache", "n-1" if c["cache"] == n - 1 else "n" if c["cache"] == n else "n+1" if c["cache"] == n + 1
                else c["cache"])
        inc("padding_kind_ctor", pad_kind(c["pad"]))
        inc("duration", "DYNAMIC" if c["dur"] is None else "static")
        inc("owns", c.get("owns", True))
        inc("ops_len", min(len(c["ops"]) // 5 * 5, 40))
        for k, v in c.get("faults", {}).items():
            inc("fault_kinds", "StopIteration" if v == 0 else "Exception")
        if r["ctor"][0] != "ok":
            h["ctor_rejected"] += 1
            continue
        frames_in_pass, closed, crossed, exhausted = 0, False, False, False
        for o, x in zip(c["ops"], r["ops"]):
            inc("op_kinds", o[0])
            out = x[0]
            if closed:
                h["ops_on_closed_iterator"] += 1
            if o[0] == "seek":
                inc("seek_whence", WH[o[2]][1:])
                if out[0] == "K":
                    h["seeks_accepted"] += 1
                elif out[1] == "value":
                    h["seeks_rejected"] += 1
                if n and frames_in_pass == n and not closed:
                    h["seeks_at_pass_boundary"] += 1
                if n and out[0] == "K":
                    frames_in_pass = -100  # position no longer tracked by this counter
            if o[0] == "pad":
                inc("padding_kind_set", pad_kind(o[1]))
            if o[0] == "dur":
                inc("duration", "DYNAMIC" if o[1] is None else ("static" if o[1] > 0 else "invalid"))
            if o[0] == "next" and out[0] == "F":
                h["frames_yielded"] += 1
                if n:
                    if out[1] == 0 and frames_in_pass != 0:
                        crossed = crossed or frames_in_pass == n
                        frames_in_pass = 0
                    frames_in_pass = out[1] + 1
            if o[0] == "next" and out[0] == "S" and not closed:
                exhausted = True
            if o[0] == "next" and out[0] == "E":
                h["render_faults_hit"] += 1
            if out[0] in ("S", "E") and o[0] == "next" or o[0] in ("close", "drop"):
                closed = True
        h["histories_reaching_exhaustion"] += exhausted
        h["histories_crossing_a_pass_boundary"] += crossed
    return h


def nontrivial(c, r):
    """>= 4 operations, at least two frames yielded and at least one seek or setter."""
    if r["ctor"][0] != "ok" or len(c["ops"]) < 4:
        return False
    frames = sum(1 for x in r["ops"] if x[0][0] == "F")
    return frames >= 2 and any(o[0] in ("seek", "dur", "pad", "args", "size") for o in c["ops"])


def exhaustive_small(maxlen):
    """Every history of length <= maxlen over a small alphabet on a 2-frame renderable."""
    import itertools
    alphabet = [N, S(0), S(1), S(2), S(-1, 1), S(1, 1), S(0, 2), ["close"], ["size", [2, 1]],
                ["pad", ["A", 0, 0, 1, 1]]]
    out = []
    for ln in range(1, maxlen + 1):
        for ops in itertools.product(alphabet, repeat=ln):
            out.append(base_case(n=2, loops=2, cache=True, stamp=True, ops=[list(o) for o in ops]))
    return out


def fails_spec8(cands, tag="c08s"):
    codes, errors, _ = evaluate(cands, tag=tag)
    return [code >= 2 and not errors for code in codes]


def canon_op(o):
    if o[0] == "pad" and pad_kind(o[1]) == "aligned-relative":
        return ["pad", ["A", 0, 0, 1, 1]]
    return copy.deepcopy(o)


def minimise_all(failing, fails, tag, full_budget=2):
    """failing: list of cases on which the oracle fails.  Returns one minimal case per
    input: first a batched attempt (a single operation of the history on the default
    configuration), then the full greedy shrink for at most `full_budget` of the rest."""
    singles, owner = {}, []
    for c in failing:
        mine = []
        for o in c["ops"]:
            m = base_case(ops=[canon_op(o)])
            singles.setdefault(signature(m), m)
            mine.append(signature(m))
        owner.append(mine)
    keys = list(singles)
    verdict = dict(zip(keys, fails([singles[k] for k in keys], tag))) if keys else {}
    out = []
    for c, mine in zip(failing, owner):
        hit = next((k for k in mine if verdict.get(k)), None)
        if hit is not None:
            out.append(singles[hit])
        elif full_budget > 0:
            full_budget -= 1
            out.append(shrink(c, fails, tag))
        else:
            out.append(c)
    return out


def report_failures(cases, codes, fails, tag, what, evaluate_fn):
    failing = [cases[i] for i, code in enumerate(codes) if code >= 2]
    if not failing:
        return []
    minimal = minimise_all(failing, fails, tag)
    uniq = {}
    for m in minimal:
        uniq.setdefault(signature(m), m)
    keys = list(uniq)
    c2, _, impl2 = evaluate_fn([uniq[k] for k in keys], tag + "r")
    failures = []
    for k, code, obs in zip(keys, c2, impl2):
        m = uniq[k]
        failures.append({
            "signature": k,
            "what": what + ": " + describe(m) + " -> observed "
                    + json.dumps([x[0] for x in obs.get("ops", [])])[:600]
                    + f" [{sum(1 for x in minimal if signature(x) == k)} failing case(s) of this run reduce to it]",
            "replay": {"case": m, "observed": obs, "code": code},
        })
    return failures


# ================================================================= histories in a changing environment
#
# model/IterEnv.v: events = (terminal size in force, operation | client write to `.loop`); a second iterator
# over the render data of the first.  Driver: impl_c08.py mode "env"; judged by model/IterEnvTie.v [check_env].

TERMS = [[80, 30], [40, 10], [100, 50], [20, 5], [120, 24], [80, 24], [30, 30]]
POKES = [0, 1, 2, -1, 1000]
PADS_REL_ENV = PADS_REL + [["A", 0, -2, 1, 1], ["A", -10, -5, 0, 0], ["A", -3, 0, 2, 2]]


def env_case(**kw):
    c = base_case(mode="env", term0=[80, 30])
    c.update(kw)
    return c


def second_cfg(ops, **kw):
    c = {"args": "none", "pad": ["E", 0, 0, 0, 0], "loops": 1, "cache": False, "owns": False, "ops": ops}
    c.update(kw)
    return c


def gen_env_case(rng, length=25):
    """A history of gen_case with resizes (often followed by set_render_size / set_padding) and client writes
    to `.loop` interleaved; terminal-relative paddings common."""
    c = gen_case(rng, length, fault_p=0.05)
    c["mode"] = "env"
    c["term0"] = list(rng.choice(TERMS))
    if rng.random() < 0.55:
        c["pad"] = list(rng.choice(PADS_REL_ENV))
    flavour = rng.choice(["resize", "resize", "poke", "both"])
    p_resize = 0.13 if flavour != "poke" else 0.02
    p_poke = 0.13 if flavour != "resize" else 0.02
    if flavour != "resize" and c["n"] and c["loops"] == 1 and rng.random() < 0.7:
        c["loops"] = rng.choice([2, 3, -1])
    ops = []
    for o in c["ops"]:
        x = rng.random()
        if x < p_resize:
            ops.append(["resize", list(rng.choice(TERMS))])
            y = rng.random()
            if y < 0.45:
                ops.append(["size", list(rng.choice(SIZES))])
            elif y < 0.7:
                ops.append(["pad", list(rng.choice(PADS_REL_ENV))])
        elif x < p_resize + p_poke:
            ops.append(["poke", rng.choice(POKES)])
        if o[0] == "pad" and rng.random() < 0.5:
            o = ["pad", list(rng.choice(PADS_REL_ENV))]
        ops.append(o)
    c["ops"] = ops
    return c


def gen_poke_run(rng):
    """Mostly `next` over several loops of a definite source, the client writing `.loop` once or twice."""
    n = rng.choice([2, 2, 3])
    loops = rng.choice([2, 3, -1])
    total = n * (loops if loops > 0 else 3) + 2
    ops = [["next"] for _ in range(total)]
    for _ in range(rng.choice([1, 1, 2])):
        ops.insert(rng.randrange(0, max(1, total - n)), ["poke", rng.choice(POKES)])
    if rng.random() < 0.3:
        ops.insert(rng.randrange(len(ops)), gen_seek(rng, n, rng.randrange(n)))
    return env_case(n=n, loops=loops, cache=rng.choice([False, True, n]), size=list(rng.choice(SIZES)),
                    dur=rng.choice(DURS), stamp=rng.random() < 0.5, term0=list(rng.choice(TERMS)), ops=ops)


def gen_session_case(rng):
    """Two iterators, one after the other, over ONE caller-owned render data object of a definite source:
    the first advanced k frames (or run through any short history), closed or simply dropped; the second
    iterated fully (or run through any history)."""
    n = rng.choice([2, 3, 3, 5])
    if rng.random() < 0.65:
        k = rng.choice([0, 1, n - 1, n, n, rng.randint(1, n), n + 1])
        ops1 = [["next"] for _ in range(k)]
        y = rng.random()
        if y < 0.2:
            ops1.append(gen_seek(rng, n, k if k < n else n))
        elif y < 0.35:
            ops1.append(rng.choice([["size", list(rng.choice(SIZES))], ["dur", rng.choice(DURS)]]))
        if rng.random() < 0.5:
            ops1.append(["close"])
    else:
        ops1 = (gen_env_case(rng, 8) if rng.random() < 0.3 else gen_case(rng, 8, fault_p=0.0))["ops"]
    loops2 = rng.choice([1, 2, 2, -1])
    if rng.random() < 0.6:
        ops2 = [["next"] for _ in range(n * (loops2 if loops2 > 0 else 2) + 1)]
        if rng.random() < 0.3:
            ops2.insert(0, ["seek", rng.choice([1, -1, 0]), 1, True])
    else:
        ops2 = gen_case(rng, 12, fault_p=0.0)["ops"]
    c = env_case(n=n, loops=rng.choice([1, 2, -1]), cache=rng.choice([False, True, n]),
                 size=list(rng.choice(SIZES)), dur=rng.choice(DURS), pad=gen_pad(rng), owns=False,
                 frame=0 if rng.random() < 0.6 else rng.randrange(n), stamp=rng.random() < 0.5,
                 term0=list(rng.choice(TERMS)), ops=ops1)
    # (seeks of borrowed histories were aimed at another frame count: they are simply valid or invalid seeks here)
    c["second"] = second_cfg(ops2, loops=loops2, cache=rng.choice([False, True, n]), pad=gen_pad(rng),
                             args=rng.choice(ARGS), owns=rng.random() < 0.2)
    return c


RZ, PK = (lambda w, h: ["resize", [w, h]]), (lambda v: ["poke", v])
ENV_CORPUS = [
    # a terminal-relative padding is resolved upon reception and persists over resizes / set_render_size
    env_case(n=3, loops=2, pad=["A", 0, -2, 1, 1], ops=[N, RZ(40, 10), N, ["size", [2, 1]], N, N]),
    env_case(n=3, loops=2, ops=[N, ["pad", ["A", -10, -5, 0, 0]], N, RZ(100, 50), S(1), ["size", [3, 2]], N,
                                ["size", [1, 1]], N]),
    env_case(n=2, loops=-1, cache=True, stamp=True, pad=["A", -70, -25, 0, 2], term0=[100, 50],
             ops=[N, N, RZ(20, 5), N, ["size", [2, 3]], N, N, ["pad", ["A", 0, 0, 1, 1]], N, RZ(80, 30), N,
                  ["size", [1, 1]], N]),
    env_case(n=None, total=6, pad=["A", 0, 0, 1, 1], term0=[40, 10], ops=[N, RZ(80, 24), ["size", [2, 1]], N,
                                                                           ["pad", ["A", 0, 0, 1, 1]], N]),
    env_case(n=2, pad=["A", 0, 0, 1, 1], term0=[20, 5], ops=[RZ(30, 30), ["close"], ["pad", ["A", 0, 0, 1, 1]],
                                                             ["size", [1, 1]], N]),
    # writing `.loop` does not affect the iterator; the countdown shows again at the next end-of-pass update
    env_case(n=3, loops=3, ops=[N, N, PK(1)] + [N] * 9),
    env_case(n=2, loops=2, cache=True, ops=[N, PK(0), N, N, N, N, N]),
    env_case(n=2, loops=2, ops=[N, N, N, PK(7), N, N, N]),
    env_case(n=3, loops=-1, ops=[N, PK(2), N, N, N, N, PK(-1), N, N, N]),
    env_case(n=3, loops=3, ops=[PK(-1)] + [N] * 11),
    env_case(n=2, loops=2, ops=[N, N, N, N, N, PK(5), N, S(0), ["close"], PK(1), N]),
    env_case(n=None, total=3, ops=[N, PK(3), N, N, N, PK(2), N]),
    # a second iterator over re-used render data starts at frame 0, full countdown
    env_case(n=5, owns=False, ops=[N, N, N, ["close"]], second=second_cfg([N] * 11, loops=2)),
    env_case(n=5, owns=False, ops=[N] * 5, second=second_cfg([N, N], loops=2)),
    env_case(n=5, owns=False, ops=[N, N], second=second_cfg([S(1, 1), N, S(-3, 1), N])),
    env_case(n=3, owns=False, loops=2, cache=True, frame=2, ops=[N, N, N, N, ["size", [2, 1]], ["dur", 7]],
             second=second_cfg([N] * 4, cache=True, pad=["A", 0, 0, 1, 1])),
    env_case(n=2, owns=False, ops=[N, S(1), RZ(40, 10)], second=second_cfg([N, N, N], pad=["A", 0, -2, 1, 1])),
    env_case(n=2, owns=False, ops=[N], second=second_cfg([N], loops=0)),
]


def events(term0, ops):
    """the events of a history: [(terminal size in force, step)], the indices of those steps, the final size"""
    cur, evs, keep = list(term0), [], []
    for i, o in enumerate(ops):
        if o[0] == "resize":
            cur = list(o[1])
        else:
            evs.append((cur, o))
            keep.append(i)
    return evs, keep, cur


def ev_t(e):
    t, o = e
    if o[0] == "poke":
        return f"({size_t(t)}, EPoke {z(o[1])})"
    return f"({size_t(t)}, EOp ({op_t(o)}))"


def ctor_t(x):
    return "None" if x is None or x[0] == "ok" else f"(Some {err_t(x[1:])})"


def ecase_t(c, r):
    faults = core.coq_list(sorted((int(k), v) for k, v in c.get("faults", {}).items()),
                           lambda kv: f"({kv[0]}%nat, {z(kv[1])})")
    ffaults = core.coq_list(sorted((int(k), v) for k, v in c.get("ffaults", {}).items()),
                            lambda kv: f"({z(kv[0])}, {z(kv[1])})")
    n = "None" if c["n"] is None else f"(Some {z(c['n'])})"
    evs, keep, cur = events(c.get("term0", [80, 30]), c["ops"])
    steps = r.get("ops", [])
    kept = [steps[i] for i in keep if i < len(steps)]
    obs = core.coq_list(kept, lambda x: f"({out_t(x[0])}, {z(x[1])})")
    tells = core.coq_list(kept, lambda x: z(x[2]))
    sec = c.get("second")
    if sec is None:
        second, ctor2, obs2, tells2 = "None", "None", "[]", "[]"
    else:
        evs2, keep2, _ = events(sec.get("term", cur), sec["ops"])
        cfg2 = dict(sec, size=c["size"], dur=c["dur"], frame=c.get("frame", 0))
        second = f"(Some ({size_t(sec.get('term', cur))}, {cfg_t(cfg2)}, {core.coq_list(evs2, ev_t)}))"
        steps2 = r.get("ops2", [])
        kept2 = [steps2[i] for i in keep2 if i < len(steps2)]
        ctor2 = ctor_t(r.get("ctor2"))
        obs2 = core.coq_list(kept2, lambda x: f"({out_t(x[0])}, {z(x[1])})")
        tells2 = core.coq_list(kept2, lambda x: z(x[2]))
    return (f"{{| e_n := {n}; e_total := {z(c.get('total', 5))}; e_faults := {faults}; e_ffaults := {ffaults}; "
            f"e_stamp := {'true' if c.get('stamp') else 'false'}; e_term0 := {size_t(c.get('term0', [80, 30]))}; "
            f"e_cfg := {cfg_t(c)}; e_hist := {core.coq_list(evs, ev_t)}; e_ctor := {ctor_t(r['ctor'])}; "
            f"e_obs := {obs}; e_tells := {tells}; e_second := {second}; e_ctor2 := {ctor2}; e_obs2 := {obs2}; "
            f"e_tells2 := {tells2}; e_log := {core.coq_list(r['log'], rcall_t)} |}}")


ENV_HEADER = ("From Coq Require Import List ZArith.\nImport ListNotations.\n"
              "From TI Require Import model.Iter model.IterSpec model.IterTie model.IterEnv model.IterEnvTie.\n"
              "Open Scope nat_scope.\n")


def is_env(c):
    return c.get("mode") == "env"


def evaluate_env(cases, tag="c08e"):
    """Returns (codes per case, errors, impl results)."""
    impl = core.run_impl_parallel("impl_c08.py", cases, timeout=IMPL_TIMEOUT[0])
    terms = [ecase_t(c, r) for c, r in zip(cases, impl)]
    codes = [0] * len(cases)
    res, errors = core.coq_shards(tag, ENV_HEADER, terms, "ecase", "bad_env cases", shard=120)
    for idx, code in res:
        codes[idx] = code
    return codes, errors, impl


def evaluate_any(cases, tag="c08"):
    """plain and env cases mixed"""
    pi = [k for k, c in enumerate(cases) if not is_env(c)]
    ei = [k for k, c in enumerate(cases) if is_env(c)]
    codes, errors, impl = [0] * len(cases), [], [None] * len(cases)
    for idx, fn, t in ((pi, evaluate, tag), (ei, evaluate_env, tag + "e")):
        if idx:
            c2, e2, i2 = fn([cases[k] for k in idx], tag=t)
            errors += e2
            for k, code, r in zip(idx, c2, i2):
                codes[k], impl[k] = code, r
    return codes, errors, impl


def fails_env(cands, tag="c08es"):
    codes, errors, _ = evaluate_env(cands, tag=tag)
    return [code >= 2 and not errors for code in codes]


def shrink_env(case, fails, tag, rounds=30):
    """Greedy, batched, like `shrink`: single steps, prefixes, removals on both histories; dropping the second
    iterator; default configurations."""
    cur = case
    dflt = env_case()
    cfg_fields = ("faults", "ffaults", "stamp", "frame", "args", "dur", "size", "cache", "loops", "pad", "total",
                  "term0")
    sec_dflt = second_cfg([])
    sec_fields = ("args", "pad", "loops", "cache", "owns")

    def with_ops(which, ops):
        c = copy.deepcopy(cur)
        if which == 0:
            c["ops"] = ops
        else:
            c["second"]["ops"] = ops
        return c

    for _ in range(rounds):
        if core.over_budget():
            break
        cands = []
        lists = [(0, cur["ops"])] + ([(1, cur["second"]["ops"])] if cur.get("second") else [])
        if cur.get("second"):
            c = copy.deepcopy(cur)
            del c["second"]
            cands.append(c)
        for which, ops in lists:
            if len(ops) > 1:
                cands += [with_ops(which, [copy.deepcopy(o)]) for o in ops]
                cands += [with_ops(which, copy.deepcopy(ops[:k])) for k in range(1, len(ops))]
        if any(cur.get(f) != dflt[f] for f in cfg_fields):
            c = copy.deepcopy(cur)
            for f in cfg_fields:
                c[f] = copy.deepcopy(dflt[f])
            cands.append(c)
        for which, ops in lists:
            if len(ops) >= 1 and not (which == 0 and len(ops) == 1 and not cur.get("second")):
                cands += [with_ops(which, copy.deepcopy(ops[:k] + ops[k + 1:])) for k in range(len(ops))]
        for f in cfg_fields:
            if cur.get(f) != dflt[f]:
                c = copy.deepcopy(cur)
                c[f] = copy.deepcopy(dflt[f])
                cands.append(c)
        if cur.get("second"):
            for f in sec_fields:
                if cur["second"].get(f) != sec_dflt[f]:
                    c = copy.deepcopy(cur)
                    c["second"][f] = copy.deepcopy(sec_dflt[f])
                    cands.append(c)
        if cur.get("n") not in (2, None):
            c = copy.deepcopy(cur)
            c["n"] = 2
            cands.append(c)
        cands = [c for c in cands if c.get("n") is None or (0 <= c.get("frame", 0) < c["n"])]
        cands = [c for c in cands if not (c.get("second") and c.get("owns", True))]
        if not cands:
            break
        try:
            verdicts = fails(cands, tag)
        except Exception:  # noqa: BLE001 — a candidate the driver cannot set up: judge one by one
            verdicts = []
            for c in cands:
                try:
                    verdicts.append(fails([c], tag)[0])
                except Exception:  # noqa: BLE001
                    verdicts.append(False)
        nxt = next((c for c, v in zip(cands, verdicts) if v), None)
        if nxt is None:
            break
        cur = nxt
    return cur


def describe_env(c):
    def one(o):
        if o[0] == "seek":
            return f"seek({o[1]},{WH[o[2]][1:].upper()})"
        if o[0] == "resize":
            return f"TERMINAL-RESIZED-TO{tuple(o[1])}"
        if o[0] == "poke":
            return f"iterator.loop={o[1]}"
        return o[0] if len(o) == 1 else f"{o[0]}({json.dumps(o[1])})"
    n = "INDEFINITE" if c["n"] is None else c["n"]
    s = (f"terminal={tuple(c.get('term0', [80, 30]))} frames={n} loops={c['loops']} cache={c['cache']} "
         f"size={c['size']} dur={c['dur']} args={c['args']} pad={c['pad']} owns={c.get('owns', True)} "
         f"tell={c.get('frame', 0)} faults={c.get('faults', {})} ops=[{', '.join(map(one, c['ops']))}]")
    sec = c.get("second")
    if sec:
        s += (f" THEN the iterator is dropped and a second one made over the same render data: loops={sec['loops']} "
              f"cache={sec['cache']} args={sec['args']} pad={sec['pad']} finalize={sec.get('owns', False)} "
              f"ops=[{', '.join(map(one, sec['ops']))}]")
    return s


def signature_env(c):
    return core.sig({k: c.get(k) for k in ("mode", "term0", "n", "loops", "cache", "size", "dur", "args", "pad", "owns",
                                           "frame", "faults", "ffaults", "ops", "second")})


def report_env_failures(cases, codes, impl, max_shrunk=2, max_reported=6):
    failing = [k for k, code in enumerate(codes) if code >= 2]
    if not failing:
        return []

    def family(c):
        ks = {o[0] for o in c["ops"]} | ({"second"} if c.get("second") else set())
        return tuple(sorted(ks & {"resize", "poke", "second"}))
    # one representative per family of environment change first, shortest first
    failing.sort(key=lambda k: len(cases[k]["ops"]) + len((cases[k].get("second") or {}).get("ops", [])))
    chosen, seen = [], set()
    for k in failing:
        if family(cases[k]) not in seen:
            seen.add(family(cases[k]))
            chosen.append(k)
    chosen += [k for k in failing if k not in chosen]
    chosen = chosen[:max_reported]
    minimal = [shrink_env(cases[k], fails_env, "c08es") if j < max_shrunk else cases[k]
               for j, k in enumerate(chosen)]
    uniq = {}
    for m in minimal:
        uniq.setdefault(signature_env(m), m)
    keys = list(uniq)
    c2, _, impl2 = evaluate_env([uniq[k] for k in keys], "c08er")
    out = []
    for k, code, obs in zip(keys, c2, impl2):
        m = uniq[k]
        seen_obs = [x[0] for x in obs.get("ops", [])] + ([["second:"] + [x[0] for x in obs.get("ops2", [])]]
                                                         if m.get("second") else [])
        out.append({
            "signature": k,
            "what": "iterator history in a changing environment (terminal resizes / writes to .loop / render data "
                    "re-used by a second iterator) contradicts the documented model (IterSpec over IterEnv events): "
                    + describe_env(m) + " -> observed " + json.dumps(seen_obs)[:700]
                    + f" [{len(failing)} failing env case(s) in this run]",
            "replay": {"case": m, "observed": obs, "code": code},
        })
    return out


def env_histogram(cases, impl):
    h = {"env_cases": len(cases), "resizes": 0, "set_render_size_after_resize_under_relative_padding": 0,
         "set_padding_relative_after_resize": 0, "frames_after_resize": 0, "pokes": {}, "pokes_before_a_wrap": 0,
         "pokes_on_open_iterator": 0, "terminal_sizes": {}, "second_iterators": 0, "second_first_advanced_k": {},
         "second_first_closed_explicitly": 0, "second_refused": 0, "second_frames": 0,
         "padding_kind_ctor": {}}

    def inc(k, v):
        v = str(v)
        h[k][v] = h[k].get(v, 0) + 1

    for c, r in zip(cases, impl):
        inc("padding_kind_ctor", pad_kind(c["pad"]))
        inc("terminal_sizes", tuple(c.get("term0", [80, 30])))
        if r["ctor"][0] != "ok":
            continue
        resized, rel = False, pad_kind(c["pad"]) == "aligned-relative"
        for i, (o, x) in enumerate(zip(c["ops"], r["ops"])):
            if o[0] == "resize":
                h["resizes"] += 1
                resized = True
                inc("terminal_sizes", tuple(o[1]))
            elif o[0] == "pad":
                rel = pad_kind(o[1]) == "aligned-relative"
                h["set_padding_relative_after_resize"] += resized and rel and x[0][0] == "K"
            elif o[0] == "size":
                h["set_render_size_after_resize_under_relative_padding"] += resized and rel and x[0][0] == "K"
            elif o[0] == "poke":
                inc("pokes", o[1])
                later = [y[0] for y in r["ops"][i + 1:]]
                h["pokes_on_open_iterator"] += any(y[0] == "F" for y in later)
                nums = [y[1] for y in later if y[0] == "F"]
                h["pokes_before_a_wrap"] += any(b <= a for a, b in zip(nums, nums[1:])) if c["n"] else 0
            elif o[0] == "next" and x[0][0] == "F":
                h["frames_after_resize"] += resized
        if c.get("second"):
            h["second_iterators"] += 1
            inc("second_first_advanced_k", sum(1 for x in r["ops"] if x[0][0] == "F"))
            h["second_first_closed_explicitly"] += any(o[0] == "close" for o in c["ops"])
            h["second_refused"] += (r.get("ctor2") or ["ok"])[0] != "ok"
            h["second_frames"] += sum(1 for x in r.get("ops2", []) if x[0][0] == "F")
    return h


def nontrivial_env(c, r):
    """an environment change (resize, write to .loop, or a second iterator) and >= 2 frames yielded"""
    if r["ctor"][0] != "ok":
        return False
    frames = sum(1 for x in r["ops"] + r.get("ops2", []) if x[0][0] == "F")
    return frames >= 2 and (bool(c.get("second")) or any(o[0] in ("resize", "poke") for o in c["ops"]))


def exhaustive_env_small(maxlen):
    """every history of length <= maxlen over a small alphabet with a resize and writes to .loop"""
    import itertools
    alphabet = [N, RZ(40, 10), PK(0), PK(5), ["size", [2, 1]], ["pad", ["A", 0, -2, 1, 1]], S(0)]
    out = []
    for ln in range(1, maxlen + 1):
        for ops in itertools.product(alphabet, repeat=ln):
            if any(o[0] in ("resize", "poke") for o in ops):
                out.append(env_case(n=2, loops=2, cache=True, stamp=True, pad=["A", 0, 0, 1, 1],
                                    ops=[copy.deepcopy(list(o)) for o in ops]))
    return out


# ================================================================= render arguments by CLASS RELATION
#
# model/IterArgs.v: the render arguments handed to set_render_args / the constructors are associated with the
# renderable's own class, an ANCESTOR's (compatible: converted), a DESCENDANT's (subclass) or an UNRELATED class
# (incompatible: IncompatibleRenderArgsError, nothing changes).  Driver: impl_c08.py cases with "hier" (class
# hierarchy Renderable <- VR <- VRMid <- VRLeaf, VR <- VRSib, Other; iterators over VRMid instances); judged by
# model/IterArgsTie.v [checkA].

RELS = ["same", "same", "anc", "anc0", "desc", "desc", "sib", "other"]
REL_T = {"same": "CSame", "anc": "CAncestor", "anc0": "CAncestor", "desc": "CDescendant", "sib": "CUnrelated",
         "other": "CUnrelated"}


def gen_offered(rng, rel=None):
    rel = rel or rng.choice(RELS)
    a = {"rel": rel}
    if rel in ("same", "anc", "desc", "sib"):
        a["b"] = rng.randint(0, 3)
    if rel in ("same", "desc"):
        a["m"] = rng.randint(0, 3)
    if rel in ("desc", "sib", "other"):
        a["x"] = rng.randint(0, 3)
    return a


def args_case(**kw):
    c = base_case(hier=True, n=3, loops=2)
    c.update(kw)
    return c


def gen_args_case(rng, length=20):
    """A history of gen_case over a VRMid instance; every set_render_args (more of them) and the constructor
    carry arguments of one of the class relations, with field values that tell the frames apart."""
    c = gen_case(rng, length, fault_p=0.04, setting_bias=True)
    c["hier"] = True
    c["args"] = "none" if rng.random() < 0.3 else gen_offered(rng, rng.choice(["same", "same", "anc", "anc", "anc0",
                                                                              "desc", "sib", "other"]))
    ops = []
    for o in c["ops"]:
        if o[0] == "args":
            o = ["args", gen_offered(rng)]
        elif rng.random() < 0.12:
            ops.append(["args", gen_offered(rng)])
        ops.append(o)
    if not any(o[0] == "args" for o in ops):
        ops.insert(rng.randrange(len(ops) + 1), ["args", gen_offered(rng)])
    c["ops"] = ops
    return c


def A(rel, **kw):
    return ["args", dict(rel=rel, **kw)]


ARGS_CORPUS = [
    # each relation handed to set_render_args between two frames
    args_case(args={"rel": "same", "b": 1, "m": 1}, ops=[N, A("desc", b=3, m=2, x=1), N, N]),
    args_case(args={"rel": "same", "b": 1, "m": 1}, ops=[N, A("anc", b=2), N, A("anc0"), N, A("same", b=3, m=2), N]),
    args_case(ops=[N, A("sib", b=2, x=1), N, A("other", x=3), N, A("desc", b=0, m=0, x=0), N]),
    args_case(cache=True, stamp=True, ops=[N, N, N, A("desc", b=1, m=1, x=1), N, A("anc", b=0), N, N,
                                           A("same", b=0, m=0), N]),
    args_case(n=None, total=4, loops=1, ops=[N, A("desc", b=2, m=2), N, A("anc", b=2), N, N, N]),
    args_case(ops=[N, ["close"], A("desc", b=1, m=1), A("same", b=1, m=1), A("other"), N]),
    args_case(ops=[A("desc", b=1, m=2, x=3), N]),
    # each relation handed to the constructors
] + [args_case(args=dict(a), owns=owns, ops=[N, N])
     for owns in (True, False)
     for a in ({"rel": "same", "b": 2, "m": 3}, {"rel": "anc", "b": 2}, {"rel": "anc0"},
               {"rel": "desc", "b": 2, "m": 3, "x": 1}, {"rel": "sib", "b": 1, "x": 1}, {"rel": "other", "x": 2})]


def offered_t(a):
    rel = a["rel"]
    inh = a.get("b", 0) if rel != "other" else 0
    own = a.get("m", 0) if rel in ("same", "desc") else 0
    return f"{{| o_rel := {REL_T[rel]}; o_inh := {z(inh)}; o_own := {z(own)} |}}"


def aop_t(o):
    if o[0] == "args" and isinstance(o[1], dict):
        return f"ASetArgs {offered_t(o[1])}"
    return f"APlain ({op_t(o)})"


def acase_t(c, r):
    t = case_t(dict(c, args="none", ops=[]), r)
    ctor = f"(Some {offered_t(c['args'])})" if isinstance(c["args"], dict) else "None"
    return f"{{| ac_t := {t}; ac_ctor := {ctor}; ac_ops := {core.coq_list(c['ops'], aop_t)} |}}"


ARGS_HEADER = ("From Coq Require Import List ZArith.\nImport ListNotations.\n"
               "From TI Require Import model.Iter model.IterSpec model.IterTie model.IterArgs model.IterArgsTie.\n"
               "Open Scope nat_scope.\n")


def evaluate_args(cases, tag="c08a"):
    """Returns (codes per case, errors, impl results)."""
    impl = core.run_impl_parallel("impl_c08.py", cases, timeout=IMPL_TIMEOUT[0])
    terms = [acase_t(c, r) for c, r in zip(cases, impl)]
    codes = [0] * len(cases)
    res, errors = core.coq_shards(tag, ARGS_HEADER, terms, "acase", "badA cases", shard=150)
    for idx, code in res:
        codes[idx] = code
    return codes, errors, impl


def fails_args(cands, tag="c08as"):
    codes, errors, _ = evaluate_args(cands, tag=tag)
    return [code >= 2 and not errors for code in codes]


def is_args(c):
    return bool(c.get("hier"))


def describe_args(c):
    return ("render class hierarchy Renderable <- VR(foo) <- VRMid(mid) <- VRLeaf(leaf), VR <- VRSib, Other; "
            "iterator over a VRMid instance; render arguments by the class they are associated with "
            "(same=VRMid, anc=VR, anc0=Renderable, desc=VRLeaf, sib=VRSib, other=Other; frames show foo+100*mid): "
            + describe(c))


def signature_args(c):
    return core.sig({k: c.get(k) for k in ("hier", "n", "loops", "cache", "size", "dur", "args", "pad", "owns",
                                           "frame", "faults", "ffaults", "ops")})


def report_args_failures(cases, codes, max_shrunk=2, max_reported=5):
    failing = [k for k, code in enumerate(codes) if code >= 2]
    if not failing:
        return []
    failing.sort(key=lambda k: len(cases[k]["ops"]))
    chosen = failing[:max_reported]
    minimal = [shrink(cases[k], fails_args, "c08as") if j < max_shrunk else cases[k] for j, k in enumerate(chosen)]
    uniq = {}
    for m in minimal:
        uniq.setdefault(signature_args(m), m)
    keys = list(uniq)
    c2, _, impl2 = evaluate_args([uniq[k] for k in keys], "c08ar")
    out = []
    for k, code, obs in zip(keys, c2, impl2):
        m = uniq[k]
        out.append({
            "signature": k,
            "what": "iterator history with render arguments of another class contradicts the documented model "
                    "(compatible = same class or an ancestor's; otherwise IncompatibleRenderArgsError and no change): "
                    + describe_args(m) + " -> constructor " + json.dumps(obs.get("ctor")) + ", observed "
                    + json.dumps([x[0] for x in obs.get("ops", [])])[:600]
                    + f" [{len(failing)} failing case(s) of this family in this run]",
            "replay": {"case": m, "observed": obs, "code": code},
        })
    return out


def args_histogram(cases, impl):
    h = {"args_cases": len(cases), "ctor_relation": {}, "ctor_rejected": 0, "set_relation": {},
         "set_accepted": {}, "set_rejected_incompatible": {}, "set_on_closed": 0,
         "frames_after_a_rejected_set": 0, "frames_after_an_accepted_conversion": 0, "cached": 0,
         "from_render_data": 0}
    for c, r in zip(cases, impl):
        rel0 = c["args"]["rel"] if isinstance(c["args"], dict) else "none"
        h["ctor_relation"][rel0] = h["ctor_relation"].get(rel0, 0) + 1
        h["from_render_data"] += not c.get("owns", True)
        if r["ctor"][0] != "ok":
            h["ctor_rejected"] += 1
            continue
        h["cached"] += c["cache"] is not False and c["n"] is not None
        rejected = converted = False
        for o, x in zip(c["ops"], r["ops"]):
            out = x[0]
            if o[0] == "args" and isinstance(o[1], dict):
                rel = o[1]["rel"]
                h["set_relation"][rel] = h["set_relation"].get(rel, 0) + 1
                if out[0] == "K":
                    h["set_accepted"][rel] = h["set_accepted"].get(rel, 0) + 1
                    converted = converted or rel in ("anc", "anc0")
                elif out[1] == "incompat":
                    h["set_rejected_incompatible"][rel] = h["set_rejected_incompatible"].get(rel, 0) + 1
                    rejected = True
                else:
                    h["set_on_closed"] += 1
            elif o[0] == "next" and out[0] == "F":
                h["frames_after_a_rejected_set"] += rejected
                h["frames_after_an_accepted_conversion"] += converted
    return h


def nontrivial_args(c, r):
    """>= 2 frames yielded and a set_render_args with arguments given by class relation"""
    if r["ctor"][0] != "ok":
        return False
    frames = sum(1 for x in r["ops"] if x[0][0] == "F")
    return frames >= 2 and any(o[0] == "args" and isinstance(o[1], dict) for o in c["ops"])


def exhaustive_args_small(maxlen):
    """every history of length <= maxlen over next / one set_render_args per relation / seek / close"""
    import itertools
    alphabet = [N, A("same", b=2, m=1), A("anc", b=3), A("anc0"), A("desc", b=2, m=2, x=1), A("sib", b=1, x=1),
                A("other", x=1), S(0), ["close"]]
    out = []
    for ln in range(1, maxlen + 1):
        for ops in itertools.product(alphabet, repeat=ln):
            if any(o[0] == "args" for o in ops) and any(o[0] == "next" for o in ops):
                out.append(args_case(n=2, cache=True, stamp=True, args={"rel": "same", "b": 1, "m": 1},
                                     ops=[copy.deepcopy(list(o)) for o in ops]))
    return out


# ================================================================= padding objects by CLASS; min size vs render size
#
# model/IterPadCls.v: the padding handed to the constructors / set_padding is an OBJECT WITH A CLASS (AlignedPadding
# itself / a client subclass of it / ExactPadding / a subclass of it / a client subclass of Padding); the resolution
# of relative dimensions depends on `relative` only.  And: the padded size ACROSS a set_render_size — histories in
# which the render size moves from not-below to below the aligned padding's minimum (and back), in each dimension
# separately, a frame right after each move.  Driver: impl_c08.py (class tag = 6th element of a padding); judged by
# model/IterPadClsTie.v [checkP].

SIZES_P = [[1, 1], [2, 1], [1, 2], [3, 2], [2, 3], [3, 3], [4, 3], [2, 4]]
PCLS_A = ["base", "sub", "sub"]
PCLS_E = ["base", "sub", "client"]
PK_T = {("A", "base"): "KAligned", ("A", "sub"): "KAlignedSub", ("E", "base"): "KExact", ("E", "sub"): "KExactSub",
        ("E", "client"): "KClient"}


def pobj_cls(p):
    return p[5] if len(p) > 5 else "base"


def gen_pobj(rng, around=None):
    """a padding object: fields + class.  Aligned absolute minimum sizes are aimed at the render sizes in use
    (each dimension independently one below / equal / one above a size of SIZES_P, or of `around`)."""
    kind = rng.choice(["A", "A", "A", "R", "R", "E"])
    if kind == "E":
        return list(rng.choice(PADS_EXACT)) + [rng.choice(PCLS_E)]
    if kind == "R":
        return list(rng.choice(PADS_REL_ENV)) + [rng.choice(PCLS_A)]
    sz = around if around is not None and rng.random() < 0.6 else rng.choice(SIZES_P)
    w = max(1, sz[0] + rng.choice([-1, 0, 0, 1]))
    h = max(1, sz[1] + rng.choice([-1, 0, 0, 1]))
    return ["A", w, h, rng.randint(0, 2), rng.randint(0, 2), rng.choice(PCLS_A)]


def pad_case(**kw):
    c = base_case(padcls=True, n=5, loops=2)
    c.update(kw)
    return c


def gen_padcls_case(rng, length=20):
    """Either a history of gen_case whose paddings are objects with a class (more set_padding / set_render_size,
    a frame after most of them), or a 'crossing' run: one aligned padding, the render size moved around its minimum
    size, a frame after every move."""
    if rng.random() < 0.5:
        c = gen_case(rng, length, fault_p=0.03, setting_bias=True)
        c["padcls"] = True
        c["size"] = list(rng.choice(SIZES_P))
        c["pad"] = gen_pobj(rng, c["size"])
        ops, cur = [], c["size"]
        for o in c["ops"]:
            if o[0] == "pad":
                o = ["pad", gen_pobj(rng, cur)]
            elif o[0] == "size":
                o = ["size", list(rng.choice(SIZES_P))]
                cur = o[1]
            elif rng.random() < 0.1:
                ops.append(["pad", gen_pobj(rng, cur)] if rng.random() < 0.5 else ["size", list(rng.choice(SIZES_P))])
                if ops[-1][0] == "size":
                    cur = ops[-1][1]
            ops.append(o)
        c["ops"] = ops
        return c
    size = list(rng.choice(SIZES_P))
    pad = gen_pobj(rng, size)
    while pad[0] != "A" or pad[1] <= 0 or pad[2] <= 0:
        pad = gen_pobj(rng, size)
    n = rng.choice([3, 5, None])
    c = pad_case(n=n, total=8, loops=rng.choice([-1, 3]), cache=rng.choice([False, True]), size=size, pad=pad,
                 owns=rng.random() < 0.7, dur=rng.choice(DURS), stamp=rng.random() < 0.3)
    ops = [["next"]] if rng.random() < 0.7 else []
    for _ in range(rng.randint(2, 7)):
        x = rng.random()
        if x < 0.75:
            # a size chosen by its relation to the minimum: each dimension below / equal / above
            w = max(1, pad[1] + rng.choice([-2, -1, 0, 0, 1]))
            h = max(1, pad[2] + rng.choice([-2, -1, 0, 0, 1]))
            ops.append(["size", [w, h]])
        elif x < 0.9:
            pad = gen_pobj(rng, size)
            while pad[0] != "A" or pad[1] <= 0 or pad[2] <= 0:
                pad = gen_pobj(rng, size)
            ops.append(["pad", pad])
        else:
            ops.append(gen_seek(rng, n, 0))
        if rng.random() < 0.85:
            ops.append(["next"])
    c["ops"] = ops
    return c


P_OBJECTS = [["A", 0, -2, 1, 1, "base"], ["A", 0, -2, 1, 1, "sub"], ["A", -70, 0, 0, 2, "sub"], ["A", 4, 3, 1, 1, "base"],
             ["A", 4, 3, 2, 0, "sub"], ["E", 1, 0, 2, 1, "base"], ["E", 1, 0, 2, 1, "sub"], ["E", 0, 1, 1, 0, "client"],
             ["E", 0, 0, 0, 0, "client"]]
PADCLS_CORPUS = (
    # every class x relative/absolute through every entry point: RenderIterator(...) (-> Renderable._init_render_),
    # _from_render_data_, set_padding; then the render size changes
    [pad_case(size=[2, 2], pad=list(o), owns=owns, ops=[N, ["size", [1, 1]], N]) for owns in (True, False)
     for o in P_OBJECTS]
    + [pad_case(size=[2, 2], owns=owns, ops=[N, ["pad", list(o)], N, ["size", [3, 1]], N, ["close"], ["pad", list(o)]])
       for owns in (True, False) for o in P_OBJECTS]
    # the render size moves from not-below to below the minimum and back: both dimensions, width only, height only
    + [pad_case(size=[4, 3], pad=["A", 3, 3, 1, 1, cls], ops=[N, ["size", [1, 1]], N, N, ["size", [2, 5]], N,
                                                             ["size", [3, 3]], N, ["size", [1, 2]], N])
       for cls in ("base", "sub")]
    + [pad_case(size=[3, 2], pad=["A", 3, 1, 0, 0, "base"], ops=[N, ["size", [2, 3]], N, ["size", [3, 1]], N]),
       pad_case(size=[2, 3], pad=["A", 1, 3, 2, 2, "sub"], ops=[N, ["size", [3, 2]], N, ["size", [1, 3]], N]),
       pad_case(size=[1, 1], cache=True, loops=3, n=3,
                ops=[N, ["size", [3, 3]], ["pad", ["A", 2, 2, 1, 1, "sub"]], N, ["size", [1, 2]], N, ["size", [2, 1]], N,
                     N, N, N]),
       pad_case(n=None, total=6, size=[3, 3], pad=["A", -78, -28, 1, 1, "sub"],
                ops=[N, ["size", [1, 3]], N, ["size", [3, 1]], N, ["size", [2, 2]], N])]
)


def pobj_t(p):
    return f"{{| pk := {PK_T[(p[0], pobj_cls(p))]}; pp := {pad_t(p)} |}}"


def pop_t(o):
    if o[0] == "pad":
        return f"PSetPadding {pobj_t(o[1])}"
    return f"PPlain ({op_t(o)})"


def pcase_t(c, r):
    t = case_t(dict(c, pad=["E", 0, 0, 0, 0], ops=[]), r)
    return f"{{| pc_t := {t}; pc_ctor := {pobj_t(c['pad'])}; pc_ops := {core.coq_list(c['ops'], pop_t)} |}}"


PADCLS_HEADER = ("From Coq Require Import List ZArith.\nImport ListNotations.\n"
                 "From TI Require Import model.Iter model.IterSpec model.IterTie model.IterPadCls model.IterPadClsTie.\n"
                 "Open Scope nat_scope.\n")


def evaluate_padcls(cases, tag="c08p"):
    """Returns (codes per case, errors, impl results)."""
    impl = core.run_impl_parallel("impl_c08.py", cases, timeout=IMPL_TIMEOUT[0])
    terms = [pcase_t(c, r) for c, r in zip(cases, impl)]
    codes = [0] * len(cases)
    res, errors = core.coq_shards(tag, PADCLS_HEADER, terms, "pcase", "badP cases", shard=150)
    for idx, code in res:
        codes[idx] = code
    return codes, errors, impl


def fails_padcls(cands, tag="c08ps"):
    codes, errors, _ = evaluate_padcls(cands, tag=tag)
    return [code >= 2 and not errors for code in codes]


def is_padcls(c):
    return bool(c.get("padcls"))


def describe_padcls(c):
    return ("paddings are objects with a class (6th element: base = AlignedPadding / ExactPadding itself, sub = an "
            "instance of a client subclass of it, client = a client subclass of Padding; owns=False: given to "
            "_from_render_data_): " + describe(c))


def signature_padcls(c):
    return core.sig({k: c.get(k) for k in ("padcls", "n", "loops", "cache", "size", "dur", "args", "pad", "owns",
                                           "frame", "faults", "ffaults", "ops")})


def report_padcls_failures(cases, codes, max_shrunk=2, max_reported=5):
    failing = [k for k, code in enumerate(codes) if code >= 2]
    if not failing:
        return []
    failing.sort(key=lambda k: len(cases[k]["ops"]))
    chosen = failing[:max_reported]
    minimal = [shrink(cases[k], fails_padcls, "c08ps") if j < max_shrunk else cases[k] for j, k in enumerate(chosen)]
    uniq = {}
    for m in minimal:
        uniq.setdefault(signature_padcls(m), m)
    keys = list(uniq)
    c2, _, impl2 = evaluate_padcls([uniq[k] for k in keys], "c08pr")
    out = []
    for k, code, obs in zip(keys, c2, impl2):
        m = uniq[k]
        out.append({
            "signature": k,
            "what": "iterator history with padding objects of several classes / render sizes around the padding's "
                    "minimum size contradicts the documented model (relative dimensions resolved on reception whatever "
                    "the class; after set_render_size frames are padded by the current padding at the new size): "
                    + describe_padcls(m) + " -> constructor " + json.dumps(obs.get("ctor")) + ", observed "
                    + json.dumps([x[0] for x in obs.get("ops", [])])[:600]
                    + f" [{len(failing)} failing case(s) of this family in this run]",
            "replay": {"case": m, "observed": obs, "code": code},
        })
    return out


def _abs_min(p):
    """minimum size of an aligned padding once resolved against the 80x30 terminal of the plain histories"""
    w, h = p[1], p[2]
    return (max(80 + w, 1) if w <= 0 else w, max(30 + h, 1) if h <= 0 else h)


def padcls_histogram(cases, impl):
    h = {"padcls_cases": len(cases), "object_by_entry_point_class_kind": {}, "set_padding_on_closed": 0,
         "set_render_size_by_min_relation(before->after)": {}, "frames_right_after_set_render_size": 0,
         "frames_right_after_set_padding": 0, "ctor_rejected": 0}

    def inc(k, v):
        h[k][v] = h[k].get(v, 0) + 1

    def kind(p):
        return pad_kind(p).replace("aligned-", "")

    def rel(p, sz):
        if p[0] != "A":
            return "exact"
        mw, mh = _abs_min(p)
        return {(False, False): "not-below", (True, False): "below-w", (False, True): "below-h",
                (True, True): "below-both"}[(sz[0] < mw, sz[1] < mh)]

    for c, r in zip(cases, impl):
        inc("object_by_entry_point_class_kind",
            f"{'RenderIterator()' if c.get('owns', True) else '_from_render_data_'}/{c['pad'][0]}-{pobj_cls(c['pad'])}/"
            f"{kind(c['pad'])}")
        if r["ctor"][0] != "ok":
            h["ctor_rejected"] += 1
            continue
        pad, size, closed, prev = c["pad"], c["size"], False, None
        for o, x in zip(c["ops"], r["ops"]):
            out = x[0]
            if o[0] == "pad":
                inc("object_by_entry_point_class_kind", f"set_padding/{o[1][0]}-{pobj_cls(o[1])}/{kind(o[1])}")
                if out[0] == "K":
                    pad = o[1]
                else:
                    h["set_padding_on_closed"] += 1
            elif o[0] == "size" and out[0] == "K":
                inc("set_render_size_by_min_relation(before->after)", f"{rel(pad, size)}->{rel(pad, o[1])}")
                size = o[1]
            elif o[0] == "next" and out[0] == "F":
                h["frames_right_after_set_render_size"] += prev == "size"
                h["frames_right_after_set_padding"] += prev == "pad"
            prev = o[0]
    return h


def nontrivial_padcls(c, r):
    """>= 2 frames yielded and a set_padding or set_render_size between frames"""
    if r["ctor"][0] != "ok":
        return False
    frames = sum(1 for x in r["ops"] if x[0][0] == "F")
    return frames >= 2 and any(o[0] in ("pad", "size") for o in c["ops"])


def exhaustive_padcls_small(maxlen):
    """every history of length <= maxlen over next / set_render_size around the minimum (2, 2) / set_padding with an
    aligned (absolute, relative) object of a subclass and a client padding, containing a next and a setter"""
    import itertools
    alphabet = [N, ["size", [1, 1]], ["size", [3, 3]], ["size", [1, 3]], ["size", [3, 1]],
                ["pad", ["A", 2, 2, 0, 2, "sub"]], ["pad", ["A", 0, -2, 1, 1, "sub"]], ["pad", ["E", 1, 0, 0, 1, "client"]]]
    out = []
    for ln in range(2, maxlen + 1):
        for ops in itertools.product(alphabet, repeat=ln):
            if any(o[0] != "next" for o in ops) and any(o[0] == "next" for o in ops):
                out.append(pad_case(n=2, cache=True, stamp=True, size=[2, 2], pad=["A", 2, 2, 1, 1, "base"],
                                    ops=[copy.deepcopy(list(o)) for o in ops]))
    return out


def run(ctx):
    rng = ctx.rng
    if ctx.replay:
        cases = [ctx.replay["replay"]["case"]]
        env_cases = [c for c in cases if is_env(c)]
        arg_cases = [c for c in cases if is_args(c) and not is_env(c)]
        pad_cases = [c for c in cases if is_padcls(c) and not is_env(c) and not is_args(c)]
        cases = [c for c in cases if not is_env(c) and not is_args(c) and not is_padcls(c)]
    else:
        ngen = 800 if ctx.quick else 12000
        cases = [copy.deepcopy(c) for c in CORPUS]
        cases += [gen_case(rng, 25 if i % 4 else 40) for i in range(ngen)]
        if not ctx.quick:
            cases += exhaustive_small(4)
        n_env, n_poke, n_sess = (220, 40, 80) if ctx.quick else (3000, 400, 800)
        env_cases = [copy.deepcopy(c) for c in ENV_CORPUS]
        env_cases += [gen_env_case(rng, 25 if i % 4 else 40) for i in range(n_env)]
        env_cases += [gen_poke_run(rng) for _ in range(n_poke)]
        env_cases += [gen_session_case(rng) for _ in range(n_sess)]
        if not ctx.quick:
            env_cases += exhaustive_env_small(4)
        arg_cases = [copy.deepcopy(c) for c in ARGS_CORPUS]
        arg_cases += [gen_args_case(rng, 20 if i % 4 else 35) for i in range(160 if ctx.quick else 2500)]
        if not ctx.quick:
            arg_cases += exhaustive_args_small(4)
        pad_cases = [copy.deepcopy(c) for c in PADCLS_CORPUS]
        pad_cases += [gen_padcls_case(rng, 20 if i % 4 else 35) for i in range(170 if ctx.quick else 2500)]
        if not ctx.quick:
            pad_cases += exhaustive_padcls_small(4)
    if ctx.quick:
        from concurrent.futures import ThreadPoolExecutor
        with ThreadPoolExecutor(max_workers=4) as ex:  # the families are independent: overlap them
            f1 = ex.submit(lambda: evaluate(cases) if cases else ([], [], []))
            f2 = ex.submit(lambda: evaluate_env(env_cases) if env_cases else ([], [], []))
            f3 = ex.submit(lambda: evaluate_args(arg_cases) if arg_cases else ([], [], []))
            f4 = ex.submit(lambda: evaluate_padcls(pad_cases) if pad_cases else ([], [], []))
            codes, errors, impl = f1.result()
            ecodes, eerrors, eimpl = f2.result()
            acodes, aerrors, aimpl = f3.result()
            pcodes, perrors, pimpl = f4.result()
    else:
        IMPL_TIMEOUT[0] = 3000
        codes, errors, impl = evaluate(cases) if cases else ([], [], [])
        ecodes, eerrors, eimpl = evaluate_env(env_cases) if env_cases else ([], [], [])
        acodes, aerrors, aimpl = evaluate_args(arg_cases) if arg_cases else ([], [], [])
        pcodes, perrors, pimpl = evaluate_padcls(pad_cases) if pad_cases else ([], [], [])
    errors = errors + eerrors + aerrors + perrors
    failures = report_failures(cases, codes, fails_spec8, "c08s",
                               "iterator history contradicts the documented model (IterSpec)", evaluate)
    failures += report_env_failures(env_cases, ecodes, eimpl)
    failures += report_args_failures(arg_cases, acodes)
    failures += report_padcls_failures(pad_cases, pcodes)
    mismatches = [{"case": cases[i], "code": code, "observed": impl[i]} for i, code in enumerate(codes) if code == 1]
    mismatches += [{"case": env_cases[i], "code": code, "observed": eimpl[i]}
                   for i, code in enumerate(ecodes) if code == 1]
    mismatches += [{"case": arg_cases[i], "code": code, "observed": aimpl[i]}
                   for i, code in enumerate(acodes) if code == 1]
    mismatches += [{"case": pad_cases[i], "code": code, "observed": pimpl[i]}
                   for i, code in enumerate(pcodes) if code == 1]
    distinct = {signature(c) for c, r in zip(cases, impl) if nontrivial(c, r)}
    distinct |= {signature_env(c) for c, r in zip(env_cases, eimpl) if nontrivial_env(c, r)}
    distinct |= {signature_args(c) for c, r in zip(arg_cases, aimpl) if nontrivial_args(c, r)}
    distinct |= {signature_padcls(c) for c, r in zip(pad_cases, pimpl) if nontrivial_padcls(c, r)}
    hist = histogram(cases, impl)
    hist["environment"] = env_histogram(env_cases, eimpl)
    hist["render_args_by_class_relation"] = args_histogram(arg_cases, aimpl)
    hist["padding_objects_by_class_and_min_size_relation"] = padcls_histogram(pad_cases, pimpl)
    return {
        "corr_name": "Iter.trace (model) == IterSpec.spec_trace (documented machine) == real RenderIterator history "
                     "on the instrumented renderable VR (frames, loop countdown, errors, render-call log, tell()); "
                     "and IterEnv.trace_env == IterEnv.spec_trace_env == real history with terminal resizes, client "
                     "writes to iterator.loop, and a second iterator over re-used render data; and the same with render "
                     "arguments associated with the renderable's class / an ancestor's / a subclass's / an unrelated "
                     "class (IterArgs.install vs IterArgs.doc_install) on a real class hierarchy; and the same with "
                     "padding OBJECTS of several classes (IterPadCls.install_pad vs doc_install_pad) and render sizes "
                     "moved around the aligned padding's minimum size",
        "evaluations": len(cases) + len(env_cases) + len(arg_cases) + len(pad_cases),
        "distinct_nontrivial": len(distinct),
        "rule": "corpus of boundary histories + random histories (1-40 ops, Next-weighted, seeks aimed at "
                "{0, n-1, n, -1, current} and at the end-of-pass boundary, setters incl. invalid values, close/drop) "
                "over frame counts {2,3,5,INDEFINITE(stream of 3-8)}, loops {-1,1,2,3}, cache {False,True,n-1,n,n+1}, "
                "exact / aligned-absolute / aligned-terminal-relative paddings, static / DYNAMIC durations, own or "
                "caller-owned render data, 15% with a fault (exception or StopIteration) at a random _render_ call; "
                "thorough adds every history of length <= 4 over a 10-letter alphabet on a 2-frame renderable. "
                "Non-trivial: >= 4 ops, >= 2 frames yielded, >= 1 seek or setter; distinct by full case hash. "
                "ENVIRONMENT family (IterEnv): the same histories with terminal RESIZES interleaved (7 terminal sizes "
                "incl. the construction-time one; a resize is often followed by set_render_size or a relative "
                "set_padding; terminal-relative padding at construction in 55%), client WRITES to iterator.loop "
                "(values 0, 1, 2, -1, 1000; plus next-only runs over 2-3 loops with 1-2 writes), and SESSIONS of two "
                "iterators over one caller-owned render data of a definite source (first advanced k in 0..n+1 frames "
                "or run through a short history, closed or just dropped; second iterated fully or run through a "
                "history); thorough adds every history of length <= 4 over a 7-letter alphabet containing a resize "
                "or a write.  Non-trivial there: an environment change and >= 2 frames.  "
                "RENDER-ARGUMENTS family (IterArgs): histories over an instance of VRMid in the class hierarchy "
                "Renderable <- VR <- VRMid <- VRLeaf, VR <- VRSib, Other; set_render_args (at least one per history, "
                "~15% of the operations) and the constructors (RenderIterator(...) and _from_render_data_) are handed "
                "render arguments associated with VRMid itself / the ancestors VR and Renderable / the SUBCLASS VRLeaf "
                "/ the sibling VRSib / the unrelated Other, with field values 0-3 that the frames show (foo + 100*mid, "
                "+10000 if _render_ is handed arguments not associated with the renderable's class); thorough adds "
                "every history of length <= 4 over next / one set_render_args per relation / seek / close containing "
                "both.  Non-trivial there: >= 2 frames and a set_render_args by class relation.  "
                "PADDING-OBJECT family (IterPadCls): every padding given to RenderIterator(...) (-> "
                "Renderable._init_render_), _from_render_data_ and set_padding is an object of class AlignedPadding / "
                "a client subclass of AlignedPadding / ExactPadding / a subclass of it / a client subclass of Padding, "
                "aligned ones relative or absolute; absolute minimum sizes are aimed at the render sizes (each "
                "dimension one below / equal / one above); half of the histories are 'crossing' runs: one aligned "
                "padding, set_render_size to sizes chosen by their relation to the minimum (each dimension below / "
                "equal / above), a frame after most moves; corpus = every class x entry point x relative/absolute + "
                "shrink-below-minimum-and-back in both / width only / height only; thorough adds every history of "
                "length <= 4 over next / 4 sizes around the minimum / 3 padding objects.  Non-trivial there: >= 2 "
                "frames and a set_padding or set_render_size.",
        "samples": [describe(c) for c in cases[:2] + cases[len(CORPUS):len(CORPUS) + 3]]
                   + [describe_env(c) for c in env_cases[:1] + env_cases[len(ENV_CORPUS):len(ENV_CORPUS) + 2]
                      + env_cases[-1:]]
                   + [describe_args(c) for c in arg_cases[:1] + arg_cases[len(ARGS_CORPUS):len(ARGS_CORPUS) + 1]]
                   + [describe_padcls(c) for c in pad_cases[:1] + pad_cases[len(PADCLS_CORPUS):len(PADCLS_CORPUS) + 1]],
        "histogram": hist,
        "mismatches": mismatches,
        "failures": failures,
        "errors": errors,
        "assumptions": [
            "the renderable's _render_ is a parameter of the theorems (state-passing function that may return a "
            "frame, raise StopIteration or raise another exception); with caching enabled the refinement "
            "theorem additionally assumes it deterministic (render_det)",
            "the generator object of _iterate is modelled by its two suspension points and live locals",
            "the terminal size may change between any two operations of an iterator (IterEnv events carry the size in "
            "force); it is taken to be constant WITHIN one operation",
            "the only client write modelled is the assignment to the public attribute `loop`; private attributes are "
            "not written by clients",
            "padding outputs are identified with their (left, top, right, bottom) dimensions (C05 covers the string)",
            "render arguments are abstracted to (relation of their class to the renderable's class, inherited field, "
            "own field); the conversion RenderArgs(render_cls, args) of compatible arguments (C16) keeps the "
            "namespaces the arguments have and takes defaults for the rest",
            "a padding object is abstracted to (its class among AlignedPadding / subclass of it / ExactPadding / subclass "
            "of it / client subclass of Padding, its fields); client subclasses do not override resolve / "
            "get_padded_size / pad (misbehaving client methods are C10's)",
        ],
        "trusted": ["impl driver decodes padded outputs of the instrumented renderable by counting fill characters; "
                    "classifies exceptions by class; reads iterator.loop and renderable.tell() after every operation; "
                    "a resize is delivered by replacing `get_terminal_size` in every loaded term_image module (and "
                    "COLUMNS / LINES)"],
    }
